"""Fail-closed translator: the default-layer helpers of yowsup/stacks/yowstack.py and the tuple
constants of yowsup/stacks/__init__.py  ->  coq/Gen/C18Layers.v.

The four static helpers (getCoreLayers, getProtocolLayers, getDefaultLayers, getDefaultStack)
are written in a tiny fragment of Python: tuple literals of layer classes, `+`, `+=`, `[::-1]`,
`if <name>:`, calls to each other with positional/keyword *names*, `YowParallelLayer(<tuple>)`
and `return YowStack(<tuple>, reversed = <bool>)`.  That fragment is transcribed node by node
into the deep embedding of coq/C18/C18Model.v (texp / telem / stmt / fundef); its meaning is
given there by an interpreter, and the theorems of coq/C18/C18ProofsDefaults.v are re-checked
against the regenerated file on every run.  Anything outside the fragment raises
TranslateError; the caller then writes a stub (no functions) so that the rest of the model
still builds while every theorem about the helpers fails (tie broken).
"""
import ast, os, fcntl
from ..env import VERIF, REPO

OUT = os.path.join(VERIF, "coq", "Gen", "C18Layers.v")
HELPERS = ["getCoreLayers", "getProtocolLayers", "getDefaultLayers", "getDefaultStack"]

# names the hand-written Coq files refer to (must exist in the source; also emitted by the stub)
REQ_CLASSES = ["YowNetworkLayer", "YowNoiseSegmentsLayer", "YowNoiseLayer", "YowCoderLayer",
               "YowLoggerLayer", "AxolotlControlLayer", "AxolotlSendLayer", "AxolotlReceivelayer",
               "YowGroupsProtocolLayer", "YowMediaProtocolLayer", "YowPrivacyProtocolLayer",
               "YowProfilesProtocolLayer"]
REQ_VARS = ["layer", "axolotl", "groups", "media", "privacy", "profiles", "allLayers",
            "YOWSUP_PROTOCOL_LAYERS_BASIC", "YOWSUP_FULL_STACK", "YOWSUP_CORE_LAYERS",
            "YOWSUP_PROTOCOL_LAYERS_FULL"]


class TranslateError(Exception):
    pass


def _fail(node, what):
    raise TranslateError("line %s: %s" % (getattr(node, "lineno", "?"), what))


class _Names(object):
    """interning of identifiers; ids are positions in the sorted name lists"""

    def __init__(self):
        self.classes, self.vars, self.funs = set(REQ_CLASSES), set(REQ_VARS), set(HELPERS)

    def finish(self):
        self.cid = {n: i + 1 for i, n in enumerate(sorted(self.classes))}
        self.vid = {n: i + 1 for i, n in enumerate(sorted(self.vars))}
        self.fid = {n: i + 1 for i, n in enumerate(sorted(self.funs))}


def _imported(tree):
    names = set()
    for st in tree.body:
        if isinstance(st, ast.ImportFrom):
            for a in st.names:
                names.add(a.asname or a.name)
    return names


class _Tx(object):
    """expression / statement transcription; produces Coq source text"""

    def __init__(self, names, imported, known_vars):
        self.n, self.imported, self.known = names, imported, set(known_vars)

    def is_class(self, name):
        return name in self.imported and name not in self.known and \
            name not in ("YowParallelLayer", "YowStack", "YowStackBuilder", "YowLayer")

    def var(self, node, name):
        if name not in self.known:
            _fail(node, "unknown name %r" % name)
        self.n.vars.add(name)
        return "v_" + name

    def elem(self, e):
        if isinstance(e, ast.Name):
            if self.is_class(e.id):
                self.n.classes.add(e.id)
                return "LCls c_%s" % e.id
            return "LVar %s" % self.var(e, e.id)
        if isinstance(e, ast.Call) and isinstance(e.func, ast.Name) and e.func.id == "YowParallelLayer":
            if len(e.args) != 1 or e.keywords:
                _fail(e, "YowParallelLayer(...) with unexpected arguments")
            return "LPar (%s)" % self.exp(e.args[0])
        _fail(e, "unsupported tuple element %s" % ast.dump(e)[:80])

    def exp(self, e):
        if isinstance(e, ast.Name):
            return "EVar %s" % self.var(e, e.id)
        if isinstance(e, ast.Tuple):
            return "ETuple [%s]" % "; ".join(self.elem(x) for x in e.elts)
        if isinstance(e, ast.BinOp) and isinstance(e.op, ast.Add):
            return "EAdd (%s) (%s)" % (self.exp(e.left), self.exp(e.right))
        if isinstance(e, ast.Subscript):
            s = e.slice
            ok = isinstance(s, ast.Slice) and s.lower is None and s.upper is None and (
                (isinstance(s.step, ast.UnaryOp) and isinstance(s.step.op, ast.USub)
                 and isinstance(s.step.operand, ast.Constant) and s.step.operand.value == 1)
                or (isinstance(s.step, ast.Constant) and s.step.value == -1))
            if not ok:
                _fail(e, "unsupported subscript (only [::-1])")
            return "ERev (%s)" % self.exp(e.value)
        if isinstance(e, ast.Call):
            f = e.func
            if not (isinstance(f, ast.Attribute) and isinstance(f.value, ast.Name)
                    and f.value.id == "YowStackBuilder" and f.attr in HELPERS):
                _fail(e, "unsupported call %s" % ast.dump(f)[:80])
            pargs, kargs = [], []
            for a in e.args:
                if not isinstance(a, ast.Name):
                    _fail(a, "positional argument is not a name")
                pargs.append(self.var(a, a.id))
            for k in e.keywords:
                if k.arg is None or not isinstance(k.value, ast.Name):
                    _fail(e, "keyword argument is not name=name")
                self.n.vars.add(k.arg)
                kargs.append("(v_%s, %s)" % (k.arg, self.var(k.value, k.value.id)))
            return "ECall f_%s [%s] [%s]" % (f.attr, "; ".join(pargs), "; ".join(kargs))
        _fail(e, "unsupported expression %s" % ast.dump(e)[:80])

    def stmts(self, body, rev_default):
        out = []
        for st in body:
            if isinstance(st, ast.Expr) and isinstance(st.value, ast.Constant) and isinstance(st.value.value, str):
                continue  # docstring
            if isinstance(st, ast.Assign):
                if len(st.targets) != 1 or not isinstance(st.targets[0], ast.Name):
                    _fail(st, "unsupported assignment target")
                rhs = self.exp(st.value)
                self.known.add(st.targets[0].id)
                out.append("SAssign %s (%s)" % (self.var(st, st.targets[0].id), rhs))
            elif isinstance(st, ast.AugAssign):
                if not (isinstance(st.target, ast.Name) and isinstance(st.op, ast.Add)):
                    _fail(st, "unsupported augmented assignment")
                out.append("SAug %s (%s)" % (self.var(st, st.target.id), self.exp(st.value)))
            elif isinstance(st, ast.If):
                if st.orelse or not isinstance(st.test, ast.Name):
                    _fail(st, "unsupported if (only `if <name>:` without else)")
                out.append("SIf %s [%s]" % (self.var(st, st.test.id),
                                            "; ".join(self.stmts(st.body, rev_default))))
            elif isinstance(st, ast.Return):
                v = st.value
                if isinstance(v, ast.Call) and isinstance(v.func, ast.Name) and v.func.id == "YowStack":
                    if len(v.args) != 1:
                        _fail(st, "YowStack(...) call shape")
                    rev = rev_default
                    for k in v.keywords:
                        if k.arg == "reversed" and isinstance(k.value, ast.Constant) \
                                and isinstance(k.value.value, bool):
                            rev = k.value.value
                        else:
                            _fail(st, "YowStack(...) keyword %r" % k.arg)
                    out.append("SReturnStack (%s) %s" % (self.exp(v.args[0]), "true" if rev else "false"))
                elif v is None:
                    _fail(st, "bare return")
                else:
                    out.append("SReturn (%s)" % self.exp(v))
            else:
                _fail(st, "unsupported statement %s" % type(st).__name__)
        return out


def _const_value(node):
    if isinstance(node, ast.Constant) and isinstance(node.value, bool):
        return "VBool %s" % ("true" if node.value else "false")
    if isinstance(node, ast.Constant) and node.value is None:
        return "VLayer None"
    _fail(node, "parameter default is not True/False/None")


def _module_consts(tree, names, imported, tx_known):
    """module-level `NAME = <tuple expression>` (names in capitals); returns [(name, coq)]"""
    out = []
    tx = _Tx(names, imported, tx_known)
    for st in tree.body:
        if isinstance(st, ast.Assign) and len(st.targets) == 1 and isinstance(st.targets[0], ast.Name) \
                and st.targets[0].id.isupper():
            name = st.targets[0].id
            rhs = tx.exp(st.value)
            tx.known.add(name)
            names.vars.add(name)
            out.append((name, rhs))
    return out, tx.known


def translate(repo=None):
    repo = repo or REPO
    p_stack = os.path.join(repo, "yowsup", "stacks", "yowstack.py")
    p_init = os.path.join(repo, "yowsup", "stacks", "__init__.py")
    t_stack = ast.parse(open(p_stack).read(), p_stack)
    t_init = ast.parse(open(p_init).read(), p_init)
    names = _Names()
    imp_stack, imp_init = _imported(t_stack), _imported(t_init)

    # --- yowstack.py: module constants (upper-case tuple assignments; `logger = ...` is lower-case)
    gl, known = _module_consts(t_stack, names, imp_stack, [])
    # --- YowStack.__init__ default of `reversed`
    rev_default = None
    builder = None
    for st in t_stack.body:
        if isinstance(st, ast.ClassDef) and st.name == "YowStack":
            for f in st.body:
                if isinstance(f, ast.FunctionDef) and f.name == "__init__":
                    a = f.args
                    pn = [x.arg for x in a.args]
                    if "reversed" not in pn:
                        _fail(f, "YowStack.__init__ has no `reversed` parameter")
                    d = a.defaults[pn.index("reversed") - (len(pn) - len(a.defaults))]
                    if not (isinstance(d, ast.Constant) and isinstance(d.value, bool)):
                        _fail(f, "default of `reversed` is not a bool literal")
                    rev_default = d.value
        if isinstance(st, ast.ClassDef) and st.name == "YowStackBuilder":
            builder = st
    if rev_default is None or builder is None:
        raise TranslateError("YowStack.__init__ / YowStackBuilder not found")
    funs = []
    found = {}
    for f in builder.body:
        if isinstance(f, ast.FunctionDef) and f.name in HELPERS:
            if f.name in found:
                _fail(f, "duplicate definition of %s" % f.name)
            found[f.name] = f
    for h in HELPERS:
        if h not in found:
            raise TranslateError("helper %s not found" % h)
        f = found[h]
        if not (len(f.decorator_list) == 1 and isinstance(f.decorator_list[0], ast.Name)
                and f.decorator_list[0].id == "staticmethod"):
            _fail(f, "%s is not a plain @staticmethod" % h)
        a = f.args
        if a.vararg or a.kwarg or a.kwonlyargs or getattr(a, "posonlyargs", []):
            _fail(f, "unsupported parameter kinds in %s" % h)
        if len(a.defaults) != len(a.args):
            _fail(f, "%s: a parameter without default" % h)
        params = []
        for x, d in zip(a.args, a.defaults):
            names.vars.add(x.arg)
            params.append("(v_%s, %s)" % (x.arg, _const_value(d)))
        tx = _Tx(names, imp_stack, list(known) + [x.arg for x in a.args])
        body = tx.stmts(f.body, rev_default)
        funs.append((h, params, body))
    # --- __init__.py constants, in order
    ic, _ = _module_consts(t_init, names, imp_init, [])
    for r in REQ_VARS:
        if r.isupper() and r not in [n for n, _ in gl] + [n for n, _ in ic]:
            raise TranslateError("constant %s not found" % r)
    src_classes = set(names.classes)
    for r in REQ_CLASSES:
        if r not in imp_stack:
            raise TranslateError("class %s is not imported by yowstack.py" % r)
    names.finish()
    return _emit(names, gl, funs, ic, rev_default, True), _info(names, True, None)


def _info(names, ok, err):
    return {"ok": ok, "error": err,
            "classes": {v: k for k, v in names.cid.items()},
            "vars": dict(names.vid), "funs": dict(names.fid)}


def _emit(names, gl, funs, ic, rev_default, ok):
    o = ["(* GENERATED on every run by harness/translators/c18_layers.py from",
         "   yowsup/stacks/yowstack.py and yowsup/stacks/__init__.py — do not edit. *)",
         "From YV Require Import Common.Tac C18.C18Model.",
         "Local Open Scope N_scope.", ""]
    for n, i in sorted(names.cid.items(), key=lambda x: x[1]):
        o.append("Definition c_%s : N := %d." % (n, i))
    for n, i in sorted(names.vid.items(), key=lambda x: x[1]):
        o.append("Definition v_%s : N := %d." % (n, i))
    for n, i in sorted(names.fid.items(), key=lambda x: x[1]):
        o.append("Definition f_%s : N := %d." % (n, i))
    o.append("")
    o.append("Definition translated_ok : bool := %s." % ("true" if ok else "false"))
    o.append("Definition stack_reversed_default : bool := %s." % ("true" if rev_default else "false"))
    o.append("")
    o.append("(* module-level tuple constants of yowstack.py, as statements in source order *)")
    o.append("Definition global_consts : list stmt := [")
    o.append(";\n".join("  SAssign v_%s (%s)" % (n, e) for n, e in gl))
    o.append("].")
    o.append("")
    o.append("Definition funs : list (N * fundef) := [")
    fs = []
    for h, params, body in funs:
        fs.append("  (f_%s, mkFun [%s]\n    [%s])" % (h, "; ".join(params), ";\n     ".join(body)))
    o.append(";\n".join(fs))
    o.append("].")
    o.append("")
    o.append("(* module-level tuple constants of yowsup/stacks/__init__.py, in source order *)")
    o.append("Definition init_consts : list stmt := [")
    o.append(";\n".join("  SAssign v_%s (%s)" % (n, e) for n, e in ic))
    o.append("].")
    o.append("")
    return "\n".join(o)


def _write(text):
    os.makedirs(os.path.dirname(OUT), exist_ok=True)
    old = open(OUT).read() if os.path.exists(OUT) else None
    if old != text:           # keep the timestamp when nothing changed: no needless rebuild
        with open(OUT, "w") as f:
            f.write(text)


class GenLock(object):
    """coq/Gen/C18Layers.v (and ocaml/build/C18) are shared by every process that runs this
    translator — concurrent `./check C18` runs, setup, other checks calling regen_all — possibly
    against different trees.  The C18 check holds this lock from regenerate until its model
    process is running; every other caller of regenerate() takes it for the rewrite."""

    def __enter__(self):
        d = os.path.dirname(OUT)
        os.makedirs(d, exist_ok=True)
        self.f = open(os.path.join(d, ".C18.lock"), "w")
        fcntl.flock(self.f, fcntl.LOCK_EX)
        return self

    def __exit__(self, *a):
        fcntl.flock(self.f, fcntl.LOCK_UN)
        self.f.close()


def regenerate(repo=None, have_lock=False):
    """Rewrite coq/Gen/C18Layers.v.  Returns info (ok flag, id tables).  Never raises:
    on unrecognised source a stub without functions is written and info['ok'] is False."""
    if not have_lock:
        with GenLock():
            return regenerate(repo, True)
    try:
        text, info = translate(repo)
    except (TranslateError, SyntaxError, OSError) as e:
        names = _Names()
        names.finish()
        _write(_emit(names, [], [], [], True, False))
        return _info(names, False, "%s: %s" % (type(e).__name__, e))
    _write(text)
    return info
