"""C10: MEASURED converter table (evaluation next to the syntactic translator c10_converter.py).

The table of coq/Gen/C10Table.v is a description of what AttributesConverter and the attribute-class
constructors DO: per attribute field which proto field it is written to under which guard, how it is
read back (plain read / HasField / truthiness / len), how nested objects and repeated fields are routed,
and what the constructor does with the argument.  However the Python source is written, this can be
MEASURED on the real code:

* a fresh interpreter (`python c10_measure.py --driver`, PYTHONPATH = the tree under test, the six shim
  of harness/env.py loaded by file path) imports the real converter and the e2e/protocol proto modules;
* the universe is DERIVED, not listed by hand: converters = the public `<x>_to_proto(self, a)` /
  `proto_to_<x>(self, p)` pairs of the converter class; message types = every descriptor of the two proto
  modules; attribute fields = the properties of the attribute class a converter returns (MRO order),
  constructor parameters = `inspect.signature`; proto fields = the descriptor's fields;
* per column a family of probes is run (listed in design_notes/C10.md, "Translator robustness") and the
  table entry is the element of the MODEL'S OWN hypothesis space (the constructors of `guard`, `tkind`,
  `fexpr`, `store`, `ck` in coq/C10/C10Model.v, mirrored here in Python one to one) that reproduces
  every observation.  No hypothesis fits -> that column is `undetermined` (named, with the probe);
* nested converters are checked compositionally: the sub-message / sub-object produced inside a probe
  must equal what the nested converter returns when called directly on the same sub-value;
* finally EVERY table (the measured one, and the syntactic one handed in by the caller) is validated as
  a whole: its mirror semantics must reproduce every probe observation, errors included.  For the
  syntactic table this is the agreement check: a mismatch names converter, direction, field and probe.

Nothing here decides the property.  The caller (c10_converter.analyse) generates the Gen file from the
syntactic table when the source is recognised (and requires agreement), from the measured table when
it is not, and fails closed when neither is available.
"""
import json, os, shutil, subprocess, sys, tempfile, time

CONVERTER_MODULE = "yowsup.layers.protocol_messages.protocolentities.attributes.converter"
PROTO_MODULES = ("yowsup.layers.protocol_messages.proto.e2e_pb2",
                 "yowsup.layers.protocol_messages.proto.protocol_pb2")


class MeasureError(Exception):
    pass


def _verif():
    return os.path.dirname(os.path.dirname(os.path.dirname(os.path.abspath(__file__))))


def run_driver(repo, job, scratch=None, timeout=240):
    """run one job in a fresh interpreter against `repo`; returns the driver's result dict"""
    base = tempfile.mkdtemp(prefix="yv-c10measure-") if scratch is None else \
        tempfile.mkdtemp(prefix="c10measure-", dir=scratch)
    try:
        job = dict(job, env_py=os.path.join(_verif(), "harness", "env.py"),
                   translator_py=os.path.join(_verif(), "harness", "translators", "c10_converter.py"),
                   scratch=base, out=os.path.join(base, "result.json"))
        env = {"PYTHONPATH": repo, "YV_REPO": repo, "HOME": base, "XDG_CONFIG_HOME": base,
               "PYTHONHASHSEED": "0", "PYTHONDONTWRITEBYTECODE": "1",
               "PATH": os.environ.get("PATH", "/usr/bin:/bin")}
        try:
            p = subprocess.run([sys.executable, os.path.abspath(__file__), "--driver"], input=json.dumps(job),
                               env=env, cwd=base, stdout=subprocess.PIPE, stderr=subprocess.STDOUT, text=True,
                               timeout=timeout)
        except subprocess.TimeoutExpired:
            raise MeasureError("measurement subprocess did not finish within %d s" % timeout)
        if not os.path.exists(job["out"]):
            raise MeasureError("measurement subprocess produced no result (exit %s): %s"
                               % (p.returncode, p.stdout[-600:]))
        res = json.load(open(job["out"]))
        if res.get("fatal"):
            raise MeasureError(res["fatal"])
        return res
    finally:
        shutil.rmtree(base, ignore_errors=True)


def measure(repo, syntactic=None, scratch=None):
    """-> dict(table=<measured table or None>, undetermined=[{column, why, probe}], agreement=<None |
    dict(ok, checked_probes, mismatches=[...])>, stats={...}, wall_s).  Raises MeasureError when the tree
    cannot be imported / introspected at all."""
    t0 = time.time()
    res = run_driver(repo, {"syntactic": syntactic}, scratch=scratch)
    res["wall_s"] = round(time.time() - t0, 2)
    return res


def validate_tables(repo, tables, scratch=None):
    """developer utility (sensitivity of the agreement check): [(label, table)] -> [(label, agrees, first mismatch)]"""
    res = run_driver(repo, {"syntactic": None, "mutants": [[l, t] for l, t in tables]}, scratch=scratch, timeout=1200)
    return res["mutants"]


# =================================================================================================
# everything below runs inside the fresh interpreter
# =================================================================================================

GUARDS = ("GNotNone", "GAlways", "GTruthy", "GNonEmptyList")


class Undetermined(Exception):
    def __init__(self, column, why, probe=None):
        Exception.__init__(self, "%s: %s" % (column, why))
        self.column, self.why, self.probe = column, why, probe


class Alien(object):
    """a value no protobuf type checker accepts and no attribute class expects"""

    def __init__(self, t):
        self.t = t

    def __bool__(self):
        return self.t

    def __repr__(self):
        return "<alien %s>" % ("truthy" if self.t else "falsy")


ABSENT = ("absent",)


def _f2bits(x):
    import struct
    return struct.unpack(">Q", struct.pack(">d", x))[0]


def norm(v):
    """type-strict, hashable"""
    if v is None:
        return ("n",)
    if isinstance(v, Alien):
        return ("alien", v.t)
    if isinstance(v, bool):
        return ("B", v)
    if isinstance(v, str):
        return ("s", v)
    if isinstance(v, int):
        return ("i", v)
    if isinstance(v, (bytes, bytearray)):
        return ("b", bytes(v))
    if isinstance(v, float):
        return ("f", _f2bits(v))
    if isinstance(v, (list, tuple)):
        return ("l", tuple(norm(x) for x in v))
    if isinstance(v, dict):
        return ("r", v.get("@"), frozenset((k, norm(x)) for k, x in v.items() if k != "@"))
    return ("?", repr(v))


def enc(v):
    """JSON-able rendering of a probe value / observation"""
    if isinstance(v, Alien):
        return {"$alien": "truthy" if v.t else "falsy"}
    if isinstance(v, (bytes, bytearray)):
        return {"$b": bytes(v).hex()}
    if isinstance(v, float):
        return {"$f": "%016x" % _f2bits(v), "approx": repr(v)}
    if isinstance(v, (list, tuple)):
        return [enc(x) for x in v]
    if isinstance(v, dict):
        return dict((k, enc(x)) for k, x in v.items())
    if v is None or isinstance(v, (bool, int, str)):
        return v
    return {"$repr": repr(v)[:120]}


# ------------------------------------------------------------------ mirror of coq/C10/C10Model.v
def truthy(v):
    if isinstance(v, Alien):
        return v.t
    if v is None:
        return False
    if isinstance(v, dict):
        return True
    if isinstance(v, float):
        return v != 0.0
    return bool(v)


def _f32_exact(x):
    import struct
    if x != x or x in (float("inf"), float("-inf")):
        return False
    if x == 0.0:
        return True
    try:
        y = struct.unpack(">f", struct.pack(">f", x))[0]
    except OverflowError:
        return False
    return y == x and abs(x) >= 2.0 ** -126


def fits(t, x):
    k = t[0]
    if isinstance(x, Alien):
        return False
    if k == "TStr":
        if not isinstance(x, str):
            return False
        try:
            x.encode("utf-8")
            return True
        except UnicodeEncodeError:
            return False
    if k == "TBytes":
        return isinstance(x, bytes)
    if k == "TBool":
        return isinstance(x, bool)
    if k == "TInt":
        return isinstance(x, int) and not isinstance(x, bool) and t[1] <= x <= t[2]
    if k == "TEnum":
        return isinstance(x, int) and not isinstance(x, bool) and x in t[1]
    if k == "TDouble":
        return isinstance(x, float) and x == x and abs(x) != float("inf")
    if k == "TFloat":
        return isinstance(x, float) and _f32_exact(x)
    return False


def sdefault(t):
    k = t[0]
    if k == "TEnum":
        return t[1][0]
    return {"TStr": "", "TBytes": b"", "TBool": False, "TInt": 0, "TDouble": 0.0, "TFloat": 0.0}[k]


def guard_passes(g, v):
    if g == "GAlways":
        return True
    if g == "GNotNone":
        return v is not None
    if g == "GTruthy":
        return truthy(v)
    if v is None:
        return False
    if isinstance(v, (bool, int, float, dict)):
        return True
    return truthy(v)


def check(ck, v):
    if ck[0] == "none":
        return True
    if ck[0] == "in":
        return isinstance(v, int) and not isinstance(v, bool) and v in ck[1]
    return isinstance(v, dict) and v.get("@") == ck[1]


def apply_store(st, ck, x):
    if st == "SPlain":
        return ("ok", x) if check(ck, x) else ("exn", 3)
    if st == "SOrEmptyList":
        return ("ok", x if truthy(x) else [])
    if truthy(x):
        return ("ok", x) if check(ck, x) else ("exn", 3)
    return ("ok", None)


def exn_code(e):
    if isinstance(e, AttributeError):
        return 1
    if isinstance(e, AssertionError):
        return 3
    if isinstance(e, (TypeError, ValueError)):
        return 2
    return 9


def same_code(model_code, real_code):
    return model_code == real_code or (model_code == 3 and real_code in (2, 3))


def same_result(pred, obs):
    """pred/obs: ('ok', value) | ('exn', code[, text])"""
    if pred[0] != obs[0]:
        return False
    if pred[0] == "exn":
        return same_code(pred[1], obs[1])
    return norm(pred[1]) == norm(obs[1])


# ------------------------------------------------------------------ the measurer
class Measurer(object):
    FROM_DEPTH = 4
    N_RANDOM = 24

    def __init__(self, cm, conv, proto_mods, trmod, job):
        import inspect, random
        self.inspect = inspect
        self.cm, self.conv, self.tr, self.job = cm, conv, trmod, job
        self.rng = random.Random(20250928)
        self.msgs = {}
        for mod in proto_mods:
            for name in mod.DESCRIPTOR.message_types_by_name:
                self._walk_msg(getattr(mod, name))
        self.schema = dict((m, dict(trmod.schema_of(c.DESCRIPTOR))) for m, c in self.msgs.items())
        self.schema_order = dict((m, [f for f, _ in trmod.schema_of(c.DESCRIPTOR)]) for m, c in self.msgs.items())
        self.undetermined = []
        self.notes = []
        self.convs = {}            # name -> dict(cls, clsobj, msg)
        self.classes = {}          # class object -> info
        self.instances = {}        # class object -> [instance A, instance B]
        self.stats = {"probes_from": 0, "probes_to": 0, "probes_constructor": 0, "hypotheses_tested": 0,
                      "nested_direct_calls": 0}
        self._real_to_cache, self._real_from_cache = {}, {}
        self.from_probes, self.to_probes = {}, {}
        self.ctor_probes = {}

    # ------------------------------------------------------------ universe
    def _walk_msg(self, cls):
        self.msgs[cls.DESCRIPTOR.full_name] = cls
        for nt in cls.DESCRIPTOR.nested_types:
            self._walk_msg(getattr(cls, nt.name))

    def undet(self, column, why, probe=None):
        self.undetermined.append({"column": column, "why": why, "probe": probe})

    def discover(self):
        C = type(self.conv)
        tos, froms, chains, others = {}, {}, [], []
        for name in sorted(dir(C)):
            if name.startswith("_"):
                continue
            fn = getattr(self.conv, name, None)
            if not callable(fn):
                continue
            try:
                ps = [p for p in self.inspect.signature(fn).parameters.values()]
            except (TypeError, ValueError):
                others.append(name)
                continue
            plain = all(p.kind == p.POSITIONAL_OR_KEYWORD and p.default is p.empty for p in ps)
            if name.endswith("_to_proto") and plain and len(ps) == 1:
                tos[name[:-len("_to_proto")]] = fn
            elif name.endswith("_to_proto") and plain and len(ps) == 2:
                chains.append(name[:-len("_to_proto")])
            elif name.startswith("proto_to_") and plain and len(ps) == 1:
                froms[name[len("proto_to_"):]] = fn
            else:
                others.append(name)
        names = [n for n in tos if n in froms]
        for n in tos:
            if n not in froms:
                self.undet("pairing:%s" % n, "%s_to_proto has no proto_to_%s" % (n, n))
        for n in froms:
            if n not in tos and n not in chains:
                self.undet("pairing:%s" % n, "proto_to_%s has no %s_to_proto" % (n, n))
        for n in chains:
            self.notes.append("inlined-only converter pair: %s" % n)
        self.others = others
        self.tos, self.froms = tos, froms
        return names

    # ------------------------------------------------------------ sentinels / proto construction
    def sent(self, t, path, k):
        import zlib
        h = zlib.crc32(path.encode())
        tag = "ab"[k]
        kind = t[0]
        if kind == "TStr":
            return "%s:%s" % (path, tag)
        if kind == "TBytes":
            return ("%s:%s" % (path, tag)).encode()
        if kind == "TBool":
            return True
        if kind == "TInt":
            return min(t[2], 1000 + h % 60000 + k)
        if kind == "TEnum":
            nd = t[1][1:]
            return (nd[min(k, len(nd) - 1)] if nd else t[1][0])
        return float(h % 4000) + 0.5 + k

    def full(self, mname, depth, path, k=0):
        m = self.msgs[mname]()
        for f in self.schema_order[mname]:
            t = self.schema[mname][f]
            p = path + "." + f
            if t[0] == "FScalar":
                setattr(m, f, self.sent(t[1], p, k))
            elif t[0] == "FRepeated":
                getattr(m, f).extend(self.rep_sent(t[1], p, k))
            elif t[0] == "FMsg" and depth > 0:
                getattr(m, f).CopyFrom(self.full(t[1], depth - 1, p, k))
                getattr(m, f).SetInParent()
        return m

    def rep_sent(self, t, path, k):
        if k == 0:
            return [self.sent(t, path + "[0]", 0), self.sent(t, path + "[1]", 0)]
        return [self.sent(t, path + "[0]", 1)]

    def pcanon(self, m):
        from google.protobuf.descriptor import FieldDescriptor as F
        out = {"@": m.DESCRIPTOR.full_name}
        for fd, val in m.ListFields():
            if fd.type == F.TYPE_MESSAGE:
                out[fd.name] = [self.pcanon(x) for x in val] if fd.label == F.LABEL_REPEATED else self.pcanon(val)
            elif fd.label == F.LABEL_REPEATED:
                out[fd.name] = list(val)
            else:
                out[fd.name] = val
        return out

    # ------------------------------------------------------------ attribute objects
    def props_of(self, cls, inst=None):
        """the attribute fields of a class: its properties (MRO order, own class first); for classes written
        without properties the dataclass fields / the public instance attributes of a parsed instance"""
        cache = self.__dict__.setdefault("_props", {})
        if cls in cache:
            return cache[cls]
        out = []
        for k in cls.__mro__:
            if k is object:
                continue
            for n, v in vars(k).items():
                if isinstance(v, property) and n not in out:
                    out.append(n)
        if not out:
            import dataclasses
            if dataclasses.is_dataclass(cls):
                out = [f.name for f in dataclasses.fields(cls)]
            elif inst is not None and hasattr(inst, "__dict__"):
                out = [n for n in vars(inst) if not n.startswith("_")]
            else:
                return out              # not cached: an instance may tell more later
        cache[cls] = out
        return out

    def is_attr_obj(self, v):
        if v is None or isinstance(v, (bool, int, str, bytes, float, list, tuple, dict, set, frozenset, Alien)):
            return False
        if hasattr(v, "DESCRIPTOR") or isinstance(v, type) or callable(v):
            return False
        if type(v).__module__ in ("builtins", "google.protobuf.internal.containers"):
            return False
        return bool(self.props_of(type(v), v))

    def canon(self, v):
        if v is None or isinstance(v, (bool, int, str, bytes, float, Alien)):
            return v
        if hasattr(v, "DESCRIPTOR"):
            return {"@": "?proto:" + v.DESCRIPTOR.full_name}
        if self.is_attr_obj(v):
            out = {"@": type(v).__name__}
            for p in self.props_of(type(v)):
                try:
                    out[p] = self.canon(getattr(v, p))
                except Exception as e:
                    out[p] = {"@": "?raises:" + type(e).__name__}
            return out
        if hasattr(v, "__len__") and hasattr(v, "__getitem__") and not isinstance(v, dict):
            return [self.canon(x) for x in list(v)]
        return {"@": "?" + type(v).__name__}

    def collect_instances(self, obj, k):
        if not self.is_attr_obj(obj):
            if isinstance(obj, (list, tuple)):
                for x in obj:
                    self.collect_instances(x, k)
            return
        slot = self.instances.setdefault(type(obj), [None, None])
        if slot[k] is None:
            slot[k] = obj
        for p in self.props_of(type(obj)):
            try:
                self.collect_instances(getattr(obj, p), k)
            except Exception:
                pass

    # ------------------------------------------------------------ phase A: class and message type per converter
    def phase_a(self, names):
        for x in names:
            cands = []
            why = []
            for mname in sorted(self.msgs):
                try:
                    o = self.froms[x](self.full(mname, self.FROM_DEPTH, mname, 0))
                except Exception:
                    continue
                if not self.is_attr_obj(o):
                    continue
                try:
                    q = self.tos[x](o)
                except Exception as e:
                    why.append("%s_to_proto raised %s on the object parsed from a fully set %s" %
                               (x, type(e).__name__, mname))
                    continue
                if hasattr(q, "DESCRIPTOR") and q.DESCRIPTOR.full_name == mname:
                    cands.append((mname, type(o)))
            if len(cands) != 1:
                self.undet("conv:%s.msg" % x, "message type not determined (%d candidates%s)" %
                           (len(cands), "; " + "; ".join(why[:2]) if why else ""))
                continue
            mname, cls = cands[0]
            self.convs[x] = {"cls": cls.__name__, "clsobj": cls, "msg": mname}
        for x, c in self.convs.items():
            for k in (0, 1):
                try:
                    o = self.froms[x](self.full(c["msg"], self.FROM_DEPTH, c["msg"], k))
                    self.collect_instances(o, k)
                    c["full%d" % k] = o
                except Exception as e:
                    self.undet("from:%s" % x, "raises %s on a fully set payload" % type(e).__name__)

    # ------------------------------------------------------------ constructors
    FORBIDDEN = ("__bool__", "__len__", "__getattr__", "__getattribute__", "__setattr__")

    def class_info(self, cls):
        if cls in self.classes:
            return self.classes[cls]
        name = cls.__name__
        col = "class:%s" % name
        info = {"name": name, "ok": False}
        self.classes[cls] = info
        try:
            self._class_info(cls, name, col, info)
            info["ok"] = True
        except Undetermined as u:
            self.undet(u.column, u.why, u.probe)
        return info

    def _class_info(self, cls, name, col, info):
        ins = self.inspect
        for k in cls.__mro__[:-1]:
            for d in self.FORBIDDEN:
                if d in vars(k):
                    raise Undetermined(col, "defines %s: truthiness / attribute access is not that of a plain "
                                            "object" % d)
        try:
            sig = ins.signature(cls.__init__)
        except (TypeError, ValueError) as e:
            raise Undetermined(col, "constructor cannot be introspected: %s" % e)
        params = []
        for p in list(sig.parameters.values())[1:]:
            if p.kind != p.POSITIONAL_OR_KEYWORD:
                raise Undetermined(col, "constructor parameter %s is not a plain positional-or-keyword parameter"
                                   % p.name)
            if p.default is not p.empty and p.default is not None:
                raise Undetermined(col, "constructor default of %s is not None" % p.name)
            params.append([p.name, p.default is p.empty])
        props = self.props_of(cls)
        info["params"], info["props"] = params, props
        good = self.instances.get(cls, [None, None])
        if good[0] is None:
            raise Undetermined(col, "no instance was produced by any proto_to_* on a fully set payload")
        base_kw = {}
        for (p, req) in params:
            if p in props:
                base_kw[p] = getattr(good[0], p)
            elif not req:
                base_kw[p] = None
                self.notes.append("%s: constructor parameter %s has no same-named property (not observable, "
                                  "left at its default)" % (name, p))
            else:
                raise Undetermined(col, "required constructor parameter %s has no same-named property to take a "
                                        "probe value from" % p)
        try:
            o = cls(**base_kw)
        except Exception as e:
            raise Undetermined(col, "constructor raised %s on the values read from a parsed object"
                               % type(e).__name__, enc(self.canon(base_kw)))
        if not bool(o):
            raise Undetermined(col, "an instance is falsy")
        if norm(self.canon(o)) != norm(self.canon(good[0])):
            raise Undetermined(col, "re-constructing a parsed object from its own property values gives a different "
                                    "object", enc(self.canon(base_kw)))
        info["base_kw"] = base_kw
        # ---- which property shows which parameter
        p2q = {}
        for (p, req) in params:
            if p not in props:
                continue
            alts = []
            if good[1] is not None:
                alts.append(getattr(good[1], p))
            alts += ["c10-measure-variation", 424242, b"c10-measure-variation"]
            changed = None
            for alt in alts:
                if norm(self.canon(alt)) == norm(self.canon(base_kw[p])):
                    continue
                try:
                    o2 = cls(**dict(base_kw, **{p: alt}))
                except Exception:
                    continue
                self.stats["probes_constructor"] += 1
                changed = [q for q in props if norm(self.canon(getattr(o2, q))) != norm(self.canon(getattr(o, q)))]
                break
            if changed is None:
                p2q[p] = p
                self.notes.append("%s: parameter %s accepts no second value; property taken by name" % (name, p))
            elif changed == []:
                raise Undetermined(col, "changing constructor parameter %s changes no property" % p)
            elif len(changed) > 1:
                raise Undetermined(col, "constructor parameter %s changes several properties: %s" % (p, changed))
            else:
                p2q[p] = changed[0]
        if len(set(p2q.values())) != len(p2q):
            raise Undetermined(col, "two constructor parameters show up in the same property")
        q2p = dict((q, p) for p, q in p2q.items())
        for q in props:
            if q not in q2p:
                raise Undetermined(col, "property %s is not set by any constructor parameter" % q)
        # ---- store / check per parameter
        fields = []
        probes_all = {}
        for q in props:
            p = q2p[q]
            st, ck, probes = self._fit_store(cls, name, base_kw, p, q)
            probes_all[q] = probes
            fields.append([q, p, st, ck])
        info["fields"] = fields
        self.ctor_probes[name] = {"cls": cls, "base_kw": base_kw, "q2p": q2p, "probes": probes_all}

    def _ctor_values(self, base):
        vals = [None, Alien(True), Alien(False), [], ["c10"]]
        if isinstance(base, bool):
            vals += [False, True]
        elif isinstance(base, int):
            vals += list(range(-1, 9)) + [1000003]
        elif isinstance(base, float):
            vals += [0.0, 1.5]
        elif isinstance(base, str):
            vals += ["", "x"]
        elif isinstance(base, bytes):
            vals += [b"", b"x"]
        elif base is None:
            vals += ["", "x", b"", b"x", 0, 7, 0.0, 1.5]
        for c in sorted(self.instances, key=lambda c: c.__name__):
            if self.instances[c][0] is not None:
                vals.append(self.instances[c][0])
        if base is not None and not self.is_attr_obj(base):
            vals.append(base)
        return vals

    def _fit_store(self, cls, name, base_kw, p, q):
        col = "class:%s.%s" % (name, q)
        obs = []
        for v in self._ctor_values(base_kw[p]):
            try:
                o = cls(**dict(base_kw, **{p: v}))
                r = ("ok", self.canon(getattr(o, q)))
            except Exception as e:
                r = ("exn", exn_code(e), type(e).__name__)
            self.stats["probes_constructor"] += 1
            obs.append((v, r))
        ints_ok = sorted(set(v for v, r in obs if isinstance(v, int) and not isinstance(v, bool) and r[0] == "ok"
                             and norm(r[1]) == norm(v)))
        cks = [("none",)]
        if ints_ok and 1000003 not in ints_ok:
            cks.append(("in", ints_ok))
        cks += [("cls", c.__name__) for c in sorted(self.instances, key=lambda c: c.__name__)]
        fit = []
        for st in ("SPlain", "SOrEmptyList", "SIfTruthy"):
            for ck in cks:
                self.stats["hypotheses_tested"] += 1
                if all(self._store_pred_ok(st, ck, v, r) for v, r in obs):
                    fit.append((st, ck))
        if not fit:
            bad = None
            for v, r in obs:
                if not self._store_pred_ok("SPlain", ("none",), v, r):
                    bad = {"class": name, "parameter": p, "value": enc(self.canon(v)), "observed": enc(list(r))}
                    break
            raise Undetermined(col, "what the constructor does with parameter %s fits none of SPlain / SOrEmptyList "
                                    "/ SIfTruthy x CkNone / CkIn / CkCls" % p, bad)
        st, ck = fit[0]
        return st, ["none"] if ck[0] == "none" else [ck[0], ck[1]], obs

    def _store_pred_ok(self, st, ck, v, r):
        cv = self.canon(v)
        pred = apply_store(st, tuple(ck), cv)
        if pred[0] == "exn":
            return r[0] == "exn"
        return r[0] == "ok" and norm(pred[1]) == norm(r[1])

    # ------------------------------------------------------------ nested conversions on the real code
    def real_to(self, c, obj):
        key = (c, id(obj))
        if key not in self._real_to_cache:
            self.stats["nested_direct_calls"] += 1
            try:
                r = ("ok", self.pcanon(self.tos[c](obj)))
            except Exception as e:
                r = ("exn", exn_code(e), "%s: %s" % (type(e).__name__, str(e)[:100]))
            self._real_to_cache[key] = (r, obj)      # keep obj alive: ids stay unique
        return self._real_to_cache[key][0]

    def real_from(self, c, sub):
        key = (c, id(sub))
        if key not in self._real_from_cache:
            self.stats["nested_direct_calls"] += 1
            try:
                r = ("ok", self.canon(self.froms[c](sub)))
            except Exception as e:
                r = ("exn", exn_code(e), "%s: %s" % (type(e).__name__, str(e)[:100]))
            self._real_from_cache[key] = (r, sub)
        return self._real_from_cache[key][0]

    # ------------------------------------------------------------ from-side
    def make_from_probes(self, x):
        mname = self.convs[x]["msg"]
        fields = self.schema_order[mname]
        sch = self.schema[mname]
        cache = {}

        def sub(f, k):
            if (f, k) not in cache:
                cache[(f, k)] = self.full(sch[f][1], self.FROM_DEPTH - 1, mname + "." + f, k)
            return cache[(f, k)]

        def build(spec):
            """spec: field -> 'absent' | 'default' | 'a' | 'b'"""
            m = self.msgs[mname]()
            for f in fields:
                t, s = sch[f], spec.get(f, "absent")
                if s == "absent" or t[0] == "FOther":
                    continue
                p = mname + "." + f
                if t[0] == "FScalar":
                    setattr(m, f, sdefault(t[1]) if s == "default" else self.sent(t[1], p, 0 if s == "a" else 1))
                elif t[0] == "FRepeated":
                    if s != "default":
                        getattr(m, f).extend(self.rep_sent(t[1], p, 0 if s == "a" else 1))
                else:
                    if s != "default":
                        getattr(m, f).CopyFrom(sub(f, 0 if s == "a" else 1))
                    getattr(m, f).SetInParent()
            return m
        usable = [f for f in fields if sch[f][0] != "FOther"]
        specs = [("empty", {}), ("full-a", dict((f, "a") for f in usable)), ("full-b", dict((f, "b") for f in usable))]
        for f in usable:
            specs.append(("only %s=value" % f, {f: "a"}))
            if sch[f][0] != "FRepeated":
                specs.append(("only %s present with its default" % f, {f: "default"}))
            specs.append(("all but %s" % f, dict((g, "a") for g in usable if g != f)))
            if sch[f][0] != "FRepeated":
                specs.append(("all, %s present with its default" % f, dict(((g, "a") for g in usable), **{f: "default"})))
        for i in range(self.N_RANDOM):
            specs.append(("random %d" % i, dict((f, self.rng.choice(["absent", "absent", "default", "a", "b"]))
                                                for f in usable)))
        probes = []
        for label, spec in specs:
            m = build(spec)
            try:
                o = self.froms[x](m)
                obs = ("ok", self.canon(o))
            except Exception as e:
                obs = ("exn", exn_code(e), "%s: %s" % (type(e).__name__, str(e)[:120]))
            self.stats["probes_from"] += 1
            probes.append({"label": label, "spec": spec, "msg": m, "pc": self.pcanon(m), "obs": obs})
        self.from_probes[x] = probes
        return probes

    def pread(self, mname, pc, pf):
        t = self.schema[mname].get(pf)
        if t is None or t[0] == "FOther":
            return ("exn", 1)
        if t[0] == "FScalar":
            return ("ok", pc[pf] if pf in pc else sdefault(t[1]))
        if t[0] == "FRepeated":
            return ("ok", pc.get(pf, []))
        return ("ok", pc.get(pf, {"@": t[1]}))

    def phas(self, mname, pc, hf):
        t = self.schema[mname].get(hf)
        if t is not None and t[0] in ("FScalar", "FMsg"):
            return ("ok", hf in pc)
        return ("exn", 2)

    def eval_fexpr(self, mname, probe, e):
        pc = probe["pc"]
        k = e[0]
        if k == "FField":
            return self.pread(mname, pc, e[1])
        if k == "FIfHas":
            h = self.phas(mname, pc, e[2])
            if h[0] != "ok":
                return h
            return self.pread(mname, pc, e[1]) if h[1] else ("ok", None)
        if k == "FIfTruthy":
            c = self.pread(mname, pc, e[2])
            if c[0] != "ok":
                return c
            return self.pread(mname, pc, e[1]) if truthy(c[1]) else ("ok", None)
        if k == "FListOrEmpty":
            c = self.pread(mname, pc, e[2])
            if c[0] != "ok":
                return c
            if not isinstance(c[1], list):
                return ("exn", 2)
            return self.pread(mname, pc, e[1]) if c[1] else ("ok", [])
        if k in ("FConv", "FConvIfHas"):
            if k == "FConvIfHas":
                h = self.phas(mname, pc, e[3])
                if h[0] != "ok":
                    return h
                if not h[1]:
                    return ("ok", None)
            t = self.schema[mname].get(e[2])
            if t is None or t[0] != "FMsg":
                return ("exn", 1)
            if e[1] not in self.froms:
                return ("exn", 5)
            return self.real_from(e[1], getattr(probe["msg"], e[2]))[:2]
        if k == "FOmitted":
            return ("ok", None)
        return ("exn", 3)

    def eval_farg(self, mname, probe, e, st, ck):
        r = self.eval_fexpr(mname, probe, e)
        if r[0] != "ok":
            return r
        return apply_store(st, tuple(ck), r[1])

    def from_candidates(self, x, mname):
        sch = self.schema[mname]
        order = self.schema_order[mname]
        sc = [f for f in order if sch[f][0] == "FScalar"]
        rp = [f for f in order if sch[f][0] == "FRepeated"]
        ms = [f for f in order if sch[f][0] == "FMsg"]
        out = [("FOmitted",)]
        out += [("FIfHas", f, f) for f in sc]
        out += [("FField", f) for f in sc]
        out += [("FListOrEmpty", f, f) for f in rp]
        out += [("FField", f) for f in rp]
        out += [("FIfTruthy", f, f) for f in sc]
        for f in ms:
            for c, cv in self.convs.items():
                if cv["msg"] == sch[f][1]:
                    out.append(("FConvIfHas", c, f, f))
                    out.append(("FConv", c, f))
        out += [("FIfHas", f, h) for f in sc for h in sc + ms if h != f]
        out += [("FIfTruthy", f, h) for f in sc for h in sc + rp if h != f]
        out += [("FListOrEmpty", f, h) for f in rp for h in rp if h != f]
        for f in ms:
            for c, cv in self.convs.items():
                if cv["msg"] == sch[f][1]:
                    out += [("FConvIfHas", c, f, h) for h in sc + ms if h != f]
        return out

    @staticmethod
    def read_leaf(tree, path):
        x = tree
        for part in path.split("."):
            if not isinstance(x, dict) or part not in x:
                return {"@": "?missing"}
            x = x[part]
        return x

    def fit_from(self, x):
        cv = self.convs[x]
        mname = cv["msg"]
        probes = self.make_from_probes(x)
        bad = [p for p in probes if p["obs"][0] != "ok"]
        if bad:
            raise Undetermined("from:%s" % x, "proto_to_%s raises on a well-typed payload: %s" % (x, bad[0]["obs"][2]),
                               {"payload": enc(bad[0]["pc"]), "probe": bad[0]["label"]})
        for p in probes:
            if p["obs"][1].get("@") != cv["cls"]:
                raise Undetermined("from:%s" % x, "proto_to_%s does not always return a %s" % (x, cv["cls"]),
                                   {"payload": enc(p["pc"]), "probe": p["label"]})
        cands = self.from_candidates(x, mname)
        fargs, inline = [], {}

        def fit_class(cls, prefix):
            info = self.class_info(cls)
            if not info["ok"]:
                raise Undetermined("from:%s" % x, "class %s could not be measured" % cls.__name__)
            for (q, p, st, ck) in info["fields"]:
                leaf = prefix + q
                vals = [self.read_leaf(pr["obs"][1], leaf) for pr in probes]
                alive = cands
                for pr, v in zip(probes, vals):
                    nv = norm(v)
                    nxt = []
                    for e in alive:
                        self.stats["hypotheses_tested"] += 1
                        r = self.eval_farg(mname, pr, e, st, ck)
                        if r[0] == "ok" and norm(r[1]) == nv:
                            nxt.append(e)
                    alive = nxt
                    if not alive:
                        break
                if alive:
                    fargs.append([leaf, list(alive[0]), st, ck])
                    cv.setdefault("from_alternatives", {})[leaf] = len(alive)
                    continue
                # an object of one class on every payload, its fields read from the same message: inlined
                kinds = set(v.get("@") if isinstance(v, dict) else None for v in vals)
                sub = [c for c in self.instances if c.__name__ in kinds]
                if len(kinds) == 1 and len(sub) == 1 and st == "SPlain" and ck == ["none"]:
                    inline[leaf] = sub[0].__name__
                    fit_class(sub[0], leaf + ".")
                    continue
                # diagnostics: the hypothesis explaining most payloads and the first it does not explain
                best, bestn, bestp = None, -1, None
                for e in cands[:400]:
                    n, first = 0, None
                    for pr, v in zip(probes, vals):
                        r = self.eval_farg(mname, pr, e, st, ck)
                        if r[0] == "ok" and norm(r[1]) == norm(v):
                            n += 1
                        elif first is None:
                            first = (pr, v, r)
                    if n > bestn:
                        best, bestn, bestp = e, n, first
                pr, v, r = bestp
                raise Undetermined("from:%s.%s" % (x, leaf),
                                   "no read expression of the model (plain read / HasField / truthiness / len / nested "
                                   "converter / omitted) explains what proto_to_%s returns for this field; closest: %s "
                                   "(%d of %d payloads)" % (x, list(best), bestn, len(probes)),
                                   {"probe": pr["label"], "payload": enc(pr["pc"]), "field": leaf,
                                    "returned": enc(v), "closest_predicts": enc(list(r))})
        fit_class(cv["clsobj"], "")
        cv["from"], cv["inline"] = fargs, inline

    # ------------------------------------------------------------ to-side
    def leaf_kind(self, x, farg):
        mname = self.convs[x]["msg"]
        e = farg[1]
        if e[0] in ("FConv", "FConvIfHas"):
            return ("rec", e[1])
        if len(e) > 1:
            t = self.schema[mname].get(e[1])
            if t and t[0] == "FScalar":
                return ("scalar", t[1])
            if t and t[0] == "FRepeated":
                return ("list", t[1])
        return ("unknown",)

    def build_obj(self, x, vals):
        """leaf -> value  =>  real object through the real constructors (ValueError when unbuildable)"""
        cv = self.convs[x]
        groups = {"": {}}
        for leaf, v in vals.items():
            prefix, _, q = leaf.rpartition(".")
            groups.setdefault(prefix, {})[q] = v
        byname = dict((c.__name__, c) for c in self.classes)
        for prefix in sorted([p for p in groups if p], key=lambda p: -p.count(".")):
            cls = byname[cv["inline"][prefix]]
            obj = self._construct(cls, groups[prefix])
            pp, _, q = prefix.rpartition(".")
            groups.setdefault(pp, {})[q] = obj
        return self._construct(cv["clsobj"], groups[""])

    def _construct(self, cls, props):
        info = self.classes[cls]
        q2p = dict((q, p) for (q, p, st, ck) in info["fields"])
        kw = dict((p, None) for p, req in info["params"])
        for q, v in props.items():
            kw[q2p[q]] = v
        return cls(**kw)

    def read_real_leaf(self, obj, leaf):
        for part in leaf.split("."):
            obj = getattr(obj, part)
        return obj

    @staticmethod
    def falsy_of(kind):
        if kind[0] == "list":
            return []
        if kind[0] != "scalar":
            return ABSENT
        t = kind[1]
        if t[0] == "TEnum":
            return 0 if 0 in t[1] else ABSENT
        return sdefault(t)

    def make_to_probes(self, x):
        cv = self.convs[x]
        leaves = [f[0] for f in cv["from"]]
        kinds = dict((f[0], self.leaf_kind(x, f)) for f in cv["from"])
        A = dict((l, self.read_real_leaf(cv["full0"], l)) for l in leaves)
        B = dict((l, self.read_real_leaf(cv["full1"], l)) for l in leaves)
        for l in leaves:                                   # a list leaf is handed over as a plain list
            if kinds[l][0] == "list":
                A[l], B[l] = list(A[l]), list(B[l])
        plan = [("full-a", dict(A)), ("full-b", dict(B))]
        for l in leaves:
            k = kinds[l]
            plan.append(("all, %s=None" % l, dict(A, **{l: None})))
            fz = self.falsy_of(k)
            if fz is not ABSENT:
                plan.append(("all, %s=%r" % (l, fz), dict(A, **{l: fz})))
            plan.append(("all, %s=second value" % l, dict(A, **{l: B[l]})))
            if k[0] in ("scalar", "unknown"):
                plan.append(("all, %s=<ill-typed truthy>" % l, dict(A, **{l: Alien(True)})))
                plan.append(("all, %s=<ill-typed falsy>" % l, dict(A, **{l: Alien(False)})))
            if k[0] == "rec":      # `if a.x:` and `if a.x is not None:` differ only on a falsy non-None value
                plan.append(("all, %s=<ill-typed falsy>" % l, dict(A, **{l: Alien(False)})))
            if k[0] == "unknown":
                for v in ("", "x", b"", b"x", 0, 7, 0.0, 1.5, False, True):
                    plan.append(("all, %s=%r" % (l, v), dict(A, **{l: v})))
        probes = []
        for label, vals in plan:
            probes.append(self.run_to_probe(x, label, vals))
        self.to_probes[x] = probes
        return probes, leaves, kinds, A, B

    def run_to_probe(self, x, label, vals):
        pr = {"label": label, "vals": vals, "cvals": dict((l, self.canon(v)) for l, v in vals.items())}
        try:
            obj = self.build_obj(x, vals)
        except Exception as e:
            pr["obs"] = ("unbuildable", exn_code(e), "%s: %s" % (type(e).__name__, str(e)[:120]))
            return pr
        before = norm(self.canon(obj))
        # the statements read the object as the constructors left it, not the values handed to them
        pr["vals"] = dict((l, self.read_real_leaf(obj, l)) for l in vals)
        pr["cvals"] = dict((l, self.canon(v)) for l, v in pr["vals"].items())
        try:
            pr["obs"] = ("ok", self.pcanon(self.tos[x](obj)))
        except Exception as e:
            pr["obs"] = ("exn", exn_code(e), "%s: %s" % (type(e).__name__, str(e)[:160]))
        self.stats["probes_to"] += 1
        if norm(self.canon(obj)) != before:
            raise Undetermined("to:%s" % x, "%s_to_proto modifies its argument" % x, {"probe": label})
        return pr

    def mirror_to(self, x, stmts, pr):
        mname = self.convs[x]["msg"] if x in self.convs else None
        written = {}
        for (g, pf, src, kind) in stmts:
            if src not in pr["vals"]:
                return ("exn", 1)
            v, cvv = pr["vals"][src], pr["cvals"][src]
            if not guard_passes(g, cvv):
                continue
            t = self.schema[mname].get(pf)
            if t is None:
                return ("exn", 1)
            if kind[0] == "KAssign" and t[0] == "FScalar":
                if not fits(t[1], cvv):
                    return ("exn", 2)
                written[pf] = cvv
            elif kind[0] == "KAssignList" and t[0] == "FRepeated":
                if not (isinstance(cvv, list) and all(fits(t[1], y) for y in cvv)):
                    return ("exn", 2)
                if cvv:
                    written[pf] = cvv
            elif kind[0] == "KMerge" and t[0] == "FMsg":
                c = kind[1]
                if c not in self.tos or c not in self.convs:
                    return ("exn", 5)
                r = self.real_to(c, v)
                if r[0] != "ok":
                    return r[:2]
                if self.convs[c]["msg"] != t[1]:
                    return ("exn", 2)
                written[pf] = r[1]
            else:
                return ("exn", 2)
        return ("ok", dict(written, **{"@": mname}))

    def to_mismatch(self, x, stmts, probes):
        for pr in probes:
            if pr["obs"][0] == "unbuildable" or pr.get("selection_only"):
                continue
            pred = self.mirror_to(x, stmts, pr)
            self.stats["hypotheses_tested"] += 1
            if not same_result(pred, pr["obs"]):
                return pr, pred
        return None

    def fit_to(self, x):
        cv = self.convs[x]
        mname = cv["msg"]
        sch = self.schema[mname]
        probes, leaves, kinds, A, B = self.make_to_probes(x)
        full = probes[0]
        if full["obs"][0] != "ok":
            raise Undetermined("to:%s" % x, "%s_to_proto %s on a well-typed object with every field set: %s" %
                               (x, "cannot be probed (constructor refuses)" if full["obs"][0] == "unbuildable"
                                else "raises", full["obs"][2]), {"object": enc(full["cvals"])})
        none_probe = dict((l, next(p for p in probes if p["label"] == "all, %s=None" % l)) for l in leaves)

        def candidates(pf):
            t = sch[pf]
            out = []
            for l in leaves:
                k = kinds[l]
                if t[0] == "FScalar" and k[0] in ("scalar", "unknown"):
                    out += [(g, pf, l, ("KAssign",)) for g in ("GNotNone", "GTruthy")]
                elif t[0] == "FRepeated" and k[0] in ("list", "unknown"):
                    out += [(g, pf, l, ("KAssignList",)) for g in ("GNonEmptyList", "GNotNone", "GTruthy")]
                elif t[0] == "FMsg" and k[0] == "rec" and self.convs.get(k[1], {}).get("msg") == t[1]:
                    out += [(g, pf, l, ("KMerge", k[1])) for g in ("GTruthy", "GNotNone")]
            return out

        def explains(stmts, pf, okp):
            for pr in okp:
                self.stats["hypotheses_tested"] += 1
                pred = self.mirror_to(x, stmts, pr)
                if pred[0] != "ok":
                    return False
                if norm(pred[1].get(pf, ABSENT)) != norm(pr["obs"][1].get(pf, ABSENT)):
                    return False
            return True

        def refine(stmts, okp):
            """guards that agree on every well-typed non-None value are told apart by the probes that vary the
            statement's own field from the fully set object: None (raises / cannot be constructed -> GAlways,
            skipped -> GNotNone) and an ill-typed falsy value (skipped -> GTruthy, raises -> `is not None`)"""
            stmts = list(stmts)
            for i, s in enumerate(stmts):
                no_none = none_probe[s[2]]["obs"][0] == "unbuildable"
                if s[3][0] == "KAssignList":
                    alts = ["GNonEmptyList", "GNotNone", "GTruthy", "GAlways"]
                elif s[3][0] == "KMerge":
                    alts = ["GAlways", "GTruthy", "GNotNone"] if no_none else ["GTruthy", "GNotNone", "GAlways"]
                else:
                    alts = ["GAlways", "GTruthy", "GNotNone"] if no_none else ["GNotNone", "GAlways", "GTruthy"]
                mine = [p for p in probes if p["label"].startswith("all, %s=" % s[2])
                        and p["obs"][0] != "unbuildable" and not p.get("selection_only")]
                for g in alts:
                    trial = stmts[:i] + [(g,) + tuple(s[1:])] + stmts[i + 1:]
                    if all(same_result(self.mirror_to(x, trial, p), p["obs"]) for p in mine) \
                            and explains([t for t in trial if t[1] == s[1]], s[1], okp):
                        stmts = trial
                        break
            return stmts

        def search(pf, okp):
            cands = candidates(pf)
            for s in cands:
                if explains([s], pf, okp):
                    return [s]
            # two writers of one proto field (aliased attributes): the later one wins
            for s1 in cands:
                for s2 in cands:
                    if s1[2] != s2[2] and explains([s1, s2], pf, okp):
                        return [s1, s2]
            return None

        def fit_all(okp):
            out, order_pairs = [], []
            for pf in self.schema_order[mname]:
                if sch[pf][0] == "FOther":
                    if any(pf in pr["obs"][1] for pr in okp):
                        raise Undetermined("to:%s.%s" % (x, pf), "a proto field of a kind the model does not describe "
                                                                 "is written")
                    continue
                if all(pf not in pr["obs"][1] for pr in okp):
                    continue
                got = search(pf, okp)
                if got is None:
                    pr = next(p for p in okp if pf in p["obs"][1])
                    raise Undetermined("to:%s.%s" % (x, pf),
                                       "no statement of the model (guard x assignment / list assignment / merge of a "
                                       "nested converter, one or two writers) explains when and with what value this "
                                       "proto field is written",
                                       {"probe": pr["label"], "object": enc(pr["cvals"]),
                                        "written": enc(pr["obs"][1].get(pf))})
                out += got
                if len(got) == 2:
                    order_pairs.append((got[0], got[1]))
            return out, order_pairs

        okp = [p for p in probes if p["obs"][0] == "ok"]
        stmts, pairs = fit_all(okp)
        stmts = refine(stmts, okp)
        required = set(s[2] for s in stmts if s[0] == "GAlways")
        # ---- second round: minimal objects and random subsets (now that the required fields are known)
        more = []
        MIN = dict((l, A[l] if l in required else None) for l in leaves)
        more.append(("minimal", dict(MIN)))
        for l in leaves:
            if l in required:
                continue
            more.append(("minimal + %s=value" % l, dict(MIN, **{l: A[l]})))
            fz = self.falsy_of(kinds[l])
            if fz is not ABSENT:
                more.append(("minimal + %s=%r" % (l, fz), dict(MIN, **{l: fz})))
        for i in range(self.N_RANDOM):
            vals = {}
            for l in leaves:
                pool = [A[l], A[l], B[l]]
                fz = self.falsy_of(kinds[l])
                if fz is not ABSENT:
                    pool.append(fz)
                if l not in required:
                    pool += [None, None]
                vals[l] = self.rng.choice(pool)
            more.append(("random %d" % i, vals))
        for label, vals in more:
            probes.append(self.run_to_probe(x, label, vals))
        okp = [p for p in probes if p["obs"][0] == "ok"]
        stmts, pairs = fit_all(okp)
        stmts = refine(stmts, okp)
        # ---- statements whose write is always overwritten later show only through ill-typed values
        stmts = self.repair_hidden(x, stmts, probes, leaves, kinds, A)
        # ---- order: the leaves' order, hidden statements first, measured "later writer wins" pairs respected
        pos = dict((l, i) for i, l in enumerate(leaves))
        hidden = [s for s in stmts if s in getattr(self, "_hidden", {}).get(x, [])]
        rest = sorted([s for s in stmts if s not in hidden], key=lambda s: pos[s[2]])
        for (s1, s2) in pairs:
            i1 = next(i for i, s in enumerate(rest) if (s[1], s[2]) == (s1[1], s1[2]))
            i2 = next(i for i, s in enumerate(rest) if (s[1], s[2]) == (s2[1], s2[2]))
            if i1 > i2:
                rest.insert(i2, rest.pop(i1))
        stmts = hidden + rest
        bad = self.to_mismatch(x, stmts, probes)
        if bad:
            pr, pred = bad
            raise Undetermined("to:%s" % x, "the fitted statements do not reproduce a probe",
                               {"probe": pr["label"], "object": enc(pr["cvals"]), "observed": enc(list(pr["obs"])),
                                "predicted": enc(list(pred))})
        cv["to"] = [{"guard": g, "pf": pf, "src": src, "kind": list(kind)} for (g, pf, src, kind) in stmts]

    # protobuf accepts some foreign Python types; (type kind, probe value) -> accepted?
    @staticmethod
    def pb_accepts(t, v):
        k = t[0]
        if isinstance(v, str):
            return k == "TStr"
        if isinstance(v, bytes):
            return k == "TBytes"
        if isinstance(v, float):
            return k in ("TDouble", "TFloat")
        if isinstance(v, int):
            if k == "TEnum":
                return v in t[1]
            return k in ("TInt", "TBool", "TDouble", "TFloat")
        return False

    FOREIGN = ("x", b"\xff\xfe", 7, 1.5)

    def repair_hidden(self, x, stmts, probes, leaves, kinds, A):
        self._hidden = getattr(self, "_hidden", {})
        self._hidden[x] = []
        mname = self.convs[x]["msg"]
        sch = self.schema[mname]
        for l in leaves:
            if kinds[l][0] not in ("scalar", "unknown"):
                continue
            mine = [p for p in probes if p["label"].startswith("all, %s=" % l)]
            if all(same_result(self.mirror_to(x, stmts, p), p["obs"]) for p in mine if p["obs"][0] != "unbuildable"):
                continue
            foreign = []
            for v in self.FOREIGN:
                pr = self.run_to_probe(x, "all, %s=%r (foreign type)" % (l, v), dict(A, **{l: v}))
                pr["selection_only"] = True
                probes.append(pr)
                foreign.append((v, pr["obs"][0] == "ok"))
            options = []
            for pf in self.schema_order[mname]:
                if sch[pf][0] != "FScalar":
                    continue
                if any(self.pb_accepts(sch[pf][1], v) != ok for v, ok in foreign):
                    continue
                for g in ("GNotNone", "GAlways", "GTruthy"):
                    s = (g, pf, l, ("KAssign",))
                    if self.to_mismatch(x, [s] + stmts, probes) is None:
                        options.append(s)
                        break
            if not options and any(s[2] == l for s in stmts):
                bad = next(p for p in mine if p["obs"][0] != "unbuildable"
                           and not same_result(self.mirror_to(x, stmts, p), p["obs"]))
                raise Undetermined("to:%s.%s" % (x, l),
                                   "the condition under which this field is written fits none of the model's guards "
                                   "(always / is not None / truthiness): the best fit on well-typed values is %s, which "
                                   "this probe contradicts" % [s[0] for s in stmts if s[2] == l],
                                   {"probe": bad["label"], "object": enc(bad["cvals"]),
                                    "observed": enc(list(bad["obs"])),
                                    "predicted": enc(list(self.mirror_to(x, stmts, bad)))})
            named = [s for s in options if s[1] == l.split(".")[-1]]
            pick = named or options
            if len(pick) != 1:
                raise Undetermined("to:%s.%s" % (x, l),
                                   "an ill-typed value of this field makes %s_to_proto raise although no written proto "
                                   "field depends on it, and the proto field it is assigned to (and overwritten later) "
                                   "cannot be singled out (%d candidates)" % (x, len(pick)))
            stmts = [pick[0]] + stmts
            self._hidden[x].append(pick[0])
        return stmts

    # ------------------------------------------------------------ whole-table validation (agreement check)
    def validate(self, tab, only=None, limit=6):
        """mirror semantics of `tab` (the harness table format) against every probe -> list of mismatches"""
        out = []
        checked = 0
        convs = tab.get("convs", {})
        for name in sorted(set(convs) | set(self.convs)):
            if only and name != only:
                continue
            if name not in convs:
                out.append({"conv": name, "column": "converters", "why": "the code has a converter pair %s the table "
                                                                         "does not list" % name})
                continue
            if name not in self.convs:
                out.append({"conv": name, "column": "converters", "why": "the table lists converter %s, the measurement "
                            "found no such pair (or could not determine its message type)" % name})
                continue
            c, m = convs[name], self.convs[name]
            if c["cls"] != m["cls"] or c["msg"] != m["msg"]:
                out.append({"conv": name, "column": "cls/msg", "table": [c["cls"], c["msg"]],
                            "measured": [m["cls"], m["msg"]]})
                continue
        # constructors
        for cname, cp in sorted(self.ctor_probes.items()):
            tc = tab.get("classes", {}).get(cname)
            if tc is None:
                continue
            tf = dict((f[0], f) for f in tc["fields"])
            for q, obs in cp["probes"].items():
                if q not in tf:
                    out.append({"class": cname, "column": "fields", "why": "property %s of the class is not in the "
                                                                           "table" % q})
                    continue
                _, p, st, ck = tf[q]
                if p != cp["q2p"][q]:
                    out.append({"class": cname, "column": "parameter", "field": q, "table": p,
                                "measured": cp["q2p"][q]})
                    continue
                for v, r in obs:
                    checked += 1
                    if not self._store_pred_ok(st, ck, v, r):
                        out.append({"class": cname, "column": "store/check", "field": q, "table": [st, ck],
                                    "probe": {"parameter": p, "value": enc(self.canon(v))},
                                    "observed": enc(list(r)),
                                    "predicted": enc(list(apply_store(st, tuple(ck), self.canon(v))))})
                        break
        for name in sorted(convs):
            if (only and name != only) or name not in self.convs or len(out) >= limit:
                continue
            c, m = convs[name], self.convs[name]
            mname = m["msg"]
            # field universe
            if "from" in m:
                tl, ml = [f[0] for f in c["from"]], [f[0] for f in m["from"]]
                if sorted(tl) != sorted(ml):
                    out.append({"conv": name, "column": "field universe", "table_only": sorted(set(tl) - set(ml)),
                                "measured_only": sorted(set(ml) - set(tl))})
                    continue
            for pr in self.from_probes.get(name, []):
                if pr["obs"][0] != "ok":
                    continue
                checked += 1
                bad = None
                for (leaf, e, st, ck) in c["from"]:
                    r = self.eval_farg(mname, pr, tuple(e), st, ck)
                    v = self.read_leaf(pr["obs"][1], leaf)
                    if not (r[0] == "ok" and norm(r[1]) == norm(v)):
                        bad = {"conv": name, "column": "from", "field": leaf, "table": list(e) + [st, ck],
                               "probe": {"label": pr["label"], "payload": enc(pr["pc"])},
                               "observed": enc(v), "predicted": enc(list(r))}
                        break
                if bad:
                    out.append(bad)
                    break
            stmts = [(s["guard"], s["pf"], s["src"], tuple(s["kind"])) for s in c["to"]]
            for pr in self.to_probes.get(name, []):
                if pr["obs"][0] == "unbuildable" or pr.get("selection_only"):
                    continue
                checked += 1
                pred = self.mirror_to(name, stmts, pr)
                if not same_result(pred, pr["obs"]):
                    out.append({"conv": name, "column": "to",
                                "probe": {"label": pr["label"], "object": enc(pr["cvals"])},
                                "observed": enc(list(pr["obs"])), "predicted": enc(list(pred))})
                    break
        return {"ok": not out, "checked_probes": checked, "mismatches": out[:limit]}

    # ------------------------------------------------------------ driver
    def run(self):
        names = self.discover()
        self.phase_a(names)
        for cls in list(self.instances):
            self.class_info(cls)
        done_from = []
        for x in names:
            if x not in self.convs or "full1" not in self.convs[x]:
                continue
            try:
                self.fit_from(x)
                done_from.append(x)
            except Undetermined as u:
                self.undet(u.column, u.why, u.probe)
        for x in done_from:
            try:
                self.fit_to(x)
            except Undetermined as u:
                self.undet(u.column, u.why, u.probe)
        # the public byte-level entry points are the proto-level ones composed with protobuf's own codec
        self.check_bytes_entry()
        # purity: the first probe of every converter, repeated at the very end, gives the first answer
        for x in done_from:
            pr = self.from_probes[x][1]
            try:
                again = ("ok", self.canon(self.froms[x](pr["msg"])))
            except Exception as e:
                again = ("exn", exn_code(e))
            if not same_result(again, pr["obs"]):
                self.undet("from:%s" % x, "proto_to_%s gives a different answer when called again on the same payload"
                           % x, {"payload": enc(pr["pc"])})
            if x in self.to_probes and "to" in self.convs[x]:
                tp = self.to_probes[x][0]
                try:
                    again = self.run_to_probe(x, tp["label"], tp["vals"])
                except Undetermined as u:
                    self.undet(u.column, u.why, u.probe)
                    continue
                if not same_result(again["obs"], tp["obs"]):
                    self.undet("to:%s" % x, "%s_to_proto gives a different answer when called again on an equal object"
                               % x, {"object": enc(tp["cvals"])})
        table = None
        complete = [x for x in names if x in self.convs and "from" in self.convs[x] and "to" in self.convs[x]]
        if not self.undetermined and len(complete) == len(names) and names:
            table = self.emit_table(names)
        partial = self.emit_table(complete) if complete else None
        # columns of the universe no converter touches (a NEW attribute / proto field shows up here)
        un_attr, un_proto = [], []
        for x in complete:
            cv = self.convs[x]
            written = set(st["src"] for st in cv["to"])
            un_attr += ["%s.%s" % (x, f[0]) for f in cv["from"] if f[1][0] == "FOmitted" and f[0] not in written]
            used = set(st["pf"] for st in cv["to"])
            for f in cv["from"]:
                used |= set(a for a in f[1][1:] if a in self.schema[cv["msg"]])
            un_proto += ["%s.%s" % (cv["msg"], pf) for pf in self.schema_order[cv["msg"]] if pf not in used]
        res = {"table": table, "partial_table": partial, "undetermined": self.undetermined, "notes": self.notes,
               "stats": dict(self.stats, converters=len(names), complete=len(complete),
                             message_types=len(self.msgs), other_public_methods=self.others,
                             attribute_fields_no_converter_touches=un_attr,
                             proto_fields_no_converter_touches=un_proto,
                             from_alternatives=dict((x, dict((k, v) for k, v in
                                                             self.convs[x].get("from_alternatives", {}).items()
                                                             if v > 1)) for x in complete)),
               "agreement": None}
        if self.job.get("mutants"):
            res["mutants"] = []
            for label, t in self.job["mutants"]:
                v = self.validate(t, limit=1)
                res["mutants"].append([label, v["ok"], v["mismatches"][:1]])
        syn = self.job.get("syntactic")
        if syn:
            res["agreement"] = self.validate(syn, only=self.job.get("only"))
            if table:
                res["agreement"]["representation_differences"] = self.structural_diff(syn, table)
        return res

    def check_bytes_entry(self):
        if "message" not in self.convs or "full0" not in self.convs["message"]:
            return
        c = self.conv
        o = self.convs["message"]["full0"]
        try:
            b1 = c.message_to_protobytes(o)
            b2 = c.message_to_proto(o).SerializeToString()
            o2 = c.protobytes_to_message(b1)
            m = self.msgs[self.convs["message"]["msg"]]()
            m.ParseFromString(b1)
            o3 = c.proto_to_message(m)
            if b1 != b2:
                self.undet("entry:message_to_protobytes", "is not message_to_proto(...).SerializeToString()")
            if norm(self.canon(o2)) != norm(self.canon(o3)):
                self.undet("entry:protobytes_to_message", "is not proto_to_message(parsed bytes)")
        except Exception as e:
            self.undet("entry:protobytes", "byte-level entry points raise %s on a fully set message" % type(e).__name__)

    def emit_table(self, names):
        import os as _os
        convs = {}
        used_msgs, files = set(), set()
        repo = _os.environ.get("YV_REPO", "")
        for x in names:
            cv = self.convs[x]
            convs[x] = {"cls": cv["cls"], "msg": cv["msg"], "to": cv["to"], "from": cv["from"],
                        "inline": cv["inline"]}
            used_msgs.add(cv["msg"])
        classes = {}
        for cls, info in self.classes.items():
            if info.get("ok"):
                classes[info["name"]] = {"params": info["params"], "fields": info["fields"]}
                for k in cls.__mro__[:-1]:
                    try:
                        files.add(_os.path.relpath(self.inspect.getsourcefile(k), repo))
                    except Exception:
                        pass
        try:
            files.add(_os.path.relpath(self.inspect.getsourcefile(type(self.conv)), repo))
        except Exception:
            pass
        schema = {}
        for m in sorted(used_msgs):
            schema[m] = [[f, self._jt(self.schema[m][f])] for f in self.schema_order[m]]
        return {"schema": schema, "convs": convs, "notes": sorted(self.notes), "files": sorted(files),
                "classes": classes}

    @staticmethod
    def _jt(t):
        return json.loads(json.dumps(t))

    @staticmethod
    def structural_diff(syn, meas):
        out = []
        for x in sorted(set(syn["convs"]) & set(meas["convs"])):
            a, b = syn["convs"][x], meas["convs"][x]
            ta = dict(((s["src"], s["pf"]), (s["guard"], s["kind"])) for s in a["to"])
            tb = dict(((s["src"], s["pf"]), (s["guard"], s["kind"])) for s in b["to"])
            for k in sorted(set(ta) | set(tb)):
                if ta.get(k) != tb.get(k):
                    out.append("%s to %s->%s: syntactic %s, measured %s" % (x, k[0], k[1], ta.get(k), tb.get(k)))
            fa = dict((f[0], f[1:]) for f in a["from"])
            fb = dict((f[0], f[1:]) for f in b["from"])
            for k in sorted(set(fa) | set(fb)):
                if fa.get(k) != fb.get(k):
                    out.append("%s from %s: syntactic %s, measured %s" % (x, k, fa.get(k), fb.get(k)))
        return out[:40]


def _driver():
    import importlib, importlib.util, traceback
    here = os.path.dirname(os.path.abspath(__file__))
    sys.path[:] = [p for p in sys.path if os.path.abspath(p or ".") != here]
    job = json.load(sys.stdin)
    out = {"fatal": None}

    def finish():
        with open(job["out"], "w") as f:
            json.dump(out, f)
        sys.stdout.flush()
        os._exit(0)

    try:
        spec = importlib.util.spec_from_file_location("yv_env_for_c10_measure", job["env_py"])
        envmod = importlib.util.module_from_spec(spec)
        spec.loader.exec_module(envmod)
        envmod.setup(job["scratch"])
        spec = importlib.util.spec_from_file_location("yv_c10_converter_for_measure", job["translator_py"])
        trmod = importlib.util.module_from_spec(spec)
        spec.loader.exec_module(trmod)
        cm = importlib.import_module(CONVERTER_MODULE)
        mods = [importlib.import_module(m) for m in PROTO_MODULES]
        conv = cm.AttributesConverter.get()
    except BaseException as e:
        out["fatal"] = "import of the converter failed: %s: %s" % (type(e).__name__, e)
        finish()
    try:
        out.update(Measurer(cm, conv, mods, trmod, job).run())
    except BaseException as e:
        out["fatal"] = "measurement crashed: %s: %s | %s" % (type(e).__name__, e,
                                                           traceback.format_exc().splitlines()[-3:])
    finish()


if __name__ == "__main__":
    if "--driver" in sys.argv:
        _driver()
