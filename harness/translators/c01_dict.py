"""Token dictionary translator: yowsup/layers/coder/tokendictionary.py -> coq/Gen/C01Dict.v.

Two paths (DESIGN.md 9.1):
  * syntactic: a class TokenDictionary whose __init__ assigns two list-of-str literals to self.dictionary and
    self.secondaryDictionary (other statements in __init__ make the shape "not recognised");
  * measured: a fresh interpreter imports the module from the tree under test, builds TokenDictionary() and
    reports the two tables the instance really holds, what getToken / getIndex answer for every index / word, and
    the two flag constants.
When the shape is recognised both must agree; when it is not, the measured tables are used provided the instance's
own getToken / getIndex agree with them (index -> word for every index of both tables, word -> first index).
Anything else raises Untranslatable (fail closed).
"""
import ast, json, os, subprocess, sys
from ..env import REPO, VERIF


class Untranslatable(Exception):
    pass


_DRIVER = r"""
import json, sys
from yowsup.layers.coder.tokendictionary import TokenDictionary as T
d = T()
prim, sec = list(d.dictionary), list(d.secondaryDictionary)
ok = all(isinstance(w, str) for w in prim + sec)
res = {"primary": prim, "secondary": sec, "strings": ok,
       "flags": [getattr(T, "FLAG_SEGMENTED", None), getattr(T, "FLAG_DEFLATE", None)], "problems": []}
if ok:
    d2 = T()
    for i, w in enumerate(prim):
        if d2.getToken(i) != w: res["problems"].append("getToken(%d) = %r, table says %r" % (i, d2.getToken(i), w))
    for i, w in enumerate(sec):
        if d2.getToken(i, True) != w: res["problems"].append("getToken(%d, True) = %r, table says %r" % (i, d2.getToken(i, True), w))
    seen = set()
    for i, w in enumerate(prim):
        if w in seen: continue
        seen.add(w)
        if d2.getIndex(w) != (i, False): res["problems"].append("getIndex(%r) = %r, table says %r" % (w, d2.getIndex(w), (i, False)))
    for i, w in enumerate(sec):
        if w in seen: continue
        seen.add(w)
        if d2.getIndex(w) != (i, True): res["problems"].append("getIndex(%r) = %r, table says %r" % (w, d2.getIndex(w), (i, True)))
    if d2.getIndex("\x00no such token\x00") is not None: res["problems"].append("getIndex of a non-token is not None")
    res["problems"] = res["problems"][:8]
json.dump(res, sys.stdout)
"""


def measure_tables(repo=None):
    repo = repo or REPO
    env = {"PYTHONPATH": repo, "PYTHONHASHSEED": "0", "PYTHONDONTWRITEBYTECODE": "1",
           "PATH": os.environ.get("PATH", "/usr/bin:/bin")}
    try:
        p = subprocess.run([sys.executable, "-c", _DRIVER], env=env, cwd="/", stdout=subprocess.PIPE,
                           stderr=subprocess.PIPE, text=True, timeout=120)
    except subprocess.TimeoutExpired:
        raise Untranslatable("measuring the token dictionary did not finish")
    if p.returncode != 0:
        raise Untranslatable("measuring the token dictionary failed: %s" % p.stderr.strip()[-300:])
    res = json.loads(p.stdout)
    if not res["strings"]:
        raise Untranslatable("the dictionary tables hold non-string entries")
    if res["flags"] != [1, 2]:
        raise Untranslatable("flag constants changed: %r" % res["flags"])
    if res["problems"]:
        raise Untranslatable("getToken / getIndex disagree with the tables the instance holds: %s" % res["problems"][:3])
    for w in res["primary"] + res["secondary"]:
        if any(ord(c) > 255 for c in w):
            raise Untranslatable("character above 255 in %r" % w)
    return res["primary"], res["secondary"]


def read_tables(repo=None):
    """-> (primary, secondary); see the module docstring for the two paths"""
    try:
        syn = read_tables_syntactic(repo)
    except Untranslatable as e:
        syn, why = None, str(e)
    meas = measure_tables(repo)
    if syn is not None and (list(syn[0]), list(syn[1])) != (meas[0], meas[1]):
        raise Untranslatable("the list literals in __init__ and the tables a TokenDictionary() instance holds differ")
    read_tables.last_path = "syntactic+measured" if syn is not None else "measured (shape not recognised: %s)" % why
    return meas


def read_tables_syntactic(repo=None):
    path = os.path.join(repo or REPO, "yowsup/layers/coder/tokendictionary.py")
    tree = ast.parse(open(path, encoding="utf-8").read())
    cls = [n for n in tree.body if isinstance(n, ast.ClassDef) and n.name == "TokenDictionary"]
    if len(cls) != 1:
        raise Untranslatable("expected one class TokenDictionary")
    init = [n for n in cls[0].body if isinstance(n, ast.FunctionDef) and n.name == "__init__"]
    if len(init) != 1:
        raise Untranslatable("expected one __init__")
    tables = {}
    for st in init[0].body:
        if isinstance(st, ast.Expr) and isinstance(st.value, ast.Constant):
            continue  # docstring
        if not (isinstance(st, ast.Assign) and len(st.targets) == 1):
            raise Untranslatable("unexpected statement in __init__: %s" % ast.dump(st)[:80])
        t = st.targets[0]
        if not (isinstance(t, ast.Attribute) and isinstance(t.value, ast.Name) and t.value.id == "self"):
            raise Untranslatable("unexpected assignment target")
        if t.attr not in ("dictionary", "secondaryDictionary"):
            raise Untranslatable("unexpected attribute self.%s" % t.attr)
        if not isinstance(st.value, ast.List):
            raise Untranslatable("self.%s is not a list literal" % t.attr)
        words = []
        for e in st.value.elts:
            if not (isinstance(e, ast.Constant) and isinstance(e.value, str)):
                raise Untranslatable("non-string element in self.%s" % t.attr)
            if any(ord(c) > 255 for c in e.value):
                raise Untranslatable("character above 255 in %r" % e.value)
            words.append(e.value)
        if t.attr in tables:
            raise Untranslatable("self.%s assigned twice" % t.attr)
        tables[t.attr] = words
    if set(tables) != {"dictionary", "secondaryDictionary"}:
        raise Untranslatable("missing table")
    consts = {}
    for st in cls[0].body:
        if isinstance(st, ast.Assign) and isinstance(st.targets[0], ast.Name) and isinstance(st.value, ast.Constant):
            consts[st.targets[0].id] = st.value.value
    if consts.get("FLAG_SEGMENTED") != 1 or consts.get("FLAG_DEFLATE") != 2:
        raise Untranslatable("flag constants changed: %r" % consts)
    return tables["dictionary"], tables["secondaryDictionary"]


def coq_words(words):
    return "[" + ";\n  ".join("[" + ";".join(str(ord(c)) for c in w) + "]" for w in words) + "]"


def render(prim, sec, name="D"):
    return ("(* GENERATED by harness/translators/c01_dict.py from tokendictionary.py — do not edit *)\n"
            "From YV Require Import Common.Tac C01.C01Model.\nLocal Open Scope N_scope.\n\n"
            "Definition primary_words : list str :=\n  %s.\n\n"
            "Definition secondary_words : list str :=\n  %s.\n\n"
            "Definition %s : dict := {| primary := primary_words; secondary := secondary_words |}.\n"
            % (coq_words(prim), coq_words(sec), name))


def regenerate(repo=None):
    prim, sec = read_tables(repo)
    out = os.path.join(VERIF, "coq", "Gen", "C01Dict.v")
    os.makedirs(os.path.dirname(out), exist_ok=True)
    new = render(prim, sec)
    old = open(out).read() if os.path.exists(out) else None
    if old != new:
        open(out, "w").write(new)
    return prim, sec
