"""C10 translator: converter.py + attributes_*.py + proto descriptors -> coq/Gen/C10Table.v

Fail-closed: recognises exactly the idioms used by the pinned source (listed in DESIGN.md
section 4, C10) and raises TranslatorError on anything else.  The same structured table is
returned to the harness (generators, canonicalisation of real objects).

Next to this transcription the same table is MEASURED on the running code (c10_measure.py, section "Translator
robustness" of design_notes/C10.md); `analyse` below combines the two: recognised source -> the transcription is
the Gen file and must reproduce every measured observation; unrecognised source -> the Gen file is generated
from the measured table; neither -> fail closed.

Flattening (trusted, exercised by the correspondence check):
  * tail calls `return self.y_to_proto(a.sub | a, msg)` are inlined in execution order, the
    source of an inlined statement is the dotted path (`downloadablemedia_attributes.url`);
  * `self.proto_to_y(proto)` used as a constructor argument (same proto) is inlined, the
    fields of the nested object get the same dotted names;
  * a class's base-class constructor call is inlined.
"""
import ast, os, glob, importlib

ATTR_DIR = "yowsup/layers/protocol_messages/protocolentities/attributes"
PROTO_MODULES = ("yowsup.layers.protocol_messages.proto.e2e_pb2",
                 "yowsup.layers.protocol_messages.proto.protocol_pb2")


class TranslatorError(Exception):
    pass


def _fail(node, what, fn=""):
    raise TranslatorError("%s:%s: %s" % (fn, getattr(node, "lineno", "?"), what))


def _is_self_attr(n, name=None):
    return (isinstance(n, ast.Attribute) and isinstance(n.value, ast.Name) and n.value.id == "self"
            and (name is None or n.attr == name))


# --------------------------------------------------------------------------- classes
FORBIDDEN_DUNDERS = {"__bool__", "__len__", "__nonzero__", "__getattr__", "__getattribute__",
                     "__setattr__", "__eq__", "__ne__", "__hash__", "__slots__", "__new__"}


def _const_env(cls):
    env = {}
    for st in cls.body:
        if isinstance(st, ast.Assign) and len(st.targets) == 1 and isinstance(st.targets[0], ast.Name):
            v = st.value
            if isinstance(v, ast.Constant) and isinstance(v.value, int) and not isinstance(v.value, bool):
                env[st.targets[0].id] = v.value
            elif isinstance(v, ast.Dict):
                keys = []
                for k in v.keys:
                    if isinstance(k, ast.Name) and k.id in env:
                        keys.append(env[k.id])
                    elif isinstance(k, ast.Constant) and isinstance(k.value, int):
                        keys.append(k.value)
                    else:
                        keys = None
                        break
                if keys is not None:
                    env[st.targets[0].id] = keys
    return env


def _parse_assert_check(st, argname, consts, fn):
    """assert isinstance(v, C) | assert type(v) is C | assert v in self.NAME"""
    t = st.test
    if isinstance(t, ast.Call) and isinstance(t.func, ast.Name) and t.func.id == "isinstance" \
            and len(t.args) == 2 and isinstance(t.args[0], ast.Name) and t.args[0].id == argname \
            and isinstance(t.args[1], ast.Name):
        return ("cls", t.args[1].id)
    if isinstance(t, ast.Compare) and len(t.ops) == 1 and isinstance(t.ops[0], ast.Is) \
            and isinstance(t.left, ast.Call) and isinstance(t.left.func, ast.Name) and t.left.func.id == "type" \
            and len(t.left.args) == 1 and isinstance(t.left.args[0], ast.Name) and t.left.args[0].id == argname \
            and isinstance(t.comparators[0], ast.Name):
        return ("cls", t.comparators[0].id)
    if isinstance(t, ast.Compare) and len(t.ops) == 1 and isinstance(t.ops[0], ast.In) \
            and isinstance(t.left, ast.Name) and t.left.id == argname and _is_self_attr(t.comparators[0]):
        name = t.comparators[0].attr
        if isinstance(consts.get(name), list):
            return ("in", list(consts[name]))
    _fail(st, "unrecognised assert", fn)


def parse_class(cls, fn):
    for st in cls.body:
        if isinstance(st, ast.FunctionDef) and st.name in FORBIDDEN_DUNDERS:
            _fail(st, "class %s defines %s" % (cls.name, st.name), fn)
    if len(cls.bases) != 1 or not isinstance(cls.bases[0], ast.Name):
        _fail(cls, "unexpected bases", fn)
    consts = _const_env(cls)
    getters, setters, init = {}, {}, None
    for st in cls.body:
        if not isinstance(st, ast.FunctionDef):
            continue
        decos = [ast.unparse(d) for d in st.decorator_list]
        if st.name == "__init__":
            init = st
        elif decos == ["property"]:
            body = [b for b in st.body if not (isinstance(b, ast.Expr) and isinstance(b.value, ast.Constant))]
            if len(body) == 1 and isinstance(body[0], ast.Return) and _is_self_attr(body[0].value):
                getters[st.name] = body[0].value.attr
            else:
                _fail(st, "property getter is not `return self._x`", fn)
        elif len(decos) == 1 and decos[0].endswith(".setter"):
            setters[st.name] = st
    if init is None:
        _fail(cls, "no __init__", fn)
    a = init.args
    if a.vararg or a.kwarg or a.kwonlyargs or a.posonlyargs:
        _fail(init, "unexpected constructor signature", fn)
    names = [x.arg for x in a.args][1:]
    ndef = len(a.defaults)
    for d in a.defaults:
        if not (isinstance(d, ast.Constant) and d.value is None):
            _fail(init, "constructor default other than None", fn)
    params = [(n, i < len(names) - ndef) for i, n in enumerate(names)]   # (name, required)
    stores = {}     # raw attribute -> (param, store, ck)
    super_args = None

    def setter_idiom(prop, param, node):
        s = setters.get(prop)
        if s is None:
            _fail(node, "assignment to self.%s without a setter" % prop, fn)
        vname = s.args.args[1].arg
        ck = ("none",)
        body = list(s.body)
        if body and isinstance(body[0], ast.Assert):
            ck = _parse_assert_check(body[0], vname, consts, fn)
            body = body[1:]
        if len(body) == 1 and isinstance(body[0], ast.Assign) and _is_self_attr(body[0].targets[0]) \
                and isinstance(body[0].value, ast.Name) and body[0].value.id == vname:
            return body[0].targets[0].attr, (param, "SPlain", ck)
        _fail(s, "setter used by the constructor is not `[assert ...]; self._x = value`", fn)

    for st in init.body:
        if isinstance(st, ast.Expr) and isinstance(st.value, ast.Constant) and isinstance(st.value.value, str):
            continue
        if isinstance(st, ast.Expr) and isinstance(st.value, ast.Call):
            c = st.value
            if isinstance(c.func, ast.Attribute) and c.func.attr == "__init__" and isinstance(c.func.value, ast.Call) \
                    and isinstance(c.func.value.func, ast.Name) and c.func.value.func.id == "super" \
                    and all(isinstance(x, ast.Name) and x.id in names for x in c.args) and not c.keywords:
                super_args = [x.id for x in c.args]
                continue
            _fail(st, "unrecognised call in constructor", fn)
        if isinstance(st, ast.Assign) and len(st.targets) == 1 and _is_self_attr(st.targets[0]):
            tgt, v = st.targets[0].attr, st.value
            if isinstance(v, ast.Name) and v.id in names:
                if tgt.startswith("_"):
                    stores[tgt] = (v.id, "SPlain", ("none",))
                else:
                    raw, info = setter_idiom(tgt, v.id, st)
                    stores[raw] = info
                continue
            if isinstance(v, ast.BoolOp) and isinstance(v.op, ast.Or) and len(v.values) == 2 \
                    and isinstance(v.values[0], ast.Name) and v.values[0].id in names \
                    and isinstance(v.values[1], ast.List) and not v.values[1].elts and tgt.startswith("_"):
                stores[tgt] = (v.values[0].id, "SOrEmptyList", ("none",))
                continue
            _fail(st, "unrecognised constructor assignment", fn)
        if isinstance(st, ast.If) and isinstance(st.test, ast.Name) and st.test.id in names:
            p = st.test.id
            body = list(st.body)
            ck = ("none",)
            if body and isinstance(body[0], ast.Assert):
                ck = _parse_assert_check(body[0], p, consts, fn)
                body = body[1:]
            ok = (len(body) == 1 and isinstance(body[0], ast.Assign) and _is_self_attr(body[0].targets[0])
                  and isinstance(body[0].value, ast.Name) and body[0].value.id == p
                  and len(st.orelse) == 1 and isinstance(st.orelse[0], ast.Assign)
                  and _is_self_attr(st.orelse[0].targets[0], body[0].targets[0].attr)
                  and isinstance(st.orelse[0].value, ast.Constant) and st.orelse[0].value.value is None)
            if ok:
                stores[body[0].targets[0].attr] = (p, "SIfTruthy", ck)
                continue
            _fail(st, "unrecognised `if param:` in constructor", fn)
        _fail(st, "unrecognised constructor statement", fn)
    return {"name": cls.name, "base": cls.bases[0].id, "params": params, "stores": stores,
            "getters": getters, "super_args": super_args, "file": fn}


def load_classes(repo):
    classes = {}
    for path in sorted(glob.glob(os.path.join(repo, ATTR_DIR, "attributes_*.py"))):
        fn = os.path.relpath(path, repo)
        tree = ast.parse(open(path).read(), fn)
        for st in tree.body:
            if isinstance(st, ast.ClassDef):
                classes[st.name] = (st, fn)
    return classes


def class_fields(name, raw_classes, cache):
    """-> {"params": [(name, required)], "fields": [(prop, param, store, ck)]} with the base inlined."""
    if name in cache:
        return cache[name]
    if name not in raw_classes:
        raise TranslatorError("class %s not found in attributes_*.py" % name)
    node, fn = raw_classes[name]
    c = parse_class(node, fn)
    stores = dict(c["stores"])
    getters = dict(c["getters"])
    if c["base"] != "object":
        base = class_fields(c["base"], raw_classes, cache)
        if c["super_args"] is None:
            _fail(node, "derived class does not call the base constructor", fn)
        bparams = [p for p, _ in base["params"]]
        if len(c["super_args"]) > len(bparams):
            _fail(node, "too many base constructor arguments", fn)
        bind = dict(zip(bparams, c["super_args"]))
        for (prop, bparam, st, ck) in base["fields"]:
            if prop in getters:
                continue
            if bparam not in bind:
                _fail(node, "base parameter %s not passed" % bparam, fn)
            getters[prop] = "#base:" + prop
            stores["#base:" + prop] = (bind[bparam], st, ck)
    elif c["super_args"] is not None:
        _fail(node, "super().__init__ with arguments on an object subclass", fn)
    fields = []
    for prop, raw in getters.items():
        if raw not in stores:
            _fail(node, "property %s reads %s which the constructor never sets" % (prop, raw), fn)
        param, st, ck = stores[raw]
        fields.append((prop, param, st, ck))
    cache[name] = {"params": c["params"], "fields": fields, "file": fn}
    return cache[name]


# --------------------------------------------------------------------------- converter
def _attr_of(n, var):
    """var.f -> 'f'"""
    if isinstance(n, ast.Attribute) and isinstance(n.value, ast.Name) and n.value.id == var:
        return n.attr
    return None


def _self_call(n, suffix=None, prefix=None):
    """self.<name>(args) -> (name, args)"""
    if isinstance(n, ast.Call) and _is_self_attr(n.func) and not n.keywords:
        nm = n.func.attr
        if suffix and nm.endswith(suffix):
            return nm[:-len(suffix)], n.args
        if prefix and nm.startswith(prefix):
            return nm[len(prefix):], n.args
    return None


def parse_to_fn(f, fn, msg_resolver):
    args = [a.arg for a in f.args.args]
    if len(args) not in (2, 3) or args[0] != "self":
        _fail(f, "unexpected signature of %s" % f.name, fn)
    avar = args[1]
    pvar = args[2] if len(args) == 3 else None
    mtype = None
    stmts, ret = [], None
    body = list(f.body)

    def guard_of(test):
        g = _attr_of(test, avar)
        if g is not None:
            return "GTruthy", g
        if isinstance(test, ast.UnaryOp) and isinstance(test.op, ast.Not) and isinstance(test.operand, ast.Compare) \
                and len(test.operand.ops) == 1 and isinstance(test.operand.ops[0], ast.Is) \
                and isinstance(test.operand.comparators[0], ast.Constant) \
                and test.operand.comparators[0].value is None and _attr_of(test.operand.left, avar) is not None:
            return "GNotNone", _attr_of(test.operand.left, avar)
        if isinstance(test, ast.Compare) and len(test.ops) == 1 and isinstance(test.ops[0], ast.IsNot) \
                and isinstance(test.comparators[0], ast.Constant) and test.comparators[0].value is None:
            g = _attr_of(test.left, avar)
            if g is not None:
                return "GNotNone", g
        if isinstance(test, ast.BoolOp) and isinstance(test.op, ast.And) and len(test.values) == 2:
            g1 = guard_of(test.values[0])
            v2 = test.values[1]
            if g1 and g1[0] == "GNotNone" and isinstance(v2, ast.Call) and isinstance(v2.func, ast.Name) \
                    and v2.func.id == "len" and len(v2.args) == 1 and _attr_of(v2.args[0], avar) == g1[1]:
                return "GNonEmptyList", g1[1]
        _fail(test, "unrecognised guard in %s" % f.name, fn)

    def simple(st, guard, gsrc):
        # m.f = a.g
        if isinstance(st, ast.Assign) and len(st.targets) == 1:
            t = st.targets[0]
            pf = _attr_of(t, pvar)
            src = _attr_of(st.value, avar)
            if pf is not None and src is not None:
                return {"guard": guard, "pf": pf, "src": src, "kind": ("KAssign",)}
            # m.f[:] = a.g
            if isinstance(t, ast.Subscript) and isinstance(t.slice, ast.Slice) and t.slice.lower is None \
                    and t.slice.upper is None and t.slice.step is None:
                pf = _attr_of(t.value, pvar)
                if pf is not None and src is not None:
                    return {"guard": guard, "pf": pf, "src": src, "kind": ("KAssignList",)}
        # m.f.MergeFrom(self.y_to_proto(a.g))
        if isinstance(st, ast.Expr) and isinstance(st.value, ast.Call):
            c = st.value
            if isinstance(c.func, ast.Attribute) and c.func.attr == "MergeFrom" and len(c.args) == 1 and not c.keywords:
                pf = _attr_of(c.func.value, pvar)
                sc = _self_call(c.args[0], suffix="_to_proto")
                if pf is not None and sc and len(sc[1]) == 1:
                    src = _attr_of(sc[1][0], avar)
                    if src is not None:
                        return {"guard": guard, "pf": pf, "src": src, "kind": ("KMerge", sc[0])}
        _fail(st, "unrecognised statement in %s" % f.name, fn)

    for i, st in enumerate(body):
        if isinstance(st, ast.Expr) and isinstance(st.value, ast.Constant):
            continue
        if isinstance(st, ast.Assign) and len(st.targets) == 1 and isinstance(st.targets[0], ast.Name) \
                and isinstance(st.value, ast.Call) and not st.value.args and not st.value.keywords \
                and pvar is None:
            pvar = st.targets[0].id
            mtype = msg_resolver(st.value.func, fn)
            continue
        if pvar is None:
            _fail(st, "statement before the message is created in %s" % f.name, fn)
        if isinstance(st, ast.Return):
            if i != len(body) - 1:
                _fail(st, "return before the end of %s" % f.name, fn)
            if isinstance(st.value, ast.Name) and st.value.id == pvar:
                ret = ("msg",)
            else:
                sc = _self_call(st.value, suffix="_to_proto")
                if sc and len(sc[1]) == 2 and isinstance(sc[1][1], ast.Name) and sc[1][1].id == pvar:
                    if isinstance(sc[1][0], ast.Name) and sc[1][0].id == avar:
                        ret = ("chain", sc[0], None)
                    elif _attr_of(sc[1][0], avar) is not None:
                        ret = ("chain", sc[0], _attr_of(sc[1][0], avar))
                if ret is None:
                    _fail(st, "unrecognised return in %s" % f.name, fn)
            continue
        if isinstance(st, ast.If):
            if st.orelse or len(st.body) != 1:
                _fail(st, "unrecognised if in %s" % f.name, fn)
            g, gsrc = guard_of(st.test)
            s = simple(st.body[0], g, gsrc)
            if s["src"] != gsrc:
                _fail(st, "guard tests %s but statement reads %s" % (gsrc, s["src"]), fn)
            stmts.append(s)
            continue
        stmts.append(simple(st, "GAlways", None))
    if ret is None:
        _fail(f, "%s does not return" % f.name, fn)
    return {"mtype": mtype, "stmts": stmts, "ret": ret, "standalone": mtype is not None}


def parse_from_fn(f, fn):
    args = [a.arg for a in f.args.args]
    if len(args) != 2 or args[0] != "self":
        _fail(f, "unexpected signature of %s" % f.name, fn)
    pvar = args[1]
    local = {}

    def has_field(n):
        if isinstance(n, ast.Call) and isinstance(n.func, ast.Attribute) and n.func.attr == "HasField" \
                and isinstance(n.func.value, ast.Name) and n.func.value.id == pvar and len(n.args) == 1 \
                and isinstance(n.args[0], ast.Constant) and isinstance(n.args[0].value, str) and not n.keywords:
            return n.args[0].value
        return None

    def base_expr(n):
        pf = _attr_of(n, pvar)
        if pf is not None:
            return ("FField", pf)
        sc = _self_call(n, prefix="proto_to_")
        if sc and len(sc[1]) == 1:
            if isinstance(sc[1][0], ast.Name) and sc[1][0].id == pvar:
                return ("FSelf", sc[0])
            pf = _attr_of(sc[1][0], pvar)
            if pf is not None:
                return ("FConv", sc[0], pf)
        return None

    def expr(n):
        if isinstance(n, ast.Name) and n.id in local:
            return local[n.id]
        b = base_expr(n)
        if b is not None:
            return b
        if isinstance(n, ast.IfExp):
            b = base_expr(n.body)
            if b is None or b[0] == "FSelf":
                _fail(n, "unrecognised conditional in %s" % f.name, fn)
            els = n.orelse
            hf = has_field(n.test)
            if isinstance(els, ast.Constant) and els.value is None:
                if hf is not None:
                    return ("FIfHas", b[1], hf) if b[0] == "FField" else ("FConvIfHas", b[1], b[2], hf)
                cf = _attr_of(n.test, pvar)
                if cf is not None and b[0] == "FField":
                    return ("FIfTruthy", b[1], cf)
            if isinstance(els, ast.List) and not els.elts and b[0] == "FField":
                t = n.test
                if isinstance(t, ast.Call) and isinstance(t.func, ast.Name) and t.func.id == "len" \
                        and len(t.args) == 1 and _attr_of(t.args[0], pvar) is not None:
                    return ("FListOrEmpty", b[1], _attr_of(t.args[0], pvar))
        _fail(n, "unrecognised expression in %s" % f.name, fn)

    body = [b for b in f.body if not (isinstance(b, ast.Expr) and isinstance(b.value, ast.Constant))]
    for st in body[:-1]:
        if isinstance(st, ast.Assign) and len(st.targets) == 1 and isinstance(st.targets[0], ast.Name):
            local[st.targets[0].id] = expr(st.value)
        else:
            _fail(st, "unrecognised statement in %s" % f.name, fn)
    r = body[-1]
    if not (isinstance(r, ast.Return) and isinstance(r.value, ast.Call) and isinstance(r.value.func, ast.Name)):
        _fail(r, "%s does not end in `return Cls(...)`" % f.name, fn)
    call = r.value
    for k in call.keywords:
        if k.arg is None:
            _fail(call, "**kwargs", fn)
    return {"cls": call.func.id, "pos": [expr(a) for a in call.args],
            "kw": {k.arg: expr(k.value) for k in call.keywords}}


SCALARS = None


def _sty(f):
    from google.protobuf.descriptor import FieldDescriptor as F
    t = f.type
    if t == F.TYPE_STRING:
        return ("TStr",)
    if t == F.TYPE_BYTES:
        return ("TBytes",)
    if t == F.TYPE_BOOL:
        return ("TBool",)
    if t in (F.TYPE_UINT32, F.TYPE_FIXED32):
        return ("TInt", 0, 2 ** 32 - 1)
    if t in (F.TYPE_UINT64, F.TYPE_FIXED64):
        return ("TInt", 0, 2 ** 64 - 1)
    if t in (F.TYPE_INT32, F.TYPE_SINT32, F.TYPE_SFIXED32):
        return ("TInt", -2 ** 31, 2 ** 31 - 1)
    if t in (F.TYPE_INT64, F.TYPE_SINT64, F.TYPE_SFIXED64):
        return ("TInt", -2 ** 63, 2 ** 63 - 1)
    if t == F.TYPE_ENUM:
        vals = [v.number for v in f.enum_type.values]
        d = f.default_value
        return ("TEnum", [d] + [v for v in vals if v != d])
    if t == F.TYPE_DOUBLE:
        return ("TDouble",)
    if t == F.TYPE_FLOAT:
        return ("TFloat",)
    return None


def schema_of(desc):
    from google.protobuf.descriptor import FieldDescriptor as F
    out = []
    for f in desc.fields:
        if f.type == F.TYPE_MESSAGE:
            out.append((f.name, ("FMsg", f.message_type.full_name) if f.label != F.LABEL_REPEATED else ("FOther",)))
        else:
            s = _sty(f)
            if s is None or (f.has_default_value and f.type != F.TYPE_ENUM and f.default_value not in (0, "", b"", False)):
                out.append((f.name, ("FOther",)))
            elif f.label == F.LABEL_REPEATED:
                out.append((f.name, ("FRepeated", s)))
            else:
                out.append((f.name, ("FScalar", s)))
    return out


def translate(repo):
    """-> dict(schema=..., convs=..., notes=[...], files=[...])"""
    cpath = os.path.join(repo, ATTR_DIR, "converter.py")
    fn = os.path.relpath(cpath, repo)
    tree = ast.parse(open(cpath).read(), fn)
    imports = {}
    conv_cls = None
    for st in tree.body:
        if isinstance(st, ast.ImportFrom):
            for al in st.names:
                imports[al.asname or al.name] = (st.module, al.name)
        elif isinstance(st, ast.ClassDef) and st.name == "AttributesConverter":
            conv_cls = st
        elif isinstance(st, ast.Expr) and isinstance(st.value, ast.Constant):
            pass
        else:
            _fail(st, "unexpected top-level statement", fn)
    if conv_cls is None:
        raise TranslatorError("AttributesConverter not found")
    descs = {}

    def msg_resolver(node, fn_):
        parts = []
        n = node
        while isinstance(n, ast.Attribute):
            parts.append(n.attr)
            n = n.value
        if not isinstance(n, ast.Name) or n.id not in imports or imports[n.id][0] not in PROTO_MODULES:
            _fail(node, "message class not imported from a proto module", fn_)
        mod = importlib.import_module(imports[n.id][0])
        obj = getattr(mod, imports[n.id][1])
        for p in reversed(parts):
            obj = getattr(obj, p)
        d = obj.DESCRIPTOR
        descs[d.full_name] = d
        return d.full_name

    to_fns, from_fns = {}, {}
    for st in conv_cls.body:
        if isinstance(st, ast.Assign):
            if ast.unparse(st) != "__instance = None":
                _fail(st, "unexpected class attribute", fn)
            continue
        if isinstance(st, ast.Expr) and isinstance(st.value, ast.Constant):
            continue
        if not isinstance(st, ast.FunctionDef):
            _fail(st, "unexpected member", fn)
        src = ast.unparse(st.body if False else st)
        if st.name == "get":
            continue
        if st.name == "protobytes_to_message":
            body = [ast.unparse(b) for b in st.body if not isinstance(b, ast.Expr) or not isinstance(b.value, ast.Constant)]
            if body != ["m = Message()", "m.ParseFromString(protobytes)", "return self.proto_to_message(m)"]:
                _fail(st, "protobytes_to_message changed", fn)
            continue
        if st.name == "message_to_protobytes":
            body = [ast.unparse(b) for b in st.body if not isinstance(b, ast.Expr) or not isinstance(b.value, ast.Constant)]
            if body != ["return self.message_to_proto(message).SerializeToString()"]:
                _fail(st, "message_to_protobytes changed", fn)
            continue
        if st.name.endswith("_to_proto"):
            to_fns[st.name[:-len("_to_proto")]] = parse_to_fn(st, fn, msg_resolver)
        elif st.name.startswith("proto_to_"):
            from_fns[st.name[len("proto_to_"):]] = parse_from_fn(st, fn)
        else:
            _fail(st, "unexpected method %s" % st.name, fn)
    if imports.get("Message", (None,))[0] not in PROTO_MODULES:
        raise TranslatorError("Message is not imported from the proto module")

    raw_classes = load_classes(repo)
    ccache = {}
    notes = []

    def flat_to(name, prefix, seen):
        if name in seen or name not in to_fns:
            raise TranslatorError("chain into unknown/recursive converter %s" % name)
        t = to_fns[name]
        out = [dict(s, src=prefix + s["src"]) for s in t["stmts"]]
        if t["ret"][0] == "chain":
            _, nxt, sub = t["ret"]
            if to_fns.get(nxt, {}).get("standalone", True):
                raise TranslatorError("%s chains into %s which creates its own message" % (name, nxt))
            out += flat_to(nxt, prefix + (sub + "." if sub else ""), seen | {name})
        return out

    def flat_from(name, prefix, seen):
        """-> (cls, [(field, expr, store, ck)])"""
        if name in seen or name not in from_fns:
            raise TranslatorError("proto_to_%s unknown/recursive" % name)
        fr = from_fns[name]
        cdef = class_fields(fr["cls"], raw_classes, ccache)
        pnames = [p for p, _ in cdef["params"]]
        if len(fr["pos"]) > len(pnames):
            raise TranslatorError("too many positional arguments for %s" % fr["cls"])
        bound = dict(zip(pnames, fr["pos"]))
        for k, v in fr["kw"].items():
            if k not in pnames or k in bound:
                raise TranslatorError("bad keyword %s for %s" % (k, fr["cls"]))
            bound[k] = v
        req = dict(cdef["params"])
        out = []
        inl = {}
        for (prop, param, st, ck) in cdef["fields"]:
            e = bound.get(param)
            if e is None:
                out.append((prefix + prop, ("FMissing",) if req[param] else ("FOmitted",), st, ck))
            elif e[0] == "FSelf":
                if st != "SPlain" or ck != ("none",):
                    raise TranslatorError("inlined object %s stored through a normalising constructor" % prop)
                subcls, sub, subinl = flat_from(e[1], prefix + prop + ".", seen | {name})
                out += sub
                inl[prefix + prop] = subcls
                inl.update(subinl)
            else:
                out.append((prefix + prop, e, st, ck))
        return fr["cls"], out, inl

    convs = {}
    for name in to_fns:
        if not to_fns[name]["standalone"]:
            continue
        if name not in from_fns:
            raise TranslatorError("%s_to_proto has no proto_to_%s" % (name, name))
        cls, fargs, inl = flat_from(name, "", frozenset())
        convs[name] = {"cls": cls, "msg": to_fns[name]["mtype"], "to": flat_to(name, "", frozenset()),
                       "from": fargs, "inline": inl}
    for name in from_fns:
        if name not in convs and name in to_fns:
            # chain-only pair (downloadablemedia, media): parsed fail-closed above; their bodies are inlined
            flat_from(name, "", frozenset()) if any(
                e[0] == "FSelf" and e[1] == name for fr in from_fns.values()
                for e in list(fr["pos"]) + list(fr["kw"].values())) else None
            notes.append("inlined-only converter pair: %s" % name)
        elif name not in to_fns:
            raise TranslatorError("proto_to_%s has no %s_to_proto" % (name, name))
    for c in convs.values():
        for s in c["to"]:
            if s["kind"][0] == "KMerge" and s["kind"][1] not in convs:
                raise TranslatorError("merge through unknown converter %s" % s["kind"][1])
        for (_, e, _, _) in c["from"]:
            if e[0] in ("FConv", "FConvIfHas") and e[1] not in convs:
                raise TranslatorError("from-side uses unknown converter %s" % e[1])
    schema = {m: schema_of(d) for m, d in sorted(descs.items()) if m in {c["msg"] for c in convs.values()}}
    files = sorted({fn} | {v["file"] for v in ccache.values()})
    classes = {k: {"params": v["params"], "fields": v["fields"]} for k, v in ccache.items()}
    return {"schema": schema, "convs": convs, "notes": notes, "files": files, "classes": classes}


# --------------------------------------------------------------------------- Coq emission
def _q(s):
    assert '"' not in s
    return '"%s"' % s


def _coq_sty(s):
    if s[0] == "TInt":
        return "(TInt (%d) (%d))" % (s[1], s[2])
    if s[0] == "TEnum":
        return "(TEnum [%s])" % "; ".join("(%d)%%Z" % v for v in s[1])
    return s[0]


def _coq_fty(t):
    if t[0] in ("FScalar", "FRepeated"):
        return "%s %s" % (t[0], _coq_sty(t[1]))
    if t[0] == "FMsg":
        return "FMsg %s" % _q(t[1])
    return "FOther"


def _coq_kind(k):
    return "KMerge %s" % _q(k[1]) if k[0] == "KMerge" else k[0]


def _coq_fexpr(e):
    if len(e) == 1:
        return e[0]
    return "(%s %s)" % (e[0], " ".join(_q(x) for x in e[1:]))


def _coq_ck(ck, clsname_of=lambda c: c):
    if ck[0] == "none":
        return "CkNone"
    if ck[0] == "in":
        return "(CkIn [%s])" % "; ".join("(%d)%%Z" % v for v in ck[1])
    return "(CkCls %s)" % _q(ck[1])


def emit(tab):
    origin = tab.get("origin")
    o = ["(* GENERATED by harness/translators/c10_converter.py — do not edit.",
         "   Sources: %s *)" % ", ".join(tab["files"])]
    if origin:       # only on the measured-only path: the syntactic path's file stays byte-identical
        o.append("(* Table MEASURED on the running code by harness/translators/c10_measure.py: %s *)"
                 % origin.replace("*)", "* )").replace("(*", "( *").replace('"', "'"))
    o += [
         "From Coq Require Import Ascii.",
         "From YV Require Import Common.Tac C10.C10Model.",
         "Open Scope name_scope.", "",
         "Definition schema : C10Model.schema := ["]
    ms = []
    for m, fs in tab["schema"].items():
        ms.append("  (%s, [\n%s])" % (_q(m), ";\n".join("     (%s, %s)" % (_q(f), _coq_fty(t)) for f, t in fs)))
    o.append(";\n".join(ms))
    o += ["].", "", "Definition convs : list (name * conv) := ["]
    cs = []
    for name, c in tab["convs"].items():
        to = ";\n".join("       {| ts_guard := %s; ts_pf := %s; ts_src := %s; ts_kind := %s |}" %
                        (s["guard"], _q(s["pf"]), _q(s["src"]), _coq_kind(s["kind"])) for s in c["to"])
        fr = ";\n".join("       {| fa_field := %s; fa_expr := %s; fa_store := %s; fa_ck := %s |}" %
                        (_q(f), _coq_fexpr(e), st, _coq_ck(ck)) for (f, e, st, ck) in c["from"])
        cs.append("  (%s, {| cv_cls := %s; cv_msg := %s;\n     cv_to := [\n%s];\n     cv_from := [\n%s] |})" %
                  (_q(name), _q(c["cls"]), _q(c["msg"]), to, fr))
    o.append(";\n".join(cs))
    o += ["].", "", "Definition table : C10Model.table := {| t_schema := schema; t_convs := convs |}.", ""]
    return "\n".join(o)


def _write_if_changed(out, text):
    os.makedirs(os.path.dirname(out), exist_ok=True)
    old = open(out).read() if os.path.exists(out) else None
    if old != text:
        with open(out, "w") as f:
            f.write(text)


def analyse(repo=None, out=None, scratch=None):
    """Both extractions of the converter table, side by side (never raises).

    -> dict(tab            the table the Gen file was generated from (JSON-normalised) or None,
            path           "syntactic+measured (agree)" | "syntactic+measured (DISAGREE)" |
                           "syntactic only (measurement unavailable: ...)" |
                           "measured only (source shape not recognised: ...)" | "none (...)",
            syntactic_error, measure_error, disagreements=[...], undetermined=[...], measured=<result dict>)

    * source recognised by the ast translator: the Gen file is the transcription (byte-identical to what the
      translator alone produced); the measured observations must be reproduced by it (agreement check);
    * source not recognised: the Gen file is generated from the measured table, provided every column was
      determined; otherwise fail closed (tab = None), naming both reasons."""
    import json
    from .. import env
    from . import c10_measure
    repo = repo or env.REPO
    out = out or os.path.join(env.VERIF, "coq", "Gen", "C10Table.v")
    res = {"tab": None, "path": None, "syntactic_error": None, "measure_error": None, "disagreements": [],
           "undetermined": [], "measured": None}
    syn = None
    try:
        syn = json.loads(json.dumps(translate(repo)))
    except Exception as e:
        res["syntactic_error"] = "%s: %s" % (type(e).__name__, e)
    meas = None
    try:
        meas = c10_measure.measure(repo, syntactic=syn, scratch=scratch)
        res["measured"] = dict((k, meas.get(k)) for k in ("stats", "notes", "wall_s", "undetermined"))
        res["undetermined"] = meas.get("undetermined") or []
    except Exception as e:
        res["measure_error"] = "%s: %s" % (type(e).__name__, e)
    if syn is not None:
        res["tab"] = syn
        if meas is None:
            res["path"] = "syntactic only (measurement unavailable: %s)" % res["measure_error"][:300]
        else:
            agr = meas.get("agreement") or {"ok": False, "mismatches": [{"why": "no agreement result"}]}
            res["agreement"] = dict((k, agr.get(k)) for k in ("ok", "checked_probes", "representation_differences"))
            if agr.get("ok"):
                res["path"] = "syntactic+measured (agree)"
            else:
                res["path"] = "syntactic+measured (DISAGREE)"
                res["disagreements"] = agr.get("mismatches") or []
        _write_if_changed(out, emit(syn))
    elif meas is not None and meas.get("table") is not None:
        tab = meas["table"]
        res["path"] = "measured only (source shape not recognised: %s)" % res["syntactic_error"][:300]
        tab["origin"] = res["path"]
        res["tab"] = tab
        _write_if_changed(out, emit(tab))
    else:
        why = "syntactic: %s" % res["syntactic_error"]
        if meas is None:
            why += "; measured: %s" % res["measure_error"]
        else:
            why += "; measured: undetermined " + "; ".join("%s (%s)" % (u["column"], u["why"][:160])
                                                          for u in res["undetermined"][:4])
        res["path"] = "none (%s)" % why[:900]
    try:    # coq/Gen/C10Probes.v (needed by C10/C10Inst.v) — also rewritten by every check run
        from ..props import C10 as _p
        _p.emit_probes(_p.Info(_p.load_baseline()))
    except Exception:
        pass
    return res


def regenerate(repo=None, out=None, scratch=None):
    """compatibility wrapper: the table the Gen file was generated from; TranslatorError when neither the
    syntactic nor the measured path produced one"""
    res = analyse(repo, out, scratch)
    if res["tab"] is None:
        raise TranslatorError(res["path"])
    return res["tab"]
