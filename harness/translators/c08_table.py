"""Fail-closed translator: the iq registration sites of the protocol / axolotl layers and the
reply test of the two processIqRegistry functions  ->  coq/Gen/C08Table.v  (gen_cfg).

What is read (ast only, nothing is imported or executed):
  * for each protocol layer with an "iq" entry in its handleMap: the send handler's if/elif
    tree.  Every leaf must be `self._sendIq(E, self.A[, self.B])` (registers; A/B = success/error
    callback), `self.toLower(E.toProtocolTreeNode())` / `self.entityToLower(E)` (forwards without
    a registry) -- anything else is unrecognised.  Every guard must be one of the guards listed
    in GUARDS below (which request kinds it selects is the hand-written part; it is pinned by the
    correspondence run, where each kind must be sent exactly once and land in the modelled
    registry); an unknown guard is unrecognised.
  * every registered callback of a protocol layer must be a plain forwarder
    `self.toUpper(X.fromProtocolTreeNode(node))` (logger calls and the iq layer's gotPong aside).  For the
    iq layer's own callbacks (onPong / onPingError) an unrecognised shape is MEASURED (_probe_iq_layer: pings
    registered through sendIq with and without an outstanding keep-alive id, result / error delivered: is the
    reply handed upward, is the keep-alive queue emptied only by its own pong?); a deviation is returned as
    info["tie_broken"] while the table itself stays the real one, so that the model run remains meaningful.
  * AxolotlBaseLayer.getKeysFor, AxolotlControlLayer.flush_keys, AxolotlSendLayer.sendToGroup:
    the single `self._sendIq(...)` call and which callbacks it passes.
  * YowProtocolLayer.processIqRegistry / YowInterfaceLayer.processIqRegistry: whether the
    registry test also requires type in (result, error), and whether the entry is removed
    before or after the first callback call (statement order, try/finally flattened); the removal
    must be guarded by nothing but tag / id-in-registry / reply-type tests (seeded C08-8 kept the entry
    for error replies with a backoff: not the recognised shape -> measured, with replies of several contents).
    When the method is not written in the recognised shape (guard clauses, dict.pop, a helper
    method ...) these two booleans are MEASURED instead: a subprocess runs the real method on a
    bare layer object (_probe_registry).  Either way the whole table is validated by the
    correspondence run over request/reply histories.
  * YowProtocolLayer._sendIq / YowInterfaceLayer._sendIq: is the request put into iqRegistry BEFORE it is
    handed down (`self.iqRegistry[..] = ..` precedes `self.toLower(..)` / `self.entityToLower(..)`)?
    -> reg_first / reg_first_iface.  When the method is not in that shape (helper function, try/else ...)
    the fact is MEASURED: a subprocess calls the real _sendIq on a bare layer object whose toLower looks
    into the registry (_probe_send).  Validated by the correspondence run over histories in which the
    bottom of the stack delivers replies from inside its send().
Unrecognised source raises TranslateError; regenerate() then writes a stub table (nothing is
routed) so that the model still builds, every theorem about the table fails and the
correspondence disagrees -- tie broken.
"""
import ast, os
from ..env import VERIF, REPO

OUT = os.path.join(VERIF, "coq", "Gen", "C08Table.v")


class TranslateError(Exception):
    pass


LAYERS = {   # Coq layer -> (file, class)
    "LPresence": ("yowsup/layers/protocol_presence/layer.py", "YowPresenceProtocolLayer"),
    "LIb": ("yowsup/layers/protocol_ib/layer.py", "YowIbProtocolLayer"),
    "LIq": ("yowsup/layers/protocol_iq/layer.py", "YowIqProtocolLayer"),
    "LContacts": ("yowsup/layers/protocol_contacts/layer.py", "YowContactsIqProtocolLayer"),
    "LGroups": ("yowsup/layers/protocol_groups/layer.py", "YowGroupsProtocolLayer"),
    "LMedia": ("yowsup/layers/protocol_media/layer.py", "YowMediaProtocolLayer"),
    "LPrivacy": ("yowsup/layers/protocol_privacy/layer.py", "YowPrivacyProtocolLayer"),
    "LProfiles": ("yowsup/layers/protocol_profiles/layer.py", "YowProfilesProtocolLayer"),
}

IN_HANDLE = "E.__class__ in self.__class__.HANDLE"
GROUP_CLASSES = {
    "KGSubject": "SubjectGroupsIqProtocolEntity", "KGCreate": "CreateGroupsIqProtocolEntity",
    "KGParts": "ParticipantsGroupsIqProtocolEntity", "KGAdd": "AddParticipantsIqProtocolEntity",
    "KGPromote": "PromoteParticipantsIqProtocolEntity", "KGDemote": "DemoteParticipantsIqProtocolEntity",
    "KGRemove": "RemoveParticipantsIqProtocolEntity", "KGList": "ListGroupsIqProtocolEntity",
    "KGLeave": "LeaveGroupsIqProtocolEntity", "KGInfo": "InfoGroupsIqProtocolEntity"}

# (layer, positive guards on the path, innermost last) -> request kinds selected
GUARDS = {
    ("LIq", ("E.getXmlns() == 'w:p'",)): ["KPing"],
    ("LIq", ("E.getXmlns() in ('urn:xmpp:whatsapp:push', 'w', 'urn:xmpp:whatsapp:account', 'encrypt')",)):
        ["KPush", "KProps"],
    ("LContacts", ("E.getXmlns() == 'urn:xmpp:whatsapp:sync'",)): ["KSync"],
    ("LProfiles", ("E.getXmlns() == 'w:profile:picture'", "E.getType() == 'get'")): ["KPicGet"],
    ("LProfiles", ("E.getXmlns() == 'w:profile:picture'", "E.getType() == 'set'")): ["KPicSet"],
    # an iq entity of type "delete" cannot be constructed (IqProtocolEntity asserts the type)
    ("LProfiles", ("E.getXmlns() == 'w:profile:picture'", "E.getType() == 'delete'")): [],
    ("LProfiles", ("E.getXmlns() == 'privacy'",)): ["KPrivGet", "KPrivSet"],
    ("LProfiles", ("isinstance(E, GetStatusesIqProtocolEntity)",)): ["KStatGet"],
    ("LProfiles", ("isinstance(E, SetStatusIqProtocolEntity)",)): ["KStatSet"],
    # account removal (fixes/C06-unregister-iq-routed.patch): forwarded, no reply entity, not a modelled kind
    ("LProfiles", ("isinstance(E, UnregisterIqProtocolEntity)",)): [],
    ("LPrivacy", ("E.getXmlns() == 'jabber:iq:privacy'",)): ["KPrivList"],
    ("LPresence", ("E.getXmlns() == LastseenIqProtocolEntity.XMLNS",)): ["KLastSeen"],
    ("LMedia", ("E.getType() == IqProtocolEntity.TYPE_SET and E.getXmlns() == 'w:m'",)): ["KUpload"],
    ("LIb", ("E.__class__ == CleanIqProtocolEntity",)): ["KClean"],
    ("LGroups", (IN_HANDLE, "<else>")): [],
}
for _k, _c in GROUP_CLASSES.items():
    GUARDS[("LGroups", (IN_HANDLE, "E.__class__ == %s" % _c))] = [_k]

AKINDS = ["KPing", "KLastSeen", "KPicGet", "KPicSet", "KPrivGet", "KPrivSet", "KStatGet", "KStatSet",
          "KGCreate", "KGInfo", "KGLeave", "KGList", "KGSubject", "KGParts", "KGAdd", "KGPromote",
          "KGDemote", "KGRemove", "KSync", "KUpload", "KPush", "KProps", "KClean", "KPrivList"]


def _parse(repo, rel):
    path = os.path.join(repo, rel)
    try:
        return ast.parse(open(path).read(), path)
    except (OSError, SyntaxError) as e:
        raise TranslateError("%s: %s" % (rel, e))


def _cls(tree, name, rel):
    for st in tree.body:
        if isinstance(st, ast.ClassDef) and st.name == name:
            return st
    raise TranslateError("%s: class %s not found" % (rel, name))


def _method(cls, name, rel):
    for st in cls.body:
        if isinstance(st, ast.FunctionDef) and st.name == name:
            return st
    raise TranslateError("%s: method %s.%s not found" % (rel, cls.name, name))


class _Rename(ast.NodeTransformer):
    def __init__(self, old, new):
        self.old, self.new = old, new

    def visit_Name(self, n):
        return ast.copy_location(ast.Name(id=self.new, ctx=n.ctx), n) if n.id == self.old else n


def _src(node, param):
    return ast.unparse(_Rename(param, "E").visit(ast.parse(ast.unparse(node), mode="eval").body))


def _is_self_attr(node, name=None):
    return isinstance(node, ast.Attribute) and isinstance(node.value, ast.Name) and \
        node.value.id == "self" and (name is None or node.attr == name)


def _cb_name(node, where):
    """a callback argument: self.<method> -> name; None literal -> None"""
    if isinstance(node, ast.Constant) and node.value is None:
        return None
    if _is_self_attr(node):
        return node.attr
    raise TranslateError("%s: callback argument %s is not self.<method>" % (where, ast.unparse(node)))


def _sendiq_call(call, where, param=None, allow_local=False):
    """-> (success cb, error cb) as names / True for local closures / None"""
    pos = list(call.args)
    kw = {k.arg: k.value for k in call.keywords}
    if len(pos) < 1 or len(pos) > 3 or any(k not in ("onSuccess", "onError") for k in kw):
        raise TranslateError("%s: unrecognised _sendIq call %s" % (where, ast.unparse(call)))
    if param is not None and not (isinstance(pos[0], ast.Name) and pos[0].id == param):
        raise TranslateError("%s: _sendIq registers something else than the entity" % where)
    succ = pos[1] if len(pos) > 1 else kw.get("onSuccess")
    err = pos[2] if len(pos) > 2 else kw.get("onError")
    if len(pos) > 1 and "onSuccess" in kw or len(pos) > 2 and "onError" in kw:
        raise TranslateError("%s: duplicate callback argument" % where)

    def one(n):
        if n is None:
            return None
        if allow_local and isinstance(n, (ast.Name, ast.Lambda)):
            return True
        return _cb_name(n, where)
    return one(succ), one(err)


def _leaf(stmt, param, where):
    if not (isinstance(stmt, ast.Expr) and isinstance(stmt.value, ast.Call)):
        raise TranslateError("%s: unrecognised statement %s" % (where, ast.unparse(stmt)[:80]))
    call = stmt.value
    f = call.func
    if _is_self_attr(f, "_sendIq"):
        s, e = _sendiq_call(call, where, param)
        return ("reg", s, e)
    if _is_self_attr(f, "entityToLower") and len(call.args) == 1 and not call.keywords and \
            isinstance(call.args[0], ast.Name) and call.args[0].id == param:
        return ("fwd",)
    if _is_self_attr(f, "toLower") and len(call.args) == 1 and not call.keywords:
        a = call.args[0]
        if isinstance(a, ast.Call) and isinstance(a.func, ast.Attribute) and \
                a.func.attr == "toProtocolTreeNode" and isinstance(a.func.value, ast.Name) and \
                a.func.value.id == param and not a.args and not a.keywords:
            return ("fwd",)
    raise TranslateError("%s: unrecognised action %s" % (where, ast.unparse(stmt)[:80]))


def _walk(stmts, conds, param, where, out):
    real = [s for s in stmts
            if not isinstance(s, ast.Pass) and
            not (isinstance(s, ast.Expr) and isinstance(s.value, ast.Constant) and isinstance(s.value.value, str))]
    if not real:
        return
    if len(real) != 1:
        raise TranslateError("%s: more than one statement on a path (%d)" % (where, len(real)))
    st = real[0]
    if isinstance(st, ast.If):
        _walk(st.body, conds + (_src(st.test, param),), param, where, out)
        if st.orelse:
            if len(st.orelse) == 1 and isinstance(st.orelse[0], ast.If):
                _walk(st.orelse, conds, param, where, out)
            else:
                _walk(st.orelse, conds + ("<else>",), param, where, out)
    else:
        out.append((conds, _leaf(st, param, where)))


def _check_forwarder(cls, name, rel):
    m = _method(cls, name, rel)
    if len(m.args.args) < 2:
        raise TranslateError("%s: callback %s takes no node" % (rel, name))
    node_param = m.args.args[1].arg
    body = []
    for s in m.body:
        if isinstance(s, ast.Expr) and isinstance(s.value, ast.Call):
            f = s.value.func
            if isinstance(f, ast.Attribute) and isinstance(f.value, ast.Name) and f.value.id == "logger":
                continue
            if _is_self_attr(f, "gotPong"):
                continue
        if isinstance(s, ast.Expr) and isinstance(s.value, ast.Constant):
            continue
        body.append(s)
    ok = False
    if len(body) == 1 and isinstance(body[0], ast.Expr) and isinstance(body[0].value, ast.Call):
        c = body[0].value
        if _is_self_attr(c.func, "toUpper") and len(c.args) == 1 and isinstance(c.args[0], ast.Call):
            inner = c.args[0]
            if isinstance(inner.func, ast.Attribute) and inner.func.attr == "fromProtocolTreeNode" and \
                    len(inner.args) == 1 and isinstance(inner.args[0], ast.Name) and \
                    inner.args[0].id == node_param:
                ok = True
    if not ok:
        raise TranslateError("%s: callback %s.%s is not a plain upward forwarder" % (rel, cls.name, name))


def _iq_send_handler(cls, rel):
    init = _method(cls, "__init__", rel)
    for n in ast.walk(init):
        if isinstance(n, ast.Dict):
            for k, v in zip(n.keys, n.values):
                if isinstance(k, ast.Constant) and k.value == "iq":
                    if not (isinstance(v, ast.Tuple) and len(v.elts) == 2):
                        raise TranslateError("%s: handleMap['iq'] is not a pair" % rel)
                    s = v.elts[1]
                    if isinstance(s, ast.Constant) and s.value is None:
                        return None
                    if _is_self_attr(s):
                        return s.attr
                    raise TranslateError("%s: handleMap['iq'] send handler unrecognised" % rel)
    return None


def _single_sendiq(repo, rel, clsname, meth):
    tree = _parse(repo, rel)
    m = _method(_cls(tree, clsname, rel), meth, rel)
    calls = [n for n in ast.walk(m) if isinstance(n, ast.Call) and _is_self_attr(n.func, "_sendIq")]
    if len(calls) != 1:
        raise TranslateError("%s: %s.%s has %d _sendIq calls" % (rel, clsname, meth, len(calls)))
    s, e = _sendiq_call(calls[0], "%s:%s" % (rel, meth), allow_local=True)
    return (s is not None, e is not None)


def _strict(repo, rel, clsname):
    tree = _parse(repo, rel)
    m = _method(_cls(tree, clsname, rel), "processIqRegistry", rel)

    def in_registry(t):
        return isinstance(t, ast.Compare) and len(t.ops) == 1 and isinstance(t.ops[0], ast.In) and \
            _is_self_attr(t.comparators[0], "iqRegistry")

    def reply_types(t):
        if not (isinstance(t, ast.Compare) and len(t.ops) == 1 and isinstance(t.ops[0], ast.In)):
            return False
        tup = t.comparators[0]
        if not isinstance(tup, (ast.Tuple, ast.List, ast.Set)) or len(tup.elts) != 2:
            return False
        vals = set()
        for e in tup.elts:
            if isinstance(e, ast.Constant) and isinstance(e.value, str):
                vals.add(e.value)
            elif isinstance(e, ast.Attribute) and e.attr in ("TYPE_RESULT", "TYPE_ERROR"):
                vals.add({"TYPE_RESULT": "result", "TYPE_ERROR": "error"}[e.attr])
        return vals == {"result", "error"}
    found = []
    for n in ast.walk(m):
        if isinstance(n, ast.If):
            t = n.test
            if in_registry(t):
                found.append(False)
            elif isinstance(t, ast.BoolOp) and isinstance(t.op, ast.And) and len(t.values) == 2 and \
                    any(in_registry(v) for v in t.values) and any(reply_types(v) for v in t.values):
                found.append(True)
            elif "iqRegistry" in ast.unparse(t):
                raise TranslateError("%s: unrecognised registry test %s" % (rel, ast.unparse(t)))
    if len(found) != 1:
        raise TranslateError("%s: %d registry tests in processIqRegistry" % (rel, len(found)))

    # the removal of the entry must not depend on anything but tag / id-in-registry / reply type (a removal that
    # also depends on the reply's CONTENT -- seeded C08-8: "keep the entry for errors with a backoff" -- is not
    # in the recognised shape: the caller then measures, with replies of several contents)
    def is_tag_test(t):
        return isinstance(t, ast.Compare) and len(t.ops) == 1 and isinstance(t.ops[0], ast.Eq) and \
            any(isinstance(x, ast.Constant) and x.value == "iq" for x in [t.left] + t.comparators)

    def plain_guard(t):
        if in_registry(t) or reply_types(t) or is_tag_test(t):
            return True
        return isinstance(t, ast.BoolOp) and isinstance(t.op, ast.And) and all(plain_guard(v) for v in t.values)

    def guards_of_removal(stmts, guards):
        for st in stmts:
            if isinstance(st, ast.If):
                for branch in (st.body, st.orelse):
                    r = guards_of_removal(branch, guards + [st.test])
                    if r is not None:
                        return r
            elif isinstance(st, (ast.Try, ast.With)):
                for branch in [st.body] + ([h.body for h in st.handlers] + [st.orelse, st.finalbody]
                                           if isinstance(st, ast.Try) else []):
                    r = guards_of_removal(branch, guards)
                    if r is not None:
                        return r
            elif _removes_entry(st):
                return guards
        return None
    gs = guards_of_removal(m.body, [])
    for g in gs or []:
        if not plain_guard(g):
            raise TranslateError("%s: the registry entry is removed only under the further condition `%s`"
                                 % (rel, ast.unparse(g)[:100]))
    return found[0], _late_delete(m, rel)


def _removes_entry(st):
    for n in ast.walk(st):
        if isinstance(n, ast.Delete) and any(isinstance(t, ast.Subscript) and _is_self_attr(t.value, "iqRegistry")
                                             for t in n.targets):
            return True
        if isinstance(n, ast.Call) and isinstance(n.func, ast.Attribute) and n.func.attr in ("pop", "popitem") \
                and _is_self_attr(n.func.value, "iqRegistry"):
            return True
    return False


def _leaves(stmts):
    """simple statements in execution order (if/try/with bodies flattened; finally last)"""
    for st in stmts:
        if isinstance(st, ast.If):
            for x in _leaves(st.body): yield x
            for x in _leaves(st.orelse): yield x
        elif isinstance(st, ast.Try):
            for x in _leaves(st.body): yield x
            for h in st.handlers:
                for x in _leaves(h.body): yield x
            for x in _leaves(st.orelse): yield x
            for x in _leaves(st.finalbody): yield x
        elif isinstance(st, ast.With):
            for x in _leaves(st.body): yield x
        else:
            yield st


def _late_delete(m, rel):
    """is the registry entry removed AFTER the first callback call?  (del self.iqRegistry[..] or
    self.iqRegistry.pop(..) vs. the first call of a plain name -- the unpacked callbacks)"""
    def removes(st):
        for n in ast.walk(st):
            if isinstance(n, ast.Delete) and any(isinstance(t, ast.Subscript) and _is_self_attr(t.value, "iqRegistry")
                                                 for t in n.targets):
                return True
            if isinstance(n, ast.Call) and isinstance(n.func, ast.Attribute) and n.func.attr in ("pop", "popitem") \
                    and _is_self_attr(n.func.value, "iqRegistry"):
                return True
        return False

    def calls_back(st):
        return any(isinstance(n, ast.Call) and isinstance(n.func, ast.Name) for n in ast.walk(st))
    rm = cb = None
    for idx, st in enumerate(_leaves(m.body)):
        if rm is None and removes(st):
            rm = idx
        if cb is None and calls_back(st):
            cb = idx
    if rm is None:
        raise TranslateError("%s: processIqRegistry never removes the entry" % rel)
    if cb is None:
        raise TranslateError("%s: processIqRegistry calls no callback" % rel)
    return rm > cb


_PROBE = r"""
import sys, json
import six, importlib.util
_imp = six._importer; _cls = type(_imp)
if not hasattr(_cls, 'find_spec'):
    _cls.find_spec = lambda self, fullname, path=None, target=None: importlib.util.spec_from_loader(fullname, self) if fullname in self.known_modules else None
    _cls.create_module = lambda self, spec: self.load_module(spec.name)
    _cls.exec_module = lambda self, module: None
if _imp not in sys.meta_path: sys.meta_path.append(_imp)
from yowsup.structs import ProtocolTreeNode
from yowsup.layers.protocol_iq.protocolentities import IqProtocolEntity
out = {}
def probe(make_layer, make_reply, name):
    res = []
    for first in ("get", "set"):
        layer = make_layer()
        seen = []
        def ok(reply, orig, layer=layer, seen=seen): seen.append(("ok", "x1" in layer.iqRegistry))
        def err(reply, orig, layer=layer, seen=seen): seen.append(("err", "x1" in layer.iqRegistry))
        orig = IqProtocolEntity("w", _id="x1", _type="get", to="s.whatsapp.net")
        layer.iqRegistry["x1"] = (orig, ok, err)
        consumed = layer.processIqRegistry(make_reply("x1", first))
        still = "x1" in layer.iqRegistry
        if bool(consumed) == still:
            raise SystemExit("inconsistent: consumed=%r entry still there=%r" % (consumed, still))
        res.append(still and not seen)                      # a get/set with the id leaves the request pending
        if still:
            r2 = layer.processIqRegistry(make_reply("x1", "result"))
            if not r2 or seen != [("ok", seen[0][1])] or "x1" in layer.iqRegistry:
                raise SystemExit("result reply not dispatched exactly once to the success callback")
    if res[0] != res[1]:
        raise SystemExit("get and set treated differently")
    layer = make_layer(); seen = []
    def ok2(reply, orig): seen.append("x2" in layer.iqRegistry)
    layer.iqRegistry["x2"] = (IqProtocolEntity("w", _id="x2", _type="get", to="s.whatsapp.net"), ok2, None)
    if not layer.processIqRegistry(make_reply("x2", "result")) or len(seen) != 1 or "x2" in layer.iqRegistry:
        raise SystemExit("result reply not consumed")
    flags = [bool(res[0]), bool(seen[0])]
    # the CONTENT of a reply must not matter: error replies with / without an <error> child carrying a backoff,
    # a result with such a child -- consumed, dispatched once, entry removed
    for j, reply in enumerate(contents("x3")):
        layer = make_layer(); seen3 = []
        def cb(tag, layer=layer, seen3=seen3):
            return lambda reply, orig: seen3.append((tag, "x3" in layer.iqRegistry))
        layer.iqRegistry["x3"] = (IqProtocolEntity("w", _id="x3", _type="get", to="s.whatsapp.net"), cb("ok"), cb("err"))
        want = "ok" if reply_type(reply) == "result" else "err"
        consumed = layer.processIqRegistry(reply)
        if not consumed or seen3 != [(want, flags[1])] or "x3" in layer.iqRegistry:
            raise SystemExit("%s: reply content #%d: consumed=%r callbacks=%r entry kept=%r -- the registry looks at the "
                             "content of the reply" % (name, j, consumed, seen3, "x3" in layer.iqRegistry))
    out[name] = flags
ERR = {"code": "406", "text": "not-acceptable"}
def node_contents(i):
    mk = lambda t, ch: ProtocolTreeNode("iq", {"id": i, "type": t, "from": "s.whatsapp.net"}, ch)
    e = lambda **a: ProtocolTreeNode("error", dict(ERR, **a))
    return [mk("error", [e()]), mk("error", [e(backoff="3600")]), mk("error", [e(backoff="0")]),
            mk("error", [ProtocolTreeNode("error", {"backoff": "1"})]), mk("error", [e(), e(backoff="60")]),
            mk("error", []), mk("result", [e(backoff="3600")])]
from yowsup.layers import YowProtocolLayer
contents = node_contents; reply_type = lambda n: n["type"]
probe(lambda: YowProtocolLayer({}), lambda i, t: ProtocolTreeNode("iq", {"id": i, "type": t, "from": "s.whatsapp.net"}), "protocol")
from yowsup.layers.interface import YowInterfaceLayer
from yowsup.layers.protocol_iq.protocolentities import ErrorIqProtocolEntity
def entity_contents(i):
    res = IqProtocolEntity("w", _id=i, _type="result", _from="s.whatsapp.net"); res.backoff = 3600
    return [ErrorIqProtocolEntity(i, "s.whatsapp.net", "406", "not-acceptable"),
            ErrorIqProtocolEntity(i, "s.whatsapp.net", "406", "not-acceptable", 3600),
            ErrorIqProtocolEntity(i, "s.whatsapp.net", "406", "not-acceptable", "1"),
            ErrorIqProtocolEntity(i, "s.whatsapp.net", None, None, 0), res]
contents = entity_contents; reply_type = lambda e: e.getType()
probe(lambda: YowInterfaceLayer(), lambda i, t: IqProtocolEntity("w", _id=i, _type=t, _from="s.whatsapp.net"), "interface")
print("PROBE " + json.dumps(out))
"""


def _run_probe(repo, code, what):
    import subprocess, sys, json
    env = dict(os.environ, PYTHONPATH=repo, PYTHONHASHSEED="0", PYTHONDONTWRITEBYTECODE="1")
    p = subprocess.run([sys.executable, "-c", code], env=env, cwd=repo, stdout=subprocess.PIPE, stderr=subprocess.PIPE,
                       text=True, timeout=120)
    for line in p.stdout.splitlines():
        if line.startswith("PROBE "):
            return json.loads(line[6:])
    raise TranslateError("%s: source not recognised and the behavioural probe failed: %s"
                         % (what, (p.stderr.strip().splitlines() or [p.stdout.strip() or "no output"])[-1][:300]))


def _probe_registry(repo):
    """Behavioural fallback for the two facts read from processIqRegistry when its source is not in a recognised
    shape: run the two real methods on a bare layer object and observe (a) whether a get/set iq carrying a pending
    id leaves the request pending, (b) whether the entry is still registered while the callback runs."""
    return _run_probe(repo, _PROBE, "processIqRegistry")


def _reg_first(repo, rel, clsname):
    """does <clsname>._sendIq put the request into self.iqRegistry BEFORE handing it down?  Recognised shape:
    among the simple statements of the method (if/try/with flattened) exactly one `self.iqRegistry[k] = v`
    and exactly one statement calling self.toLower(..) / self.entityToLower(..), nothing else touching the
    registry; anything else raises (the caller then measures)."""
    tree = _parse(repo, rel)
    m = _method(_cls(tree, clsname, rel), "_sendIq", rel)
    reg, low = [], []
    for idx, st in enumerate(_leaves(m.body)):
        is_reg = isinstance(st, ast.Assign) and len(st.targets) == 1 and isinstance(st.targets[0], ast.Subscript) \
            and _is_self_attr(st.targets[0].value, "iqRegistry")
        touches = any(_is_self_attr(n, "iqRegistry") for n in ast.walk(st))
        if is_reg:
            reg.append(idx)
        elif touches:
            raise TranslateError("%s: %s._sendIq uses iqRegistry in an unrecognised way: %s"
                                 % (rel, clsname, ast.unparse(st)[:80]))
        if any(isinstance(n, ast.Call) and (_is_self_attr(n.func, "toLower") or _is_self_attr(n.func, "entityToLower"))
               for n in ast.walk(st)):
            low.append(idx)
    if len(reg) != 1 or len(low) != 1 or reg[0] == low[0]:
        raise TranslateError("%s: %s._sendIq: %d registrations, %d hand-downs" % (rel, clsname, len(reg), len(low)))
    return reg[0] < low[0]


_PROBE_SEND = r"""
import sys, json
import six, importlib.util
_imp = six._importer; _cls = type(_imp)
if not hasattr(_cls, 'find_spec'):
    _cls.find_spec = lambda self, fullname, path=None, target=None: importlib.util.spec_from_loader(fullname, self) if fullname in self.known_modules else None
    _cls.create_module = lambda self, spec: self.load_module(spec.name)
    _cls.exec_module = lambda self, module: None
if _imp not in sys.meta_path: sys.meta_path.append(_imp)
from yowsup.layers.protocol_iq.protocolentities import IqProtocolEntity
out = {}
def probe(make_layer, name):
    # a lower layer whose send() looks into the sender's registry: is the request already there?
    layer = make_layer()
    seen = []
    def lower(data, layer=layer, seen=seen):
        seen.append("x1" in layer.iqRegistry)
    layer.toLower = lower
    req = IqProtocolEntity("w", _id="x1", _type="get", to="s.whatsapp.net")
    layer._sendIq(req, lambda a, b: None, lambda a, b: None)
    if len(seen) != 1:
        raise SystemExit("_sendIq handed the request down %d times" % len(seen))
    if "x1" not in layer.iqRegistry:
        raise SystemExit("_sendIq did not register the request")
    out[name] = bool(seen[0])
from yowsup.layers import YowProtocolLayer
probe(lambda: YowProtocolLayer({}), "protocol")
from yowsup.layers.interface import YowInterfaceLayer
probe(lambda: YowInterfaceLayer(), "interface")
print("PROBE " + json.dumps(out))
"""


def _probe_send(repo):
    """Behavioural fallback for the registration order of the two _sendIq functions."""
    return _run_probe(repo, _PROBE_SEND, "_sendIq")


_PROBE_IQ = r"""
import sys, json
import six, importlib.util
_imp = six._importer; _cls = type(_imp)
if not hasattr(_cls, 'find_spec'):
    _cls.find_spec = lambda self, fullname, path=None, target=None: importlib.util.spec_from_loader(fullname, self) if fullname in self.known_modules else None
    _cls.create_module = lambda self, spec: self.load_module(spec.name)
    _cls.exec_module = lambda self, module: None
if _imp not in sys.meta_path: sys.meta_path.append(_imp)
from yowsup.structs import ProtocolTreeNode
from yowsup.layers.protocol_iq import YowIqProtocolLayer
from yowsup.layers.protocol_iq.protocolentities import PingIqProtocolEntity
def fresh():
    layer = YowIqProtocolLayer()
    layer.up, layer.down = [], []
    layer.toUpper = layer.up.append
    layer.toLower = layer.down.append
    return layer
def reply(ping, typ):
    ch = [ProtocolTreeNode("error", {"code": "404", "text": "item-not-found"})] if typ == "error" else []
    return ProtocolTreeNode("iq", {"id": ping.getId(), "type": typ, "from": "s.whatsapp.net"}, ch)
def ups(layer):
    r = [(e.getId(), e.getType()) for e in layer.up]; del layer.up[:]; return r
def queue(layer):
    return sorted(getattr(layer, "_pingQueue", {}))
out = {}
# a ping carried for the upper layers, no keep-alive outstanding
for typ in ("result", "error"):
    l = fresh(); a = PingIqProtocolEntity(); l.sendIq(a)
    if len(l.down) != 1 or a.getId() not in l.iqRegistry: raise SystemExit("sendIq(ping) does not register / send once")
    l.receive(reply(a, typ))
    out["forwards_%s_without_keepalive" % typ] = ups(l) == [(a.getId(), typ)] and a.getId() not in l.iqRegistry
# the same while a keep-alive ping (YowPingThread: waitPong, sendIq) is outstanding
for typ in ("result", "error"):
    l = fresh(); k = PingIqProtocolEntity(); l.waitPong(k.getId()); l.sendIq(k)
    a = PingIqProtocolEntity(); l.sendIq(a)
    l.receive(reply(a, typ))
    out["forwards_%s_with_keepalive_outstanding" % typ] = ups(l) == [(a.getId(), typ)] and a.getId() not in l.iqRegistry
    out["keepalive_still_waiting_after_other_%s" % typ] = queue(l) == [k.getId()] and k.getId() in l.iqRegistry
    l.receive(reply(k, "result"))
    out["own_pong_forwarded_after_other_%s" % typ] = ups(l) == [(k.getId(), "result")]
    out["own_pong_empties_queue_after_other_%s" % typ] = queue(l) == [] and k.getId() not in l.iqRegistry
# the keep-alive's pong first, then the other ping's
l = fresh(); k = PingIqProtocolEntity(); l.waitPong(k.getId()); l.sendIq(k); a = PingIqProtocolEntity(); l.sendIq(a)
l.receive(reply(k, "result")); first = ups(l)
l.receive(reply(a, "result")); second = ups(l)
out["own_pong_first_then_other"] = first == [(k.getId(), "result")] and second == [(a.getId(), "result")] and not l.iqRegistry
print("PROBE " + json.dumps(out))
"""


def _probe_iq_layer(repo):
    """Behavioural fallback for the callbacks of the iq layer (onPong / onPingError: must hand every consumed
    reply upward, whatever keep-alive ping is outstanding): -> (dict of observations, list of the false ones)"""
    res = _run_probe(repo, _PROBE_IQ, "YowIqProtocolLayer callbacks")
    return res, sorted(k for k, v in res.items() if not v)


def translate(repo=None):
    repo = repo or REPO
    routes, info = {}, {"leaves": 0, "callbacks_checked": 0}
    ping_leaf = None
    for lay, (rel, clsname) in LAYERS.items():
        tree = _parse(repo, rel)
        cls = _cls(tree, clsname, rel)
        hname = _iq_send_handler(cls, rel)
        if hname is None:
            continue
        m = _method(cls, hname, rel)
        if len(m.args.args) != 2:
            raise TranslateError("%s: %s.%s signature" % (rel, clsname, hname))
        param = m.args.args[1].arg
        leaves = []
        _walk(m.body, (), param, "%s:%s" % (rel, hname), leaves)
        handle = None
        if lay == "LGroups":
            for st in cls.body:
                if isinstance(st, ast.Assign) and any(isinstance(t, ast.Name) and t.id == "HANDLE" for t in st.targets):
                    if not isinstance(st.value, ast.Tuple) or not all(isinstance(e, ast.Name) for e in st.value.elts):
                        raise TranslateError("%s: HANDLE is not a tuple of class names" % rel)
                    handle = [e.id for e in st.value.elts]
            if handle is None:
                raise TranslateError("%s: HANDLE not found" % rel)
        for conds, act in leaves:
            info["leaves"] += 1
            key = (lay, conds)
            if key not in GUARDS:
                raise TranslateError("%s: unknown guard path %r" % (rel, conds))
            if act[0] == "reg":
                for cb in act[1:]:
                    if cb is not None:
                        try:
                            _check_forwarder(cls, cb, rel)
                        except TranslateError as e:
                            if lay != "LIq":
                                raise
                            # the iq layer's callbacks (gotPong + forward): measure instead of giving up, and
                            # keep the table -- a deviation is reported as a broken tie WITH the model still usable
                            res, bad = _probe_iq_layer(repo)
                            info["iq_layer_callbacks"] = "measured by probe (source shape not recognised: %s)" % e
                            if bad:
                                info["tie_broken"] = ("%s; probe of YowIqProtocolLayer: a consumed ping reply is NOT "
                                                      "handed upward / the keep-alive queue is not kept per id: %s"
                                                      % (e, ", ".join(bad)))
                        info["callbacks_checked"] += 1
                if act[1] is None:
                    raise TranslateError("%s: registration without success callback at %r" % (rel, conds))
            for k in GUARDS[key]:
                if lay == "LGroups" and GROUP_CLASSES[k] not in handle:
                    continue   # outer HANDLE guard is false for this class: not claimed
                if k in routes:
                    raise TranslateError("kind %s is claimed by two send handlers" % k)
                routes[k] = ("RReg %s %s %s" % (lay, "true", "true" if act[2] is not None else "false")) \
                    if act[0] == "reg" else "RFwd %s" % lay
                if k == "KPing":
                    ping_leaf = (lay, act)
    lib = {}
    hs, he = _single_sendiq(repo, "yowsup/layers/axolotl/layer_base.py", "AxolotlBaseLayer", "getKeysFor")
    for lk, lay in (("LKFetchCtl", "LCtl"), ("LKFetchSend", "LSend"), ("LKFetchRecv", "LRecv")):
        lib[lk] = (lay, hs, he)
    hs, he = _single_sendiq(repo, "yowsup/layers/axolotl/layer_control.py", "AxolotlControlLayer", "flush_keys")
    lib["LKUpload"] = ("LCtl", hs, he)
    hs, he = _single_sendiq(repo, "yowsup/layers/axolotl/layer_send.py", "AxolotlSendLayer", "sendToGroup")
    lib["LKGroupInfo"] = ("LSend", hs, he)
    if ping_leaf is None or ping_leaf[1][0] != "reg":
        raise TranslateError("the keep-alive ping is not registered by the iq layer")
    lib["LKPing"] = (ping_leaf[0], True, ping_leaf[1][2] is not None)
    probed = None
    try:
        strict, late = _strict(repo, "yowsup/layers/__init__.py", "YowProtocolLayer")
    except TranslateError as e:
        probed = _probe_registry(repo)
        strict, late = probed["protocol"]
        info["registry_flags_protocol"] = "measured by probe (source shape not recognised: %s)" % e
    try:
        strict_i, late_i = _strict(repo, "yowsup/layers/interface/interface.py", "YowInterfaceLayer")
    except TranslateError as e:
        probed = probed or _probe_registry(repo)
        strict_i, late_i = probed["interface"]
        info["registry_flags_interface"] = "measured by probe (source shape not recognised: %s)" % e
    sprobed = None
    try:
        regf = _reg_first(repo, "yowsup/layers/__init__.py", "YowProtocolLayer")
    except TranslateError as e:
        sprobed = _probe_send(repo)
        regf = sprobed["protocol"]
        info["register_before_send_protocol"] = "measured by probe (source shape not recognised: %s)" % e
    try:
        regf_i = _reg_first(repo, "yowsup/layers/interface/interface.py", "YowInterfaceLayer")
    except TranslateError as e:
        sprobed = sprobed or _probe_send(repo)
        regf_i = sprobed["interface"]
        info["register_before_send_interface"] = "measured by probe (source shape not recognised: %s)" % e
    info.update({"routes": {k: routes.get(k, "RNone") for k in AKINDS},
                 "lib": {k: list(v) for k, v in lib.items()}, "strict_reply": strict,
                 "strict_iface": strict_i, "late_delete": late, "late_delete_iface": late_i,
                 "register_before_send": regf, "register_before_send_iface": regf_i})
    return routes, lib, (strict, strict_i, late, late_i, regf, regf_i), info


def _b(x):
    return "true" if x else "false"


def render(routes, lib, flags, note):
    o = ["(* GENERATED by harness/translators/c08_table.py from the layers' source -- do not edit.",
         "   %s *)" % note,
         "From YV Require Import Common.Tac C08.C08Model.", "",
         "Definition gen_route (k : akind) : route :=", "  match k with"]
    for k in AKINDS:
        o.append("  | %s => %s" % (k, routes.get(k, "RNone")))
    o += ["  end.", "", "Definition gen_lib_route (lk : lkind) : layer * (bool * bool) :=", "  match lk with"]
    for lk in ["LKFetchCtl", "LKFetchSend", "LKFetchRecv", "LKUpload", "LKGroupInfo", "LKPing"]:
        lay, hs, he = lib[lk]
        o.append("  | %s => (%s, (%s, %s))" % (lk, lay, _b(hs), _b(he)))
    o += ["  end.", "",
          "(* strict_reply strict_iface late_delete late_delete_iface reg_first reg_first_iface",
          "   (reg_first* = register_before_send: _sendIq puts the request into iqRegistry before toLower) *)",
          "Definition gen_cfg : cfg := mkcfg gen_route gen_lib_route %s." % " ".join(_b(f) for f in flags), ""]
    return "\n".join(o)


def _write(text):
    os.makedirs(os.path.dirname(OUT), exist_ok=True)
    old = open(OUT).read() if os.path.exists(OUT) else None
    if old != text:
        with open(OUT, "w") as f:
            f.write(text)


def regenerate(repo=None):
    """writes coq/Gen/C08Table.v; returns the info dict; raises TranslateError after writing a stub"""
    try:
        routes, lib, flags, info = translate(repo)
    except TranslateError as e:
        stub_lib = {lk: ("LCtl", False, False) for lk in
                    ["LKFetchCtl", "LKFetchSend", "LKFetchRecv", "LKUpload", "LKGroupInfo", "LKPing"]}
        _write(render({}, stub_lib, (False, False, False, False, False, False), "STUB: source not recognised: %s" % str(e).replace("*)", "* )")))
        raise
    _write(render(routes, lib, flags, "repo: %s" % (repo or REPO)))
    return info
