"""C16 rig: the real network / segments / noise / coder / auth / iq / interface layers over a fake
connection dispatcher, with probe layers at every position, the stack's deferred-event queue
drained one callback at a time and the keep-alive thread driven tick by tick.

Stack (bottom -> top):
  0 YowNetworkLayer              (real)       fake dispatcher substituted in its module namespace
  1 probe P0                                   directly above the network layer
  2 YowNoiseSegmentsLayer        (real)
  3 YowNoiseLayer                (real)       consonance handshake worker replaced by FakeWorker:
                                               same state-machine transitions on the real
                                               WANoiseProtocol, real WANoiseTransport over identity ciphers
  4 YowCoderLayer                (real)
  5 probe P1                                   directly below the axolotl control layer
  6 AxolotlControlLayer          (real)       where YowStackBuilder.getDefaultLayers puts it (above the core layers,
                                               below the protocol group); real YowProfile -> AxolotlManagerFactory ->
                                               AxolotlManager -> SQLite store in a scratch profile directory
  7 YowParallelLayer(YowAuthenticationProtocolLayer, YowIqProtocolLayer, probe P2)   (real)   P2 is above the control layer
  8 YowInterfaceLayer            (real)
  9 probe P3 = the application: records events and entities
(the axolotl send/receive pair of the default stack is not in the rig: it does not react to connection events
beyond storing / dropping the manager reference.)

Observations are tuples (observer, item): observer 0..3 = probes, 4 = dispatcher calls,
5 = noise handshake worker, 6 = application entities, 7 = exceptions escaping an entry point.
"""
import threading, struct, os, shutil, io, contextlib, itertools

OBS_DISP, OBS_NOISE, OBS_APP, OBS_EXC = 4, 5, 6, 7

# event kinds seen by probes
EV_CONNECT, EV_DISCONNECT, EV_CONNECTED, EV_DISCONNECTED, EV_AUTH, EV_AUTHED = 0, 1, 2, 3, 4, 5
# reasons
R_NONE, R_AUTHFAIL, R_PING, R_OTHER = 0, 1, 2, 3
REASONS = {None: R_NONE, "": R_NONE, "Authentication Failure": R_AUTHFAIL, "Ping Timeout": R_PING}
# dispatcher call kinds
D_CREATE, D_CONNECT, D_DISCONNECT, D_WRITE = 0, 1, 2, 3
# write classes
W_HEADER, W_PING, W_APP, W_OTHER, W_KEYS = 0, 1, 2, 3, 4
# application entity kinds
A_SUCCESS, A_FAILURE, A_STREAMERROR, A_PONG, A_OTHER = 0, 1, 2, 3, 4
KINDS = ["conflict", "ack", "xml-not-well-formed"]

TIMEOUT = 20.0


class RigError(Exception):
    pass


class FakeDispatcher(object):
    """Contract (what AsyncoreConnectionDispatcher, the default, does): connect() calls onConnecting();
    disconnect() closes and synchronously calls onDisconnected(), also when already closed."""

    def __init__(self, rig, callbacks):
        self.rig = rig
        self.cb = callbacks
        self.phase = "new"      # new -> connecting -> up -> closed
        self.idx = len(rig.dispatchers)
        self.raw = bytearray()
        rig.dispatchers.append(self)
        rig.obs(OBS_DISP, (D_CREATE,))

    def connect(self, endpoint):
        self.rig.obs(OBS_DISP, (D_CONNECT,))
        self.phase = "connecting"
        self.cb.onConnecting()

    def disconnect(self):
        self.rig.obs(OBS_DISP, (D_DISCONNECT,))
        self.phase = "closed"
        self.cb.onDisconnected()

    def sendData(self, data):
        self.rig.on_write(self, bytes(data))


class IdCipher(object):
    def encrypt_with_ad(self, ad, pt):
        return bytes(pt)

    def decrypt_with_ad(self, ad, ct):
        return bytes(ct)


class Rig(object):
    def __init__(self, repo_mods, reconnect_opt=True, passive=False, ping=True, reconnect_prop_set=True,
                 unsent=False):
        m = repo_mods
        self.m = m
        self.trace = []          # current step's observations
        self.dispatchers = []
        self.workers = []
        self.ping_threads = []
        self.ping_ids = []       # real ping id -> ordinal = index
        self.app_seq = 0
        self.down_writes = []    # property oracle: writes to a dispatcher that is not up
        self.write_log = []      # (dispatcher index, its phase at the write, bytes) for every sendData
        self.keys_pending = None # (dispatcher index, stanza id) of the unanswered set-keys iq, if any
        self.keys_uploads = 0
        self.store_dirty = False
        rig = self

        YowLayer = m["YowLayer"]

        class Probe(YowLayer):
            POS = None

            def onEvent(self, ev):
                rig.on_probe_event(self.POS, ev)
                return False

        class P0(Probe):
            POS = 0

        class P1(Probe):
            POS = 1

        class P2(Probe):
            POS = 2

            def send(self, data):     # sublayer of the parallel group: must not duplicate data
                pass

            def receive(self, data):
                pass

        class P3(Probe):
            POS = 3

            def receive(self, entity):
                rig.on_app_entity(entity)

        class Disp(FakeDispatcher):
            def __init__(self, callbacks):
                FakeDispatcher.__init__(self, rig, callbacks)

        class Worker(object):
            """Stands for WANoiseProtocolHandshakeWorker: run() = protocol.reset(); protocol.start(...)
            which enters STATE_HANDSHAKE and blocks on the server hello."""

            def __init__(self, proto, stream, client_config, s, rs=None, finish_callback=None):
                self.proto, self.stream, self.cfg, self.cb = proto, stream, client_config, finish_callback
                self.done = False
                rig.workers.append(self)

            def start(self):
                rig.obs(OBS_NOISE, (1 if self.cfg.passive else 0,))
                self.proto.reset()
                self.proto._machine.start()

            def finish(self):
                from consonance.transport import WANoiseTransport
                self.done = True
                self.proto._transport = WANoiseTransport(self.stream, IdCipher(), IdCipher())
                self.proto._machine.finish()
                if self.cb is not None:
                    self.cb(None)

        RealPing = m["YowPingThread"]
        self.RealPing = RealPing
        orig_run, orig_start = RealPing.run, RealPing.start

        class TS(object):          # per-thread harness state
            def __init__(self):
                self.go = threading.Semaphore(0)
                self.back = threading.Semaphore(0)
                self.state = "new"      # new, sleeping, running, dead
                self.exc = None
                self.synced = False     # driver has consumed the "reached first sleep / died" signal

        def c16_start(th):
            th._c16 = TS()
            rig.ping_threads.append(th)
            return orig_start(th)

        def c16_run(th):
            try:
                orig_run(th)
            except BaseException as e:      # reported by the driver
                th._c16.exc = e
            finally:
                th._c16.state = "dead"
                th._c16.back.release()

        def c16_wait(th):
            ts = th._c16
            ts.state = "sleeping"
            ts.back.release()
            if not ts.go.acquire(timeout=TIMEOUT * 50):
                raise RigError("ping thread never released")
            ts.state = "running"

        class FakeTime(object):
            def __getattr__(self, name):
                import time as _t
                return getattr(_t, name)

            def sleep(self, secs):
                th = threading.current_thread()
                if isinstance(th, RealPing) and hasattr(th, "_c16"):
                    c16_wait(th)
                # any other caller: no delay

        RealPingEntity = m["iqmod"].PingIqProtocolEntity

        class CountingPing(RealPingEntity):
            """records the creation order of ping entities: ordinal = index in rig.ping_ids"""

            def __init__(self, *a, **kw):
                RealPingEntity.__init__(self, *a, **kw)
                rig.ping_ids.append(self.getId())

        self._class_patches = [(RealPing, "run", orig_run), (RealPing, "start", orig_start)]
        RealPing.run = c16_run
        RealPing.start = c16_start

        self.netmod, self.noisemod, self.iqmod = m["netmod"], m["noisemod"], m["iqmod"]
        self._saved = [(self.netmod, "AsyncoreConnectionDispatcher", self.netmod.AsyncoreConnectionDispatcher),
                       (self.netmod, "SocketConnectionDispatcher", self.netmod.SocketConnectionDispatcher),
                       (self.noisemod, "WANoiseProtocolHandshakeWorker", self.noisemod.WANoiseProtocolHandshakeWorker),
                       (self.iqmod, "time", self.iqmod.time),
                       (self.iqmod, "PingIqProtocolEntity", self.iqmod.PingIqProtocolEntity)]
        self.netmod.AsyncoreConnectionDispatcher = Disp
        self.netmod.SocketConnectionDispatcher = Disp
        self.noisemod.WANoiseProtocolHandshakeWorker = Worker
        self.iqmod.time = FakeTime()
        self.iqmod.PingIqProtocolEntity = CountingPing
        # the real thread class asserts `type(layer) is YowIqProtocolLayer`: unchanged, the layer is real

        props = {m["YowIqProtocolLayer"].PROP_PING_INTERVAL: 1 if ping else 0,
                 m["YowAuthenticationProtocolLayer"].PROP_PASSIVE: passive,
                 }
        self.profile, self.profile_dir, self._store_stat = m["stores"].acquire(unsent)
        props["profile"] = self.profile
        if reconnect_prop_set:
            props[m["YowInterfaceLayer"].PROP_RECONNECT_ON_STREAM_ERR] = reconnect_opt
        self.queue = m["YowStack"]._YowStack__detachedQueue
        self.drain_all(run=False)
        layers = (m["YowNetworkLayer"], P0, m["YowNoiseSegmentsLayer"], m["YowNoiseLayer"], m["YowCoderLayer"], P1,
                  m["AxolotlControlLayer"],
                  m["YowParallelLayer"]((m["YowAuthenticationProtocolLayer"], m["YowIqProtocolLayer"], P2)),
                  m["YowInterfaceLayer"], P3)
        self.stack = m["YowStack"](layers, reversed=False, props=props)
        self.net = self.stack.getLayer(0)
        self.noise = self.stack.getLayer(3)
        self.ctl = self.stack.getLayer(6)
        self.group = self.stack.getLayer(7)
        self.iface = self.stack.getLayer(8)
        self.iq = [x for x in self.group.sublayers if type(x) is m["YowIqProtocolLayer"]][0]
        self.encoder = m["WriteEncoder"](m["TokenDictionary"]())
        self.decoder = m["ReadDecoder"](m["TokenDictionary"]())

    # ------------------------------------------------------------------ teardown
    def close(self):
        for th in self.ping_threads:
            th.stop()
        for th in self.ping_threads:
            self._release_thread(th, final=True)
        for mod, name, val in self._saved + self._class_patches:
            setattr(mod, name, val)
        self.drain_all(run=False)
        self.m["stores"].release(self)

    def drain_all(self, run=False):
        q = self.m["YowStack"]._YowStack__detachedQueue
        while True:
            try:
                cb = q.get(False)
            except Exception:
                break
            if run:
                cb()

    # ------------------------------------------------------------------ observation
    def obs(self, who, item):
        self.trace.append((who, tuple(item)))

    def on_probe_event(self, pos, ev):
        N = self.m["YowNetworkLayer"]
        A = self.m["YowAuthenticationProtocolLayer"]
        name = ev.getName()
        if name == N.EVENT_STATE_CONNECT:
            it = (EV_CONNECT, 0)
        elif name == N.EVENT_STATE_DISCONNECT:
            it = (EV_DISCONNECT, REASONS.get(ev.getArg("reason"), R_OTHER))
        elif name == N.EVENT_STATE_CONNECTED:
            it = (EV_CONNECTED, 0)
        elif name == N.EVENT_STATE_DISCONNECTED:
            it = (EV_DISCONNECTED, REASONS.get(ev.getArg("reason"), R_OTHER))
        elif name == A.EVENT_AUTH:
            it = (EV_AUTH, 1 if ev.getArg("passive") else 0)
        elif name == A.EVENT_AUTHED:
            it = (EV_AUTHED, 1 if ev.getArg("passive") else 0)
        else:
            it = (9, 0)
        self.obs(pos, it)

    def on_app_entity(self, entity):
        tag = entity.getTag()
        if tag == "success":
            self.obs(OBS_APP, (A_SUCCESS, 0))
        elif tag == "failure":
            self.obs(OBS_APP, (A_FAILURE, 0))
        elif tag == "stream:error":
            k = entity.getErrorType()
            self.obs(OBS_APP, (A_STREAMERROR, KINDS.index(k) if k in KINDS else 9))
        elif tag == "iq" and entity.getId() in self.ping_ids and entity.getType() == "result":
            self.obs(OBS_APP, (A_PONG, self.ping_ids.index(entity.getId())))
        else:
            self.obs(OBS_APP, (A_OTHER, 0))

    def on_write(self, disp, data):
        """classify a write; the segment layer sends a 3-byte length then the frame"""
        # every sendData, with the phase of THAT dispatcher instance (new = requested, connecting, up, closed = down)
        self.write_log.append((disp.idx, disp.phase, len(data)))
        if disp.phase != "up":
            self.down_writes.append((disp.idx, disp.phase, data[:16].hex()))
        if data == self.m["YowNoiseLayer"].HEADER and not disp.raw:
            self.obs(OBS_DISP, (D_WRITE, W_HEADER, 0, 1 if disp.phase == "up" else 0))
            return
        disp.raw.extend(data)
        while len(disp.raw) >= 3:
            n = struct.unpack(">I", b"\x00" + bytes(disp.raw[:3]))[0]
            if len(disp.raw) < 3 + n:
                break
            frame = bytes(disp.raw[3:3 + n])
            del disp.raw[:3 + n]
            up = 1 if disp.phase == "up" else 0
            try:
                node = self.decoder.getProtocolTreeNode(bytearray(frame))
            except Exception:
                node = None
            if node is not None and node.tag == "iq" and node["xmlns"] == "w:p":
                i = self.ping_ids.index(node["id"]) if node["id"] in self.ping_ids else 999
                self.obs(OBS_DISP, (D_WRITE, W_PING, i, up))
            elif node is not None and node.tag == "iq" and node["xmlns"] == "encrypt" and node["type"] == "set":
                self.keys_uploads += 1
                if up:
                    self.keys_pending = (disp.idx, node["id"])
                self.obs(OBS_DISP, (D_WRITE, W_KEYS, 0, up))
            elif node is not None and node.tag == "iq" and (node["id"] or "").startswith("c16app"):
                self.obs(OBS_DISP, (D_WRITE, W_APP, 0, up))
            else:
                self.obs(OBS_DISP, (D_WRITE, W_OTHER, 0, up))

    # ------------------------------------------------------------------ state queries (public API only)
    def cur(self):
        return self.dispatchers[-1] if self.dispatchers else None

    def noise_state(self):
        return self.noise._wa_noiseprotocol.state     # consonance public property

    def passive_prop(self):
        return bool(self.stack.getProp(self.m["YowAuthenticationProtocolLayer"].PROP_PASSIVE, False))

    def store_has_unsent(self):
        with contextlib.redirect_stdout(io.StringIO()):
            return len(self.profile.axolotl_manager.load_unsent_prekeys()) > 0

    def keys_answerable(self):
        d = self.cur()
        return self.keys_pending is not None and d is not None and d.idx == self.keys_pending[0] and \
            self.stanza_enabled()

    def live_ping_threads(self):
        return [t for t in self.ping_threads if t._c16.state != "dead"]

    # ------------------------------------------------------------------ driving
    def _guard(self, fn):
        try:
            fn()
        except RigError:
            raise
        except Exception as e:
            self.obs(OBS_EXC, (type(e).__name__,))

    def _sync(self, th):
        ts = th._c16
        if not ts.synced and th.ident is not None:
            if not ts.back.acquire(timeout=TIMEOUT):
                raise RigError("ping thread did not reach its first sleep")
            ts.synced = True

    def _release_thread(self, th, final=False):
        ts = th._c16
        if th.ident is None:
            return
        self._sync(th)
        if ts.state == "dead":
            return
        ts.go.release()
        if not ts.back.acquire(timeout=TIMEOUT):
            raise RigError("ping thread did not come back (blocked inside the stack?)")
        if ts.exc is not None:
            self.obs(OBS_EXC, (type(ts.exc).__name__,))
            ts.exc = None

    def deliver(self, node):
        """server -> client: one stanza through the fake connection (handshake completed first)"""
        d = self.cur()
        w = self.workers[-1] if self.workers else None
        if w is not None and not w.done and self.noise_state() == "handshake":
            w.finish()
        data = self.encoder.protocolTreeNodeToBytes(node)
        data = bytes(bytearray(data))
        wire = struct.pack(">I", len(data))[1:] + data
        d.cb.onRecvData(wire)

    def stanza_enabled(self):
        d = self.cur()
        return d is not None and d.phase == "up" and self.noise_state() in ("handshake", "transport")

    def step(self, ev):
        # AxolotlManager.level_prekeys writes progress to sys.stdout when its logger has no level
        with contextlib.redirect_stdout(io.StringIO()):
            return self._step(ev)

    def _step(self, ev):
        """run one history event; returns (enabled, observations).  Events that are not enabled by the
        environment (e.g. data on a closed socket) are skipped and return (False, [])."""
        self.trace = []
        m = self.m
        Node = m["ProtocolTreeNode"]
        kind = ev[0]
        d = self.cur()
        en = True
        if kind == "connect_req":
            self._guard(lambda: self.stack.broadcastEvent(m["YowLayerEvent"](m["YowNetworkLayer"].EVENT_STATE_CONNECT)))
        elif kind == "connect_call":
            self._guard(lambda: self.iface.connect())
        elif kind == "disconnect_req":
            self._guard(lambda: self.iface.disconnect())
        elif kind == "disp_connected":
            if d is not None and d.phase == "connecting":
                d.phase = "up"
                self.keys_pending = None      # nothing has been sent on the new connection yet
                self._guard(d.cb.onConnected)
            else:
                en = False
        elif kind == "sock_error":
            if d is not None and d.phase in ("connecting", "up", "closed"):
                d.phase = "closed"
                self._guard(lambda: d.cb.onConnectionError(OSError("c16")))
            else:
                en = False
        elif kind == "peer_close":
            if d is not None and d.phase in ("connecting", "up", "closed"):
                d.phase = "closed"
                self._guard(d.cb.onDisconnected)
            else:
                en = False
        elif kind in ("success", "failure", "stream_error", "pong"):
            if not self.stanza_enabled():
                en = False
            elif kind == "success":
                self._guard(lambda: self.deliver(Node("success", {"t": "1", "creation": "2", "props": "3",
                                                                    "location": "atn"})))
            elif kind == "failure":
                self._guard(lambda: self.deliver(Node("failure", {"reason": "401"})))
            elif kind == "stream_error":
                k = KINDS[ev[1]]
                ch = [Node(k)] + ([Node("text", data=b"Replaced by new connection")] if k == "conflict" else [])
                self._guard(lambda: self.deliver(Node("stream:error", {}, ch)))
            else:
                i = ev[1]
                pid = self.ping_ids[i] if i < len(self.ping_ids) else "c16-unknown-%d" % i
                self._guard(lambda: self.deliver(Node("iq", {"type": "result", "id": pid,
                                                               "from": "s.whatsapp.net"})))
        elif kind in ("keys_result", "keys_error"):
            if not self.keys_answerable():
                en = False
            else:
                kid = self.keys_pending[1]
                self.keys_pending = None
                self.store_dirty = True
                n = Node("iq", {"type": "result" if kind == "keys_result" else "error", "id": kid,
                                "from": "s.whatsapp.net"})
                if kind == "keys_error":
                    n.addChild(Node("error", {"code": "500", "text": "internal-server-error"}))
                self._guard(lambda: self.deliver(n))
        elif kind == "tick":
            # one keep-alive interval elapses: every ping thread wakes once (stopped ones exit silently)
            for th in self.live_ping_threads():
                self._release_thread(th)
        elif kind == "app_send":
            self.app_seq += 1
            ent = m["IqProtocolEntity"]("w", _id="c16app%d" % self.app_seq, _type="get", to="s.whatsapp.net")
            self._guard(lambda: self.iface.send(ent))
        elif kind == "loop":
            try:
                cb = self.queue.get(False)
            except Exception:
                en = False
            else:
                self._guard(cb)
        else:
            raise RigError("unknown event %r" % (ev,))
        # threads created in this step run up to their first sleep
        for th in self.ping_threads:
            self._sync(th)
        return en, list(self.trace)


class StorePool(object):
    """Profile directories with a prepared axolotl store, in the scratch directory of the run.  Two templates
    are built once with the real manager (COUNT_GEN_PREKEYS small but not below THRESHOLD_REGEN, so that a later
    CONNECTED does not generate again): `unsent` = one-time prekeys generated and never uploaded (what a fresh
    registration leaves behind), `sent` = the same with every prekey marked as sent.  A history that did not
    write to its store returns its directory to the pool."""
    BATCH = 12

    def __init__(self, scratch, make_profile, manager_cls):
        self.scratch = os.path.join(scratch, "c16-stores-%d" % os.getpid())
        shutil.rmtree(self.scratch, ignore_errors=True)
        os.makedirs(self.scratch)
        self.make_profile, self.M = make_profile, manager_cls
        self.templates, self.free = {}, {True: [], False: []}
        self.n = 0

    def _template(self, unsent):
        if unsent in self.templates:
            return self.templates[unsent]
        d = os.path.join(self.scratch, "tpl-unsent" if unsent else "tpl-sent")
        os.makedirs(d)
        saved = self.M.COUNT_GEN_PREKEYS
        self.M.COUNT_GEN_PREKEYS = max(self.BATCH, self.M.THRESHOLD_REGEN)
        try:
            with contextlib.redirect_stdout(io.StringIO()):
                mgr = self.make_profile(d).axolotl_manager
                mgr.level_prekeys()
                mgr.load_latest_signed_prekey(generate=True)
                if not unsent:
                    mgr.set_prekeys_as_sent(mgr.load_unsent_prekeys())
        finally:
            self.M.COUNT_GEN_PREKEYS = saved
        del mgr
        self.templates[unsent] = d
        return d

    @staticmethod
    def _stat(d):
        st = os.stat(os.path.join(d, "axolotl.db"))
        return (st.st_size, st.st_mtime_ns)

    def acquire(self, unsent):
        unsent = bool(unsent)
        if self.free[unsent]:
            d = self.free[unsent].pop()
        else:
            tpl = self._template(unsent)
            self.n += 1
            d = os.path.join(self.scratch, "s%d" % self.n)
            shutil.copytree(tpl, d)
        return self.make_profile(d), d, (unsent, self._stat(d))

    def release(self, rig):
        unsent, stat = rig._store_stat
        d = rig.profile_dir
        rig.profile = None
        try:
            clean = not rig.store_dirty and self._stat(d) == stat
        except OSError:
            clean = False
        if clean:
            self.free[unsent].append(d)
        else:
            shutil.rmtree(d, ignore_errors=True)

    def close(self):
        shutil.rmtree(self.scratch, ignore_errors=True)


def load_repo_mods(scratch=None):
    import yowsup.layers as L
    import yowsup.layers.network.layer as netmod
    import yowsup.layers.noise.layer as noisemod
    import yowsup.layers.protocol_iq.layer as iqmod
    from yowsup.layers.noise.layer_noise_segments import YowNoiseSegmentsLayer
    from yowsup.layers.coder.layer import YowCoderLayer
    from yowsup.layers.coder.encoder import WriteEncoder
    from yowsup.layers.coder.decoder import ReadDecoder
    from yowsup.layers.coder.tokendictionary import TokenDictionary
    from yowsup.layers.auth.layer_authentication import YowAuthenticationProtocolLayer
    from yowsup.layers.interface.interface import YowInterfaceLayer
    from yowsup.layers.protocol_iq.protocolentities import IqProtocolEntity
    from yowsup.stacks.yowstack import YowStack
    from yowsup.structs import ProtocolTreeNode
    from yowsup.profile.profile import YowProfile
    from yowsup.config.v1.config import Config
    from consonance.structs.keypair import KeyPair

    from yowsup.layers.axolotl.layer_control import AxolotlControlLayer
    from yowsup.axolotl.manager import AxolotlManager
    import tempfile

    kp = KeyPair.generate()

    def make_profile(directory):
        return YowProfile(directory, Config(phone="4915200000000", client_static_keypair=kp))

    if scratch is None:
        scratch = tempfile.mkdtemp(prefix="c16rig-")
    stores = StorePool(scratch, make_profile, AxolotlManager)

    return {"YowLayer": L.YowLayer, "YowLayerEvent": L.YowLayerEvent, "YowParallelLayer": L.YowParallelLayer,
            "netmod": netmod, "noisemod": noisemod, "iqmod": iqmod,
            "YowNetworkLayer": netmod.YowNetworkLayer, "YowNoiseLayer": noisemod.YowNoiseLayer,
            "YowNoiseSegmentsLayer": YowNoiseSegmentsLayer, "YowCoderLayer": YowCoderLayer,
            "WriteEncoder": WriteEncoder, "ReadDecoder": ReadDecoder, "TokenDictionary": TokenDictionary,
            "YowAuthenticationProtocolLayer": YowAuthenticationProtocolLayer,
            "YowIqProtocolLayer": iqmod.YowIqProtocolLayer, "YowPingThread": iqmod.YowPingThread,
            "YowInterfaceLayer": YowInterfaceLayer, "IqProtocolEntity": IqProtocolEntity,
            "YowStack": YowStack, "ProtocolTreeNode": ProtocolTreeNode, "make_profile": make_profile,
            "AxolotlControlLayer": AxolotlControlLayer, "AxolotlManager": AxolotlManager, "stores": stores}
