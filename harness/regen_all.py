"""Run every translator once (setup).  Each check re-runs the ones it depends on."""
import importlib, pkgutil, os, sys
from . import env


def main():
    env.setup()
    tdir = os.path.join(os.path.dirname(__file__), "translators")
    if not os.path.isdir(tdir):
        return
    for m in sorted(pkgutil.iter_modules([tdir])):
        mod = importlib.import_module("harness.translators." + m.name)
        if hasattr(mod, "regenerate"):
            try:
                mod.regenerate()
            except Exception as e:  # fail closed inside checks; setup only reports
                print("translator %s: %s" % (m.name, e))


if __name__ == "__main__":
    main()
