"""Source of MANIFEST.json (python -m harness.mkmanifest).  One entry per claimed property."""

CLAIMED = {
    "C05": dict(
        technique="Coq proof (induction on chunk list over an executable Gallina model) + differential correspondence with the real layer",
        text="Coq theorems C05_prefix / C05_reassembly / C05_send_format / C05_send_refuses / C05_passthrough over a "
             "Gallina model of YowNoiseSegmentsLayer, for all frame lists, all chunkings and all prefixes (no size bound "
             "beyond the format's 2^24). The model is tied to the code on every run by running the extracted model and the "
             "real layer on the same chunkings (exhaustive for short streams) and diffing frames and buffer.",
        design_ref="DESIGN.md section 4, C05",
        note="Trusted: Coq kernel, extraction (ExtrOcamlBasic only), ocaml/sxdriver.ml, the differential harness. "
             "Modelled not verified: Python bytes/bytearray slicing and struct.pack. Closed under the global context.",
        engines=["coq", "model-runner"]),
}

NOT_YET = {}
