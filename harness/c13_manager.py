"""C13 — manager-level histories: conversations continue across restarts of either party.

Two or three parties, each a real `AxolotlManager` on a real `LiteAxolotlStore` on its own SQLite
file, talking to each other directly (ciphertexts handed over in memory): first contact by prekey
message, replies, group sender keys, restart of either party at any point (connection closed
without commit = what process exit does, store and manager rebuilt from the file), a party
re-installing (fresh store, new identity), and the exceptional paths of every manager entry point:
duplicate message, corrupted ciphertext, unknown prekey id, no session, changed identity with
auto-trust off (the exception surfaces) and on (trust_identity + retry, as AxolotlReceivelayer does)
— each followed by further traffic and restarts.

Oracles (on the implementation only; no model involved):
* DURABLE IS LIVE, after every manager / store call of every party: a copy of the party's database
  file (+ -journal / -wal) opened by a fresh connection holds exactly what the party's live
  connection returns, and the live connection has no transaction open.  A difference = the call left
  a write transaction open: whatever was written since is lost when the process dies.  The history is
  then continued, every party is restarted at its end, and the records lost / reverted are reported.
* after every restart all tables equal what the live connection held before it;
* the conversation: every message is delivered with the right plaintext or refused with exactly the
  expected exception (a small model of who has a session / pinned identity / sender key with whom
  says which), also after restarts.

The manager's random padding length is fixed (python-axolotl cannot decrypt plaintexts whose padded
length is a multiple of 16; unrelated to the store) and plaintext lengths avoid that case.
`sqlite3` in liteaxolotlstore's namespace is replaced by a shim that hands out REAL connections and
remembers them per file, so that the live view is taken on the very connection the stores use even
when the store wraps it.
"""
import contextlib, io, json, os, shutil, sqlite3 as real_sqlite3

PARTIES = ["4915100000001", "4915100000002", "4915100000003"]
GROUP = "4915100000001-1500000000@g.us"
PAD = 5
NPREKEYS = 24


class _FixedRandom(object):
    def __getattr__(self, name):
        import random
        return getattr(random, name)

    def randint(self, a, b):
        return PAD


class _Shim(object):
    def __init__(self, world):
        self._w = world

    def connect(self, path, *a, **kw):
        c = real_sqlite3.connect(path, *a, **kw)
        c.execute("PRAGMA synchronous=OFF")      # no fsync: crashes are simulated by copying files, not by power loss
        self._w.conns[os.path.abspath(path)] = c
        return c

    def __getattr__(self, name):
        return getattr(real_sqlite3, name)


def dump(conn):
    out = {}
    names = [r[0] for r in conn.execute("SELECT name FROM sqlite_master WHERE type='table' ORDER BY name").fetchall()]
    for n in names:
        n = n.decode() if isinstance(n, bytes) else n
        if n.startswith("sqlite_"):
            continue
        cols = [(r[1].decode() if isinstance(r[1], bytes) else r[1]) for r in conn.execute("PRAGMA table_info(%s)" % n).fetchall()]
        keep = [c for c in cols if c != "_id"]
        out[n] = [tuple(r) for r in conn.execute("SELECT %s FROM %s ORDER BY rowid" % (", ".join(keep), n)).fetchall()]
    return out


def diff_dumps(live, dur):
    """records that a process death right now would lose / revert: [(table, key-ish first column, what)]"""
    out = []
    for t in sorted(set(live) | set(dur)):
        a = dict((r[0], r[1:]) for r in live.get(t, []))
        b = dict((r[0], r[1:]) for r in dur.get(t, []))
        for k in sorted(set(a) | set(b), key=repr):
            if k not in b:
                out.append([t, _s(k), "lost (present in the process, absent after a restart)"])
            elif k not in a:
                out.append([t, _s(k), "comes back (removed in the process, present again after a restart)"])
            elif a[k] != b[k]:
                out.append([t, _s(k), "reverted to its previous value after a restart"])
    return out


def _s(x):
    if isinstance(x, (bytes, bytearray)):
        try:
            t = bytes(x).decode("ascii")
            if t.isprintable():
                return t[:40]
        except Exception:
            pass
        return bytes(x)[:12].hex()
    return str(x)


class Party(object):
    def __init__(self, name, gen, path):
        self.name, self.gen, self.path = name, gen, path
        self.store = self.manager = self.conn = None


class World(object):
    def __init__(self, scratch, tag="m"):
        import yowsup.axolotl.manager as mm
        import yowsup.axolotl.store.sqlite.liteaxolotlstore as las
        self.mm, self.las = mm, las
        self.dir = os.path.join(scratch, "c13-mgr-%s" % tag)
        shutil.rmtree(self.dir, ignore_errors=True)
        os.makedirs(self.dir)
        self.conns = {}
        self._saved = (mm.random, las.sqlite3)
        mm.random = _FixedRandom()
        las.sqlite3 = _Shim(self)
        self.parties = {}
        self.problems = []          # (oracle name, detail)
        self.open_tx = {}           # party -> first detail of "durable is not live"
        self.counter = 0
        self.calls = 0
        self.checks = 0
        # the small model of the conversation state
        self.pair_ok = {}           # frozenset({x, y}) -> True when both hold a working session
        self.pin = {}               # (holder, contact) -> generation of contact's identity the holder pinned
        self.nextpk = {}            # party -> next unused one-time prekey id
        self.gok = set()            # (group, sender, receiver, sender generation): receiver holds sender's key

    # ---- life cycle
    def close(self):
        self.mm.random, self.las.sqlite3 = self._saved
        for c in self.conns.values():
            try:
                c.close()
            except Exception:
                pass
        shutil.rmtree(self.dir, ignore_errors=True)

    def _open(self, p):
        p.store = self.las.LiteAxolotlStore(p.path)
        p.conn = self.conns[os.path.abspath(p.path)]
        p.manager = self.mm.AxolotlManager(p.store, p.name)

    def install(self, name):
        old = self.parties.get(name)
        gen = old.gen + 1 if old else 1
        if old is not None and old.conn is not None:
            old.conn.close()
        p = Party(name, gen, os.path.join(self.dir, "%s-%d.db" % (name, gen)))
        self.parties[name] = p
        self._open(p)
        # the one-time prekeys are generated the way a connect does it: by the manager's own level_prekeys (its batch
        # size set on the instance), judged by "durable is live" when it returns - i.e. before anything else commits
        p.manager.COUNT_GEN_PREKEYS = NPREKEYS
        recs, exc = self.call(p, "level_prekeys", p.manager.level_prekeys)
        if exc is not None or not recs or [r.getId() for r in recs] != list(range(1, NPREKEYS + 1)):
            self.problems.append(("oracle:level_prekeys", {"party": name, "what": "level_prekeys on an empty store did "
                                  "not return prekeys 1..%d" % NPREKEYS, "exception": repr(exc)[:200],
                                  "returned": len(recs or [])}))
            from axolotl.util.keyhelper import KeyHelper
            recs = KeyHelper.generatePreKeys(1, NPREKEYS)
            for r in recs:
                p.store.storePreKey(r.getId(), r)
        p.manager.generate_signed_prekey()
        p.manager.set_prekeys_as_sent(recs)
        self.nextpk[name] = 1
        for k in list(self.pair_ok):
            if name in k:
                self.pair_ok[k] = False
        for k in list(self.pin):
            if k[0] == name:
                del self.pin[k]
        self.gok = set(g for g in self.gok if g[2] != name)
        self.check(p, "install")
        return p

    def restart(self, name, idx):
        p = self.parties[name]
        before = dump(p.conn)
        p.conn.close()                    # no commit: what process exit does
        self._open(p)
        after = dump(p.conn)
        self.checks += 1
        first = self.open_tx.pop(name, None)
        if before != after:
            self.problems.append(("oracle:durable", dict(first or {}, **{
                "restart_op": idx, "party": name,
                "at_the_restart": "the reopened store differs from what the process held before it",
                "lost_at_the_restart": diff_dumps(before, after)[:12]})))
        elif first:
            self.problems.append(("oracle:durable", first))
        # sender key states live in the store; ciphers are rebuilt by the new manager

    # ---- oracle: durable is live
    def check(self, p, what, idx=None):
        self.checks += 1
        if p.name in self.open_tx:
            return
        live = dump(p.conn)
        snap = os.path.join(self.dir, "snap.db")
        for suf in ("", "-journal", "-wal"):
            if os.path.exists(snap + suf):
                os.remove(snap + suf)
            if os.path.exists(p.path + suf):
                shutil.copyfile(p.path + suf, snap + suf)
        c = real_sqlite3.connect(snap)
        c.text_factory = bytes
        try:
            dur = dump(c)
        finally:
            c.close()
        if live != dur or p.conn.in_transaction:
            self.open_tx[p.name] = {
                "op": idx, "party": p.name, "after_call": what,
                "what": "the call returned with a write transaction open: a fresh connection on a copy of the database "
                        "file does not see what the store's own connection returns",
                "lost_if_the_process_dies_now": diff_dumps(live, dur)[:12]}

    def call(self, p, what, f, *a, idx=None):
        """one manager / store call of party p, then the invariant; -> (result, exception)"""
        self.calls += 1
        res = exc = None
        try:
            with contextlib.redirect_stdout(io.StringIO()):
                res = f(*a)
        except Exception as e:
            exc = e
        self.check(p, what, idx)
        return res, exc

    # ---- helpers
    def text(self):
        self.counter += 1
        return b"m%03d" % (self.counter % 1000)

    def bundle(self, y, idx):
        from axolotl.state.prekeybundle import PreKeyBundle
        p = self.parties[y]
        pid = self.nextpk[y]
        self.nextpk[y] += 1
        signed, _ = self.call(p, "load_latest_signed_prekey", p.manager.load_latest_signed_prekey, True, idx=idx)
        prekey = p.store.loadPreKey(pid)
        return pid, PreKeyBundle(p.manager.registration_id, 1, prekey.getId(), prekey.getKeyPair().getPublicKey(),
                                 signed.getId(), signed.getKeyPair().getPublicKey(), signed.getSignature(),
                                 p.manager.identity.getPublicKey())

    def expect(self, idx, label, exc, want):
        got = type(exc).__name__ if exc is not None else None
        if got != want:
            self.problems.append(("oracle:conversation", {
                "op": idx, "what": "%s: expected %s, observed %s%s" % (
                    label, want or "delivery", got or "delivery", "" if exc is None else " (%s)" % str(exc)[:120])}))
            return False
        return True

    def deliver(self, idx, x, y, data_type, data, want=None, plaintext=None, label="message"):
        """hand a ciphertext of x to y's manager"""
        from axolotl.protocol.ciphertextmessage import CiphertextMessage
        py = self.parties[y]
        if data_type == CiphertextMessage.PREKEY_TYPE:
            res, exc = self.call(py, "decrypt_pkmsg", py.manager.decrypt_pkmsg, x, data, True, idx=idx)
        else:
            res, exc = self.call(py, "decrypt_msg", py.manager.decrypt_msg, x, data, True, idx=idx)
        ok = self.expect(idx, "%s %s->%s" % (label, x[-1], y[-1]), exc, want)
        if ok and want is None and plaintext is not None and res != plaintext:
            self.problems.append(("oracle:conversation", {"op": idx, "what": "%s %s->%s: wrong plaintext %r, expected %r" % (
                label, x[-1], y[-1], res, plaintext)}))
        return res, exc

    def send(self, idx, x, y, want=None, label="message"):
        px = self.parties[x]
        t = self.text()
        ct, exc = self.call(px, "encrypt", px.manager.encrypt, y, t, idx=idx)
        if exc is not None:
            self.expect(idx, "encrypt %s->%s" % (x[-1], y[-1]), exc, None)
            return None, None, None
        data = ct.serialize()
        res, exc = self.deliver(idx, x, y, ct.getType(), data, want, t, label)
        return ct.getType(), data, exc

    # ---- the operations
    def valid(self, op):
        k = op["op"]
        x, y = op.get("x"), op.get("y")
        if x is not None and x not in self.parties or y is not None and y not in self.parties or (x == y and y is not None):
            return False
        if k in ("hello", "badprekey") and self.nextpk.get(y, 1) > NPREKEYS:
            return False
        if k in ("msg", "dup", "corrupt", "nosession"):
            return self.pair_ok.get(frozenset((x, y)), False)
        if k == "badprekey":
            return self.pin.get((y, x)) in (None, self.parties[x].gen) and self.pin.get((x, y)) in (None, self.parties[y].gen)
        if k in ("gmsg", "gdup"):
            return (op["g"], x, y, self.parties[x].gen) in self.gok
        return True

    def step(self, idx, op):
        """execute one op if the model says it is applicable (else it is skipped: keeps shrunk histories meaningful)"""
        if not self.valid(op):
            return False
        k, x, y = op["op"], op.get("x"), op.get("y")
        P = self.parties
        if k == "restart":
            self.restart(x, idx)
        elif k == "reinstall":
            self.install(x)
        elif k == "hello":
            trust = bool(op.get("trust", True))
            pair = frozenset((x, y))
            self.pair_ok[pair] = False
            pid, b = self.bundle(y, idx)
            stale_xy = self.pin.get((x, y)) not in (None, P[y].gen)
            _, exc = self.call(P[x], "create_session", P[x].manager.create_session, y, b, trust, idx=idx)
            if stale_xy and not trust:
                self.expect(idx, "create_session %s->%s with a changed identity, auto-trust off" % (x[-1], y[-1]), exc,
                            "UntrustedIdentityException")
                return True
            if not self.expect(idx, "create_session %s->%s" % (x[-1], y[-1]), exc, None):
                return True
            self.pin[(x, y)] = P[y].gen
            stale_yx = self.pin.get((y, x)) not in (None, P[x].gen)
            t = self.text()
            ct, exc = self.call(P[x], "encrypt", P[x].manager.encrypt, y, t, idx=idx)
            if not self.expect(idx, "encrypt %s->%s" % (x[-1], y[-1]), exc, None):
                return True
            data = ct.serialize()
            if stale_yx:
                _, exc = self.deliver(idx, x, y, ct.getType(), data, "UntrustedIdentityException",
                                      label="prekey message from a changed identity")
                if not trust or exc is None or type(exc).__name__ != "UntrustedIdentityException":
                    return True
                # what AxolotlReceivelayer does with auto-trust: trust the new identity, handle the message again
                self.call(P[y], "trust_identity", P[y].manager.trust_identity, exc.getName(), exc.getIdentityKey(), idx=idx)
                self.pin[(y, x)] = P[x].gen
            _, exc = self.deliver(idx, x, y, ct.getType(), data, None, t, "prekey message")
            if exc is not None:
                return True
            self.pin[(y, x)] = P[x].gen
            _, _, exc = self.send(idx, y, x, None, "reply")
            if exc is None:
                self.pair_ok[pair] = True
        elif k == "msg":
            self.send(idx, x, y)
        elif k == "dup":
            typ, data, exc = self.send(idx, x, y)
            if data is not None and exc is None:
                self.deliver(idx, x, y, typ, data, "DuplicateMessageException", label="the same message again")
        elif k == "corrupt":
            px = P[x]
            ct, exc = self.call(px, "encrypt", px.manager.encrypt, y, self.text(), idx=idx)
            if self.expect(idx, "encrypt", exc, None):
                data = bytearray(ct.serialize())
                data[-1] ^= 0x01
                self.deliver(idx, x, y, ct.getType(), bytes(data), "InvalidMessageException", label="corrupted ciphertext")
        elif k == "badprekey":
            pair = frozenset((x, y))
            self.pair_ok[pair] = False
            pid, b = self.bundle(y, idx)
            self.call(P[y], "removePreKey", P[y].store.removePreKey, pid, idx=idx)      # consumed meanwhile
            _, exc = self.call(P[x], "create_session", P[x].manager.create_session, y, b, True, idx=idx)
            if self.expect(idx, "create_session", exc, None):
                self.pin[(x, y)] = P[y].gen
                self.send(idx, x, y, "InvalidKeyIdException", "prekey message naming a prekey that is gone")
        elif k == "nosession":
            self.pair_ok[frozenset((x, y))] = False
            self.call(P[y], "deleteAllSessions", P[y].store.deleteAllSessions, x, idx=idx)
            self.send(idx, x, y, "NoSessionException", "message for a session that is gone")
        elif k == "gdist":
            g = op["g"]
            sk, exc = self.call(P[x], "group_create_skmsg", P[x].manager.group_create_skmsg, g, idx=idx)
            if self.expect(idx, "group_create_skmsg", exc, None):
                _, exc = self.call(P[y], "group_create_session", P[y].manager.group_create_session, g, x, sk.serialize(), idx=idx)
                if self.expect(idx, "group_create_session", exc, None):
                    self.gok.add((g, x, y, P[x].gen))
        elif k in ("gmsg", "gdup"):
            g = op["g"]
            t = self.text()
            data, exc = self.call(P[x], "group_encrypt", P[x].manager.group_encrypt, g, t, idx=idx)
            if self.expect(idx, "group_encrypt", exc, None):
                res, exc = self.call(P[y], "group_decrypt", P[y].manager.group_decrypt, g, x, data, idx=idx)
                if self.expect(idx, "group message %s->%s" % (x[-1], y[-1]), exc, None) and res != t:
                    self.problems.append(("oracle:conversation", {"op": idx, "what": "group message: wrong plaintext"}))
                if k == "gdup" and exc is None:
                    _, exc = self.call(P[y], "group_decrypt", P[y].manager.group_decrypt, g, x, data, idx=idx)
                    self.expect(idx, "the same group message again", exc, "DuplicateMessageException")
        return True


def run_history(scratch, ops, tag="m"):
    """-> (problems, stats): the history on a fresh world; when a call left a transaction open the history is
    continued and every party restarted at its end, so that the report says what is lost"""
    w = World(scratch, tag)
    executed = 0
    try:
        for name in sorted(set(o[k] for o in ops for k in ("x", "y") if o.get(k))):
            w.install(name)
        for idx, op in enumerate(ops):
            if w.step(idx, op):
                executed += 1
            if w.problems:
                break
        if w.open_tx and not w.problems:
            for name, first in sorted(w.open_tx.items()):
                p = w.parties[name]
                before = dump(p.conn)
                p.conn.close()
                w._open(p)
                after = dump(p.conn)
                w.problems.append(("oracle:durable", dict(
                    first, lost_at_the_restart_that_ends_the_history=diff_dumps(before, after)[:12])))
        return w.problems, {"executed": executed, "calls": w.calls, "checks": w.checks}
    finally:
        w.close()


# ---------------------------------------------------------------- histories
A, B, C = PARTIES


def directed():
    """every exceptional path of every manager entry point, each followed by further traffic and restarts"""
    h = lambda x, y, trust=True: {"op": "hello", "x": x, "y": y, "trust": trust}
    m = lambda x, y: {"op": "msg", "x": x, "y": y}
    r = lambda x: {"op": "restart", "x": x}
    tail = lambda x, y: [m(x, y), m(y, x), r(y), m(x, y), m(y, x), r(x), m(y, x), m(x, y)]
    gd = lambda x, y: {"op": "gdist", "x": x, "g": GROUP, "y": y}
    gm = lambda x, y, k="gmsg": {"op": k, "x": x, "g": GROUP, "y": y}
    out = [
        [h(A, B)] + tail(A, B),
        [h(A, B), r(A), r(B)] + tail(B, A),
        [h(A, B), {"op": "dup", "x": A, "y": B}] + tail(A, B),
        [h(A, B), {"op": "corrupt", "x": A, "y": B}] + tail(A, B),
        [h(A, B), {"op": "corrupt", "x": B, "y": A}, r(A)] + tail(B, A),
        [h(A, B), {"op": "badprekey", "x": A, "y": B}, r(B), h(A, B)] + tail(A, B),
        [{"op": "badprekey", "x": A, "y": B}, h(B, A)] + tail(A, B),
        [h(A, B), {"op": "nosession", "x": A, "y": B}, r(B), h(B, A)] + tail(A, B),
        [h(A, B), {"op": "nosession", "x": B, "y": A}, h(A, B)] + tail(B, A),
        # contact reinstalled: auto-trust on (trust + retry) ...
        [h(A, B), {"op": "reinstall", "x": A}, h(A, B, True), h(C, B)] + tail(A, B) + [m(C, B), m(B, C)],
        # ... and off: the exception surfaces, later the identity is trusted
        [h(A, B), {"op": "reinstall", "x": A}, h(A, B, False), r(B), h(A, B, True)] + tail(A, B),
        # the party that kept its store initiates towards the reinstalled one
        [h(A, B), {"op": "reinstall", "x": A}, h(B, A, False), h(B, A, True)] + tail(B, A),
        [h(A, B), {"op": "reinstall", "x": B}, h(A, B, True), r(A)] + tail(A, B),
        # groups
        [h(A, B), gd(A, B), gm(A, B), r(B), gm(A, B), gm(A, B, "gdup"), r(A), gm(A, B), gd(B, A), gm(B, A), r(A), gm(B, A)],
        [gd(A, B), gd(A, C), gm(A, B), gm(A, C), r(A), gm(A, C), gm(A, B), {"op": "reinstall", "x": A}, gd(A, B), gm(A, B), r(B), gm(A, B)],
        # three parties, interleaved
        [h(A, B), h(C, B), h(A, C), m(A, B), m(C, B), r(B), m(B, A), m(B, C), m(C, A), r(C), m(A, C), m(C, B), r(A), m(B, A), m(A, B)],
    ]
    return out


def random_history(rng, n):
    """ops drawn under the small model so that most are applicable (the executor re-checks)"""
    w_pair, parties = {}, [A, B, C]
    ops = []
    gens = {p: 1 for p in parties}
    gok = set()
    for _ in range(n):
        x, y = rng.sample(parties, 2)
        pair = frozenset((x, y))
        k = rng.random()
        if not w_pair.get(pair):
            if k < .75:
                ops.append({"op": "hello", "x": x, "y": y, "trust": rng.random() < .8})
                w_pair[pair] = True          # optimistic; the executor knows better
            elif k < .85:
                ops.append({"op": "badprekey", "x": x, "y": y})
            elif k < .93:
                ops.append({"op": "gdist", "x": x, "g": GROUP, "y": y})
                gok.add((x, y))
            else:
                ops.append({"op": "restart", "x": x})
            continue
        if k < .35:
            ops.append({"op": "msg", "x": x, "y": y})
        elif k < .50:
            ops.append({"op": "restart", "x": rng.choice([x, y])})
        elif k < .57:
            ops.append({"op": "dup", "x": x, "y": y})
        elif k < .64:
            ops.append({"op": "corrupt", "x": x, "y": y})
        elif k < .69:
            ops.append({"op": "nosession", "x": x, "y": y})
            w_pair[pair] = False
        elif k < .73:
            ops.append({"op": "badprekey", "x": x, "y": y})
            w_pair[pair] = False
        elif k < .80:
            ops.append({"op": "reinstall", "x": x})
            for q in list(w_pair):
                if x in q:
                    w_pair[q] = False
            gok = set(g for g in gok if x not in g)
        elif k < .88:
            ops.append({"op": "gdist", "x": x, "g": GROUP, "y": y})
            gok.add((x, y))
        elif (x, y) in gok:
            ops.append({"op": rng.choice(["gmsg", "gmsg", "gdup"]), "x": x, "g": GROUP, "y": y})
        else:
            ops.append({"op": "hello", "x": x, "y": y, "trust": True})
    return ops
