"""Build (extract + compile) and run the Coq model of one property.

Every `Definition run_<x> (arg : sx) : sx` and `Definition orun_<x> (oracle : sx -> sx)
(arg : sx) : sx` in coq/<Topic>/<Topic>Run.v is an entry point.  Extraction uses
ExtrOcamlBasic only (no Extract Constant, numbers stay Coq datatypes).
"""
import os, re, subprocess, shutil, threading
from . import sx
from .env import VERIF

COQ = os.path.join(VERIF, "coq")
OCAML = os.path.join(VERIF, "ocaml")


class BuildError(Exception):
    pass


def _sh(cmd, cwd, timeout=600):
    p = subprocess.run(cmd, cwd=cwd, stdout=subprocess.PIPE, stderr=subprocess.STDOUT,
                       timeout=timeout, text=True)
    if p.returncode != 0:
        raise BuildError("%s failed in %s:\n%s" % (" ".join(cmd), cwd, p.stdout[-4000:]))
    return p.stdout


def entries_of(topic):
    path = os.path.join(COQ, topic, topic + "Run.v")
    src = open(path).read()
    return re.findall(r"^Definition\s+(o?run_\w+)", src, re.M)


def build(topic):
    """Extract coq/<topic>/<topic>Run.v and compile the driver; returns the executable."""
    bdir = os.path.join(OCAML, "build", topic)
    shutil.rmtree(bdir, ignore_errors=True)
    os.makedirs(bdir)
    ents = entries_of(topic)
    if not ents:
        raise BuildError("no entries in %sRun.v" % topic)
    with open(os.path.join(bdir, "Extract.v"), "w") as f:
        f.write("Require Extraction.\nRequire Import ExtrOcamlBasic.\n")
        f.write("From YV Require Common.Sx %s.%sRun.\n" % (topic, topic))
        f.write("Separate Extraction YV.Common.Sx.sx %s.\n" %
                " ".join("YV.%s.%sRun.%s" % (topic, topic, e) for e in ents))
    _sh(["coqc", "-Q", COQ, "YV", "Extract.v"], bdir)
    with open(os.path.join(bdir, "dispatch.ml"), "w") as f:
        f.write("let dispatch (name : string) (oracle : Sx.sx -> Sx.sx) (arg : Sx.sx) : Sx.sx =\n")
        f.write("  match name with\n")
        for e in ents:
            if e.startswith("orun_"):
                f.write('  | "%s" -> %sRun.%s oracle arg\n' % (e, topic, e))
            else:
                f.write('  | "%s" -> %sRun.%s arg\n' % (e, topic, e))
        f.write('  | _ -> failwith ("no entry " ^ name)\n')
    shutil.copy(os.path.join(OCAML, "sxdriver.ml"), os.path.join(bdir, "sxdriver.ml"))
    for fn in os.listdir(bdir):
        if fn.endswith(".mli"):
            os.remove(os.path.join(bdir, fn))  # interfaces only restrict; not needed
    mls = sorted(x for x in os.listdir(bdir) if x.endswith(".ml"))
    order = _sh(["ocamlfind", "ocamldep", "-sort"] + mls, bdir).split()
    _sh(["ocamlfind", "ocamlopt", "-O2", "-w", "-a", "-o", "driver"] + order, bdir) \
        if False else _sh(["ocamlfind", "ocamlopt", "-w", "-a", "-o", "driver"] + order, bdir)
    return os.path.join(bdir, "driver")


class Model(object):
    """A running driver process.  call() is synchronous; call_many() pipelines
    oracle-free requests."""

    def __init__(self, exe, oracle=None):
        self.exe = exe
        self.oracle = oracle
        self.p = subprocess.Popen(["bash", "-c", "ulimit -s unlimited 2>/dev/null; exec " + exe],
                                  stdin=subprocess.PIPE, stdout=subprocess.PIPE, text=True,
                                  bufsize=1 << 20)

    def _read_answer(self):
        while True:
            line = self.p.stdout.readline()
            if not line:
                raise BuildError("model driver died")
            line = line.rstrip("\n")
            if line.startswith("?"):
                if self.oracle is None:
                    raise BuildError("model asked an oracle but none was given")
                ans = self.oracle(sx.loads(line[1:]))
                self.p.stdin.write(sx.dumps(ans) + "\n")
                self.p.stdin.flush()
                continue
            if line.startswith("!"):
                return ("exn", line[1:])
            return sx.loads(line)

    def call(self, entry, arg):
        self.p.stdin.write(entry + " " + sx.dumps(arg) + "\n")
        self.p.stdin.flush()
        return self._read_answer()

    def call_many(self, entry, args):
        """Pipeline many oracle-free calls (writer thread avoids pipe deadlock)."""
        args = list(args)

        def w():
            for a in args:
                self.p.stdin.write(entry + " " + sx.dumps(a) + "\n")
            self.p.stdin.flush()
        t = threading.Thread(target=w)
        t.start()
        res = [self._read_answer() for _ in args]
        t.join()
        return res

    def close(self):
        try:
            self.p.stdin.close()
            self.p.wait(timeout=10)
        except Exception:
            self.p.kill()


def call_many_parallel(exe, entry, args, nproc=8, oracle=None):
    """Shard oracle-free calls over several driver processes (order preserved)."""
    args = list(args)
    if len(args) < 64 or nproc <= 1:
        m = Model(exe, oracle)
        try:
            return m.call_many(entry, args)
        finally:
            m.close()
    from concurrent.futures import ThreadPoolExecutor
    shards = [args[i::nproc] for i in range(nproc)]

    def work(sh):
        m = Model(exe, oracle)
        try:
            return m.call_many(entry, sh)
        finally:
            m.close()
    with ThreadPoolExecutor(nproc) as ex:
        parts = list(ex.map(work, shards))
    out = [None] * len(args)
    for i, part in enumerate(parts):
        out[i::nproc] = part
    return out
