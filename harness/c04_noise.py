"""C04 helper: Noise responder (WhatsApp server double) built from the dissononce primitives
consonance itself uses, plus the byte-level parser of what the client writes at the bottom of
the segments layer.  Nothing here touches yowsup; it is the environment of the layers under test.
"""
import struct

from dissononce.processing.impl.handshakestate import HandshakeState
from dissononce.processing.impl.cipherstate import CipherState
from dissononce.processing.handshakepatterns.interactive.XX import XXHandshakePattern
from dissononce.processing.handshakepatterns.interactive.IK import IKHandshakePattern
from dissononce.processing.modifiers.fallback import FallbackPatternModifier
from dissononce.cipher.aesgcm import AESGCMCipher
from dissononce.hash.sha256 import SHA256Hash
from dissononce.dh.x25519.x25519 import X25519DH
from dissononce.exceptions.decrypt import DecryptFailedException
from consonance.dissononce_extras.processing.symmetricstate_wa import WASymmetricState
from consonance.proto import wa20_pb2

PROLOGUE = b"WA\x04\x00"
EDGE = b"ED\x00\x01"


class ServerSym(WASymmetricState):
    """WA variant, receiving side: like the sending side no MixHash while no key is set."""

    def decrypt_and_hash(self, ciphertext):
        plaintext = self._cipherstate.decrypt_with_ad(self._h, ciphertext)
        if self._cipherstate.has_key():
            self.mix_hash(ciphertext)
        return plaintext


def new_hs():
    return HandshakeState(ServerSym(CipherState(AESGCMCipher()), SHA256Hash()), X25519DH())


def certificate(pub):
    d = wa20_pb2.NoiseCertificate.Details()
    d.serial = 1
    d.issuer = "WhatsAppLongTerm1"
    d.subject = "verif.responder"
    d.key = pub
    c = wa20_pb2.NoiseCertificate()
    c.details = d.SerializeToString()
    c.signature = b"\x07" * 64          # invalid on purpose: the client only logs it
    return c.SerializeToString()


def classify(seg):
    """hello | finish | data, by content (a stray handshake message of another worker is still named)"""
    m = wa20_pb2.HandshakeMessage()
    try:
        m.ParseFromString(seg)
    except Exception:
        return "data"
    if m.HasField("client_hello") and len(m.client_hello.ephemeral) == 32:
        return "hello"
    if m.HasField("client_finish") and len(m.client_finish.static) == 48:
        return "finish"
    return "data"


def wire(seg):
    return struct.pack(">I", len(seg))[1:] + seg


class Responder(object):
    """One server-side connection.  feed(bytes) consumes what the client wrote; produced server
    segments are appended to self.out (list of (kind, segment_bytes)); kind in hello|data.

    mode: 'auto'  -> XX when the client hello carries no static, IK when it does and the static
                     decrypts under `keypair`; if it does not decrypt -> XXfallback.
    corrupt_hello: flip one byte of the encrypted static/payload of the server hello (authentication
                     failure at the client)."""

    def __init__(self, keypair, corrupt_hello=None, expect_edge=None):
        self.keypair = keypair
        self.corrupt_hello = corrupt_hello
        self.expect_edge = expect_edge
        self.buf = bytearray()
        self.stage = "prologue"
        self.units = []            # parsed client units: ('edge',b) ('routing',b) ('prologue',b) ('hello',..)...
        self.out = []
        self.variant = None
        self.client_payload = None
        self.recv_cs = None
        self.send_cs = None
        self.received = []         # decrypted client transport frames
        self.errors = []
        self.hs = None
        self.on_unit = None        # callback(kind) when a client unit completes

    # ---- client -> server
    def feed(self, data):
        self.buf.extend(data)
        while True:
            if self.stage == "prologue":
                if len(self.buf) < 4:
                    return
                head = bytes(self.buf[:4])
                if head == EDGE:
                    del self.buf[:4]
                    self.stage = "routing"
                    self._unit("edge", head)
                    continue
                del self.buf[:4]
                self._unit("prologue", head)
                if head != PROLOGUE:
                    self.errors.append("bad prologue %r" % head)
                self.stage = "hello"
                continue
            if len(self.buf) < 3:
                return
            n = struct.unpack(">I", b"\x00" + bytes(self.buf[:3]))[0]
            if len(self.buf) < 3 + n:
                return
            seg = bytes(self.buf[3:3 + n])
            del self.buf[:3 + n]
            if self.stage == "routing":
                self.stage = "prologue"
                self._unit("routing", seg)
            elif self.stage == "hello" and classify(seg) == "hello":
                self._client_hello(seg)
                self._unit("hello", seg)
            elif self.stage == "finish" and classify(seg) == "finish":
                self._client_finish(seg)
                self._unit("finish", seg)
            elif self.stage == "transport":
                try:
                    self.received.append(self.recv_cs.decrypt_with_ad(b"", seg))
                    self._unit("data", seg)
                except DecryptFailedException:
                    kind = classify(seg)
                    self.errors.append("client segment does not decrypt (looks like %s)" % kind)
                    if kind == "data":
                        self.received.append(None)
                    self._unit(kind, seg)
            else:
                kind = classify(seg)
                self.errors.append("unexpected client %s in stage %s" % (kind, self.stage))
                self._unit(kind, seg)

    def _unit(self, kind, b):
        self.units.append((kind, b))
        if self.on_unit:
            self.on_unit(kind)

    def _client_hello(self, seg):
        m = wa20_pb2.HandshakeMessage()
        m.ParseFromString(seg)
        ch = m.client_hello
        dh = X25519DH()
        if not ch.HasField("static"):
            self.variant = "XX"
            self.hs = new_hs()
            self.hs.initialize(XXHandshakePattern(), False, PROLOGUE, s=self.keypair)
            self.hs.read_message(ch.ephemeral, bytearray())
            self._server_hello_xx()
            return
        hs = new_hs()
        hs.initialize(IKHandshakePattern(), False, PROLOGUE, s=self.keypair)
        payload = bytearray()
        try:
            hs.read_message(ch.ephemeral + ch.static + ch.payload, payload)
            ik_ok = True
        except DecryptFailedException:
            ik_ok = False
        if ik_ok:
            self.variant = "IK"
            self.hs = hs
            self._parse_payload(bytes(payload))
            buf = bytearray()
            pair = self.hs.write_message(b"", buf)
            sh = wa20_pb2.HandshakeMessage.ServerHello()
            sh.ephemeral = bytes(buf[:32])
            sh.payload = self._maybe_corrupt(bytes(buf[32:]))
            self._emit_hello(sh)
            self.recv_cs, self.send_cs = pair[0], pair[1]
            self.stage = "transport"
        else:
            self.variant = "XXfallback"
            self.hs = new_hs()
            self.hs.initialize(FallbackPatternModifier().modify(XXHandshakePattern()), False, PROLOGUE,
                               s=self.keypair, re=dh.create_public(ch.ephemeral))
            self._server_hello_xx()

    def _maybe_corrupt(self, b):
        if self.corrupt_hello is None or not b:
            return b
        i = self.corrupt_hello % len(b)
        return b[:i] + bytes([b[i] ^ 0x01]) + b[i + 1:]

    def _server_hello_xx(self):
        buf = bytearray()
        self.hs.write_message(certificate(self.keypair.public.data), buf)
        sh = wa20_pb2.HandshakeMessage.ServerHello()
        sh.ephemeral = bytes(buf[:32])
        sh.static = bytes(buf[32:80])
        sh.payload = self._maybe_corrupt(bytes(buf[80:]))
        self._emit_hello(sh)
        self.stage = "finish"

    def _emit_hello(self, sh):
        m = wa20_pb2.HandshakeMessage()
        m.server_hello.MergeFrom(sh)
        self.out.append(("hello", m.SerializeToString()))

    def _client_finish(self, seg):
        m = wa20_pb2.HandshakeMessage()
        m.ParseFromString(seg)
        cf = m.client_finish
        payload = bytearray()
        try:
            pair = self.hs.read_message(cf.static + cf.payload, payload)
        except DecryptFailedException:
            self.errors.append("client finish does not decrypt")
            self.stage = "dead"
            return
        self._parse_payload(bytes(payload))
        self.recv_cs, self.send_cs = pair[0], pair[1]
        self.stage = "transport"

    def _parse_payload(self, b):
        p = wa20_pb2.ClientPayload()
        p.ParseFromString(b)
        self.client_payload = p

    # ---- server -> client
    def can_send(self):
        return self.send_cs is not None

    def encrypt(self, plaintext):
        seg = self.send_cs.encrypt_with_ad(b"", plaintext)
        self.out.append(("data", seg))
        return seg


def presented(p):
    """The ClientPayload fields the property names, as a plain dict."""
    ua = p.user_agent
    av = ua.app_version
    return {
        "username": p.username, "passive": p.passive, "push_name": p.push_name,
        "short_connect": p.short_connect, "connect_type": p.connect_type,
        "platform": ua.platform, "mcc": ua.mcc, "mnc": ua.mnc, "os_version": ua.os_version,
        "manufacturer": ua.manufacturer, "device": ua.device, "os_build_number": ua.os_build_number,
        "phone_id": ua.phone_id, "lang": ua.locale_language_iso_639_1,
        "country": ua.locale_country_iso_3166_1_alpha_2,
        "app_version": "%d.%d.%d" % (av.primary, av.secondary, av.tertiary) +
                       (".%d" % av.quaternary if av.quaternary else ""),
    }
