"""C12: end-to-end (axolotl) extension of the fault-injection rig (harness/c12rig.py).

``E2ERig`` is ``c12rig.Rig`` plus a REAL second axolotl identity for the peer contact: an own ``AxolotlManager`` (the
same class the stack uses, python-axolotl below it) over an own sqlite store in the scratch dir.  Nothing of the stack
under test is replaced.  The session between the stack and the peer is set up through the real path:

    rig.op_send("msg_session")        the application sends a text message to the peer contact; the store has no
                                      session yet, so the real axolotl send layer puts a get-keys iq on the wire;
    rig.op_recv("keys_result")        the peer answers that iq with a key bundle built from ITS store; on the thread
                                      that delivers it the send layer builds the session, encrypts (pkmsg) and the
                                      message goes down; the peer decrypts it with its own manager;
    rig.op_recv("enc_ok")             the peer encrypts an answer (msg); the stack decrypts it and the application
                                      sees the text.

From then on a message to that contact runs ``manager.encrypt`` and every incoming ``<enc>`` runs
``manager.decrypt_*`` of the real manager.  Incoming kinds whose failure is HANDLED INSIDE the axolotl receive layer
(the caller of the read sees nothing, the documented reaction goes down):

    enc_damaged / enc_bad_mac   ciphertext byte / MAC byte flipped -> InvalidMessage -> retry receipt
    enc_duplicate               the previous valid message once more -> DuplicateMessage -> delivery receipt
    enc_nosession               a msg from a contact the store has no session with -> NoSession -> get-keys iq
    enc_bad_prekey_id           a pkmsg that names a one-time key the store never had -> InvalidKeyId -> retry receipt

Determinism: the managers append 1..255 random padding bytes; python-axolotl 0.2.2 does not PKCS7-pad a plaintext
whose length is a multiple of 16 but always unpads, so about one message in 16 is undecryptable whatever yowsup does.
Both managers therefore draw a fixed padding length (``PAD``) and every text used is checked to stay off the unlucky
lengths (``_text``).

Locks: ``lock_objects()`` finds every lock-like object reachable from the layer instances (sublayers of parallel
layers and their interfaces included) and from the stack's axolotl manager: attributes with acquire/release and
``locked`` or ``_is_owned``.  ``probe_locks()`` asks from a PROBE thread whether another thread could take each of
them now (``locked()`` where the object has it, otherwise a non-blocking acquire that is released at once) -- a
re-entrant lock left held by a worker thread is seen as held.  A lock-like attribute of the manager is additionally
wrapped in a delegating recorder (``_LockRecorder``: same object underneath, every call forwarded) so that the rig
knows whether it is taken while the manager's cipher methods run: ``inner_site()`` names that attribute (None on the
unchanged tree, which has no such lock).
"""
import os
import threading
import time

from . import c12rig
from .c12rig import PHONE, PEER_JID, SERVER, RigError

PEER_PHONE = PEER_JID.split("@")[0]
STRANGER_JID = "4915200000088@s.whatsapp.net"
CAROL_PHONE = "4915200000099"
CAROL_JID = CAROL_PHONE + "@s.whatsapp.net"
PAD = 7

CIPHER_METHODS = ("encrypt", "decrypt_msg", "decrypt_pkmsg", "group_encrypt", "group_decrypt")

SEND_KINDS = ("msg_session",)
RECV_KINDS = ("keys_result", "enc_ok", "enc_damaged", "enc_bad_mac", "enc_duplicate", "enc_nosession",
              "enc_bad_prekey_id")


class _FixedPad(object):
    """stands in for the `random` module inside yowsup.axolotl.manager: randint(1, 255) is the fixed padding length"""
    def __getattr__(self, name):
        import random as _r
        return getattr(_r, name)

    def randint(self, a, b):
        return PAD


def _fix_padding(mgr):
    import yowsup.axolotl.manager as mm
    if hasattr(mm, "random") and not isinstance(mm.random, _FixedPad):
        mm.random = _FixedPad()
    if hasattr(mgr, "_generate_random_padding"):
        mgr.__dict__["_generate_random_padding"] = lambda: bytes(bytearray([PAD] * PAD))


def is_locklike(o):
    return (callable(getattr(o, "acquire", None)) and callable(getattr(o, "release", None))
            and (hasattr(o, "locked") or hasattr(o, "_is_owned")))


class _LockRecorder(object):
    """Delegating wrapper around a lock-like attribute of the manager: the SAME lock object does the work, every call
    is forwarded; acquisitions and releases are noted together with whether the calling thread is inside one of the
    manager's cipher methods."""
    def __init__(self, inner, rig, name):
        self.__dict__["_inner"] = inner
        self.__dict__["_rig"] = rig
        self.__dict__["_name"] = name
        self.__dict__["events"] = []

    def acquire(self, *a, **k):
        r = self._inner.acquire(*a, **k)
        if r is not False:
            self.events.append(("acquire", threading.get_ident(), self._rig._cipher_depth.get(threading.get_ident(), 0)))
        return r

    def release(self):
        self.events.append(("release", threading.get_ident(), self._rig._cipher_depth.get(threading.get_ident(), 0)))
        return self._inner.release()

    def __enter__(self):
        self.acquire()
        return self

    def __exit__(self, *a):
        self.release()
        return False

    def __getattr__(self, name):
        return getattr(self._inner, name)

    def __setattr__(self, name, value):
        setattr(self._inner, name, value)


class E2ERig(c12rig.Rig):
    def __init__(self, scratch, seed=0):
        super(E2ERig, self).__init__(scratch, seed)
        import io
        import contextlib
        from yowsup.axolotl.manager import AxolotlManager
        from yowsup.axolotl.store.sqlite.liteaxolotlstore import LiteAxolotlStore
        self._cipher_depth = {}
        self.mgr = self.profile.axolotl_manager
        _fix_padding(self.mgr)
        self.wire_nodes = []
        dec = self.peer._dec
        orig = dec.getProtocolTreeNode

        def tap(data, _orig=orig):
            node = _orig(data)
            self.wire_nodes.append(node)
            return node
        dec.getProtocolTreeNode = tap
        n = 0
        while os.path.exists(os.path.join(scratch, "peer-%d-%d.db" % (seed, n))):
            n += 1
        with contextlib.redirect_stdout(io.StringIO()):
            self.peer_mgr = AxolotlManager(LiteAxolotlStore(os.path.join(scratch, "peer-%d-%d.db" % (seed, n))),
                                           PEER_PHONE)
            _fix_padding(self.peer_mgr)
            self.peer_prekeys = self.peer_mgr.level_prekeys(force=True)
            self.peer_signed = self.peer_mgr.generate_signed_prekey()
        self._carol = None
        self._carol_path = os.path.join(scratch, "carol-%d-%d.db" % (seed, n))
        self._n_text = 0
        self.sent_texts = []          # texts of the messages the application sent to the peer contact, in order
        self.peer_read = []           # what the peer decrypted, in order
        self.last_enc = None          # (node attrs, enc attrs, ciphertext) of the last valid incoming message
        self.pending_keys_iq = None
        self._recorders = {}
        self._instrument_manager()

    # -- manager instrumentation (pass-through) ---------------------------------------------------
    def _instrument_manager(self):
        mgr = self.mgr
        for name in CIPHER_METHODS:
            orig = getattr(mgr, name, None)
            if orig is None or name in mgr.__dict__:
                continue

            def w(*a, _orig=orig, **k):
                t = threading.get_ident()
                self._cipher_depth[t] = self._cipher_depth.get(t, 0) + 1
                try:
                    return _orig(*a, **k)
                finally:
                    self._cipher_depth[t] -= 1
            mgr.__dict__[name] = w
        cand = list(vars(mgr).items())
        for klass in type(mgr).__mro__:                 # a lock kept as a class attribute is shadowed per instance
            if klass.__module__.startswith("yowsup"):
                cand += [(k, v) for k, v in vars(klass).items() if k not in mgr.__dict__]
        for name, val in cand:
            if is_locklike(val) and not isinstance(val, _LockRecorder) and name not in self._recorders:
                rec = _LockRecorder(val, self, name)
                mgr.__dict__[name] = rec
                self._recorders[name] = rec

    def inner_site(self):
        """name of a lock-like attribute of the manager that was taken while a cipher method of the manager ran
        (the 'inner' cipher lock site), with its re-entrancy; None when the tree has no such lock"""
        for name in sorted(self._recorders):
            rec = self._recorders[name]
            if any(ev[0] == "acquire" and ev[2] > 0 for ev in rec.events):
                return {"attr": name, "reentrant": hasattr(rec._inner, "_is_owned") and not hasattr(rec._inner, "locked")
                        or "RLock" in type(rec._inner).__name__}
        return None

    # -- locks ------------------------------------------------------------------------------------
    def lock_objects(self):
        """[(name, object)] of every lock-like object reachable from the layers and from the manager"""
        out, seen = [], set()

        def scan(prefix, obj):
            import sys
            try:
                items = sorted(vars(obj).items())
            except TypeError:
                return
            # class attributes (raw class dicts: no descriptor is invoked) and the globals of the defining modules
            for klass in type(obj).__mro__:
                if klass.__module__.startswith("yowsup"):
                    items += sorted((k, v) for k, v in vars(klass).items() if k not in dict(items))
                    mod = sys.modules.get(klass.__module__)
                    if mod is not None:
                        items += sorted(("<%s>.%s" % (klass.__module__, k), v) for k, v in vars(mod).items()
                                        if not isinstance(v, type) and not callable(v) or is_locklike(v))
            for k, v in items:
                if isinstance(v, _LockRecorder):
                    v = v._inner
                try:
                    ll = is_locklike(v)
                except Exception:
                    ll = False
                if ll and id(v) not in seen:
                    seen.add(id(v))
                    out.append(("%s.%s" % (prefix, k), v))
        for name, inst in self.layers:
            scan(name, inst)
            for s in getattr(inst, "sublayers", ()) or ():
                scan("%s/%s" % (name, s.__class__.__name__), s)
                itf = getattr(s, "interface", None)
                if itf is not None:
                    scan("%s/%s.interface" % (name, s.__class__.__name__), itf)
        scan("manager", self.mgr)
        for k, v in sorted(vars(self.mgr).items()):
            if k.startswith("__") or isinstance(v, (_LockRecorder, dict, list, tuple, str, bytes, int)) or v is None:
                continue
            if hasattr(v, "__dict__") and not callable(v):
                scan("manager.%s" % k, v)
        return out

    def probe_locks(self):
        """names of the lock-like objects another thread could NOT take right now (asked from a probe thread)"""
        objs = self.lock_objects()
        held = []

        def probe():
            for name, o in objs:
                try:
                    if hasattr(o, "locked") and not hasattr(o, "_is_owned"):
                        if o.locked():
                            held.append(name)
                        continue
                    if o.acquire(False):
                        o.release()
                    else:
                        held.append(name)
                except Exception:
                    pass
        t = threading.Thread(target=probe)
        t.daemon = True
        t.start()
        t.join(5.0)
        return sorted(held)

    # -- texts ------------------------------------------------------------------------------------
    def _text(self, prefix):
        from yowsup.layers.protocol_messages.proto.e2e_pb2 import Message
        while True:
            self._n_text += 1
            text = "%s %d" % (prefix, self._n_text)
            if (len(Message(conversation=text).SerializeToString()) + PAD) % 16 != 0:
                return text

    # -- peer side --------------------------------------------------------------------------------
    def _bundle(self, mgr, prekey, signed):
        from axolotl.state.prekeybundle import PreKeyBundle
        return PreKeyBundle(mgr.registration_id, 1, prekey.getId(), prekey.getKeyPair().getPublicKey(),
                            signed.getId(), signed.getKeyPair().getPublicKey(), signed.getSignature(),
                            mgr.identity.getPublicKey())

    def _peer_decrypt(self, node):
        from yowsup.layers.protocol_messages.proto.e2e_pb2 import Message
        enc = node.getChild("enc")
        if enc is None:
            return None
        data = enc.getData()
        if enc["type"] == "pkmsg":
            plain = self.peer_mgr.decrypt_pkmsg(PHONE, data, True)
        else:
            plain = self.peer_mgr.decrypt_msg(PHONE, data, True)
        m = Message()
        m.ParseFromString(plain)
        return m.conversation

    def _enc_node(self, ciphertext, enctype="msg", frm=PEER_JID, mid=None):
        from yowsup.structs import ProtocolTreeNode
        return ProtocolTreeNode("message", {"from": frm, "id": mid or self._id("emsg"), "t": "1500000000",
                                            "type": "text", "notify": "peer"},
                                [ProtocolTreeNode("enc", {"v": "2", "type": enctype}, None, ciphertext)])

    def _peer_encrypt(self, text):
        from yowsup.layers.protocol_messages.proto.e2e_pb2 import Message
        return self.peer_mgr.encrypt(PHONE, Message(conversation=text).SerializeToString()).serialize()

    def _carol_pkmsg(self):
        """a pkmsg from a third identity built on a bundle that names a one-time key the stack's store never had"""
        import io
        import contextlib
        from yowsup.axolotl.manager import AxolotlManager
        from yowsup.axolotl.store.sqlite.liteaxolotlstore import LiteAxolotlStore
        from yowsup.layers.protocol_messages.proto.e2e_pb2 import Message
        from axolotl.state.prekeybundle import PreKeyBundle
        from axolotl.util.keyhelper import KeyHelper
        with contextlib.redirect_stdout(io.StringIO()):
            if self._carol is None:
                self._carol = AxolotlManager(LiteAxolotlStore(self._carol_path), CAROL_PHONE)
                _fix_padding(self._carol)
            signed = self.mgr.load_latest_signed_prekey(generate=True)
            bogus = KeyHelper.generatePreKeys(7770001, 1)[0]
            bundle = PreKeyBundle(self.mgr.registration_id, 1, bogus.getId(), bogus.getKeyPair().getPublicKey(),
                                  signed.getId(), signed.getKeyPair().getPublicKey(), signed.getSignature(),
                                  self.mgr.identity.getPublicKey())
            self._carol.create_session(PHONE, bundle, autotrust=True)
            return self._carol.encrypt(PHONE, Message(conversation=self._text("carol")).SerializeToString()).serialize()

    # -- operations -------------------------------------------------------------------------------
    def _send_payload(self, kind):
        if kind == "msg_session":
            from yowsup.layers.protocol_messages.protocolentities import TextMessageProtocolEntity
            text = self._text("to peer")
            self.sent_texts.append(text)
            return TextMessageProtocolEntity(text, to=PEER_JID)
        return super(E2ERig, self)._send_payload(kind)

    def _recv_bytes(self, kind):
        p = self.peer
        if kind == "keys_result":
            from yowsup.layers.axolotl.protocolentities import ResultGetKeysIqProtocolEntity
            iq = self.pending_keys_iq
            if iq is None:
                raise RigError("no get-keys iq of the stack is waiting for an answer")
            self.pending_keys_iq = None
            res = ResultGetKeysIqProtocolEntity(iq["id"], {PEER_JID: self._bundle(self.peer_mgr, self.peer_prekeys[0],
                                                                                   self.peer_signed)})
            return p.encrypt_frame(p.encode(res.toProtocolTreeNode()))
        if kind == "enc_ok":
            ct = self._peer_encrypt(self._text("from peer"))
            node = self._enc_node(ct)
            self.last_enc = (node["id"], ct)
            return p.encrypt_frame(p.encode(node))
        if kind in ("enc_damaged", "enc_bad_mac"):
            ct = bytearray(self._peer_encrypt(self._text("never readable")))
            ct[-9 if kind == "enc_damaged" else -1] ^= 0x55       # last ciphertext byte / last MAC byte
            return p.encrypt_frame(p.encode(self._enc_node(bytes(ct))))
        if kind == "enc_duplicate":
            if self.last_enc is None:
                raise RigError("no valid message was delivered before")
            mid, ct = self.last_enc
            return p.encrypt_frame(p.encode(self._enc_node(ct, mid=mid)))
        if kind == "enc_nosession":
            ct = self._peer_encrypt(self._text("for nobody"))
            return p.encrypt_frame(p.encode(self._enc_node(ct, frm=STRANGER_JID)))
        if kind == "enc_bad_prekey_id":
            return p.encrypt_frame(p.encode(self._enc_node(self._carol_pkmsg(), enctype="pkmsg", frm=CAROL_JID)))
        return super(E2ERig, self)._recv_bytes(kind)

    def _result(self, outcome, exc, top0):
        w0 = len(self.wire_nodes)
        r = super(E2ERig, self)._result(outcome, exc, top0)
        e2e = []
        for node in self.wire_nodes[w0:]:
            if node is None:
                continue
            if node.tag == "iq" and node["xmlns"] == "encrypt" and node["type"] == "get" and node.getChild("key"):
                self.pending_keys_iq = node
            if node.tag == "message" and node.getChild("enc") is not None and node["to"] == PEER_JID:
                try:
                    text = self._peer_decrypt(node)
                    self.peer_read.append(text)
                    e2e.append(["ok", node.getChild("enc")["type"], text])
                except Exception as e:      # peer side
                    e2e.append(["undecryptable", node.getChild("enc")["type"], e.__class__.__name__])
        r["e2e"] = e2e
        r["wire_types"] = [("%s:%s" % (n.tag, n["type"])) if n is not None else "?" for n in self.wire_nodes[w0:]]
        return r

    def arm_encrypt_failure(self):
        """The next time the stack's store is asked for the peer's session record it hands out an EMPTY record once
        (the record vanished under the cipher): the cipher operation that uses it raises.  Stored state untouched."""
        from axolotl.state.sessionrecord import SessionRecord
        store = self.mgr._store
        orig = store.loadSession

        def once(recipientId, deviceId):
            del store.__dict__["loadSession"]
            return SessionRecord()
        store.__dict__["loadSession"] = once

    def establish(self, worker_send=None, worker_recv=None):
        """session set-up through the real path; returns the three result dicts.  worker_* : callables that run a
        function on the sending / receiving thread and return its result (default: the calling thread)."""
        ws = worker_send or (lambda fn: fn())
        wr = worker_recv or (lambda fn: fn())
        r1 = ws(lambda: self.op_send("msg_session"))
        if r1 is None or r1.get("outcome") != "ok" or self.pending_keys_iq is None:
            raise RigError("set-up: the first message did not produce a get-keys iq: %r" % (r1,))
        r2 = wr(lambda: self.op_recv("keys_result"))
        if r2 is None or r2.get("outcome") != "ok" or not r2.get("e2e") or r2["e2e"][0][0] != "ok":
            raise RigError("set-up: no decryptable pkmsg after the key bundle: %r" % (r2,))
        r3 = wr(lambda: self.op_recv("enc_ok"))
        if r3 is None or r3.get("outcome") != "ok" or len(r3.get("top", [])) != 1:
            raise RigError("set-up: the peer's answer did not reach the application: %r" % (r3,))
        return r1, r2, r3
