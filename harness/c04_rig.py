"""C04 helper: real segments+noise+coder layers between a recording top and the Noise responder,
a deterministic baton scheduler over the real handshake worker thread and a network thread, and
an unscheduled soak.  Everything the layers under test see is real yowsup/consonance code; only
*instances* are instrumented (queue, flush lock, `_in_handshake`, profile.write_config, the
protocol state machine's after-change hook)."""
import os, sys, threading, time, collections, struct

from . import c04_noise as NZ

WAIT = 10.0          # backstop for every real wait; hitting it is reported, never a pass


def _imports():
    from yowsup.layers import YowLayer, YowLayerEvent
    from yowsup.layers.noise.layer import YowNoiseLayer
    from yowsup.layers.noise.layer_noise_segments import YowNoiseSegmentsLayer
    from yowsup.layers.coder.layer import YowCoderLayer
    from yowsup.layers.auth.layer_authentication import YowAuthenticationProtocolLayer
    from yowsup.layers.network.layer import YowNetworkLayer
    from yowsup.profile.profile import YowProfile
    from yowsup.config.v1.config import Config
    from yowsup.common.tools import StorageTools
    from yowsup.structs import ProtocolTreeNode
    from yowsup.layers.coder.encoder import WriteEncoder
    from yowsup.layers.coder.decoder import ReadDecoder
    from yowsup.layers.coder.tokendictionary import TokenDictionary
    return locals()


Y = None


def y():
    global Y
    if Y is None:
        Y = _imports()
    return Y


class FakeStack(object):
    def __init__(self):
        self.p = {}

    def getProp(self, k, d=None):
        return self.p.get(k, d)

    def setProp(self, k, v):
        self.p[k] = v

    def execDetached(self, fn):
        fn()


class Abort(BaseException):
    pass


# ------------------------------------------------------------------ scheduler
class Sched(object):
    """Only the thread holding the baton runs.  Managed threads hand it back at every yield_()."""

    def __init__(self, choose):
        self.choose = choose
        self.ctl = threading.Semaphore(0)
        self.thr = collections.OrderedDict()
        self.by_ident = {}
        self.log = []
        self.trace = []            # (ready tuple, chosen)
        self.decisions = []        # per scheduling decision: the pending operation of every ready thread
        self.abort = False
        self.unmodelled = None
        self.anomalies = []
        self.nspawn = 0
        self.unknown_ops = []      # operations the C04 model has no step for (try-lock found busy, locked() probe)
        self.at_yield = None       # callback run at every scheduling point (abstraction checks)

    # --- registration
    def add(self, tid, thread):
        self.thr[tid] = {"go": threading.Semaphore(0), "pred": None, "op": "start",
                         "state": "ready", "thread": thread}

    def me(self):
        return self.by_ident.get(threading.get_ident())

    def note(self, code, arg=0):
        tid = self.me()
        self.log.append((tid if tid is not None else 99, code, int(arg)))

    # --- thread side
    def enter(self, tid):
        t = self.thr[tid]
        t["go"].acquire()
        self.by_ident[threading.get_ident()] = tid
        if self.abort:
            raise Abort()

    def yield_(self, op, pred=None):
        tid = self.me()
        if tid is None:
            return
        t = self.thr[tid]
        t["pred"], t["op"], t["state"] = pred, op, "ready"
        if self.at_yield:
            self.at_yield(op)
        self.ctl.release()
        t["go"].acquire()
        if self.abort:
            raise Abort()

    def leave(self, tid, state):
        self.thr[tid]["state"] = state
        self.ctl.release()

    # --- controller side (main thread)
    def loop(self):
        while True:
            ready = [tid for tid, t in self.thr.items()
                     if t["state"] == "ready" and (t["pred"] is None or t["pred"]())]
            if not ready:
                return
            tid = self.choose(ready, self)
            self.trace.append((tuple(ready), tid))
            self.decisions.append({t: self.thr[t]["op"] for t in ready})
            t = self.thr[tid]
            t["state"] = "running"
            t["go"].release()
            if not self.ctl.acquire(timeout=WAIT):
                self.unmodelled = "thread %d did not reach a scheduling point within %.0fs after op %r " \
                                  "(blocked in something the scheduler does not instrument)" % (tid, WAIT, t["op"])
                return

    def shutdown(self):
        self.abort = True
        for t in self.thr.values():
            if t["state"] in ("ready", "running"):
                t["go"].release()
        for t in self.thr.values():
            th = t["thread"]
            if th is not None and th.is_alive() and th is not threading.current_thread():
                th.join(timeout=2.0)

    def status(self):
        return {tid: (t["state"] if t["state"] != "ready" else "blocked:" + t["op"]) for tid, t in self.thr.items()}


class IQueue(object):
    """Queue.Queue replacement for a scheduled run (FIFO; only the baton holder runs)."""

    def __init__(self, sched, rig, visible):
        self.s, self.rig, self.visible = sched, rig, visible
        self.d = collections.deque()

    def put(self, item, block=True, timeout=None):
        if self.visible:
            self.s.yield_("put")
            self.d.append(item)
            self.s.note(4, self.rig.sid(item))
        else:
            self.d.append(item)

    put_nowait = put

    def get(self, block=True, timeout=None):
        if self.visible:
            self.s.yield_("get", pred=lambda: len(self.d) > 0)
            item = self.d.popleft()
            self.s.note(5, self.rig.sid(item))
            # scheduling point right AFTER the dequeue returned, outside the flush lock: the handshake worker sits
            # here (and in consonance's opaque handshake code that follows) between taking the server hello and
            # the finish / state change; the network thread can deliver a disconnect / the next frames there.
            # (Under the flush lock the others can only put / test / block: no new behaviour, see Top.receive.)
            if getattr(self.rig.noise._flush_lock, "owner", None) != self.s.me():
                self.s.yield_("got")
            return item
        if not self.d:
            self.s.anomalies.append("stream queue empty at get: a thread would block inside the segmented stream")
            self.s.yield_("streamget", pred=lambda: len(self.d) > 0)
        return self.d.popleft()

    def get_nowait(self):
        return self.get(False)

    def qsize(self):
        if self.visible:
            self.s.yield_("size")
            self.s.note(6, len(self.d))
        return len(self.d)

    def empty(self):
        return self.qsize() == 0

    def __len__(self):
        return len(self.d)


class ILock(object):
    def __init__(self, sched):
        self.s = sched
        self.owner = None

    def acquire(self, blocking=True, timeout=-1):
        if not blocking or (timeout is not None and timeout >= 0):
            # try-lock / timed acquire: a scheduling point BEFORE the attempt; the outcome is fixed when the
            # thread is scheduled.  got = an acquire (16); busy = an operation the model does not know (19):
            # the trace replay breaks there (tie broken) and the line-level escalation is started.
            # (A timed acquire is given up at once when the lock is held: under the baton scheduler no time
            # passes, and a holder that never releases would otherwise hide the give-up path.)
            self.s.yield_("try")
            if self.owner is None:
                self.owner = self.s.me()
                self.s.note(16)
                return True
            self.s.note(19, 1 if blocking else 0)
            self.s.unknown_ops.append("try:busy")
            return False
        self.s.yield_("acq", pred=lambda: self.owner is None)
        self.owner = self.s.me()
        self.s.note(16)
        return True

    def release(self, unwinding=None):
        self.s.yield_("rel")
        self.owner = None
        self.s.note(17)
        # scheduling point AFTER the release: whatever the thread still does with what it took from the queue
        # (e.g. delivering frames upward outside the lock) can be overtaken by another thread's whole flush.
        # Not while an exception unwinds through a finally / with block: the thread is dying, its clean-up
        # release and its death are one observation.
        if unwinding is None:
            unwinding = sys.exc_info()[0] is not None
        if not unwinding:
            self.s.yield_("released")

    def locked(self):
        # a probe of the lock is a check-then-act step of its own: scheduling point, outcome recorded (20),
        # unknown to the model.  Unmanaged callers (other harnesses reading the attribute) just get the answer.
        if self.s.me() is not None:
            self.s.yield_("locked?")
            self.s.note(20, 1 if self.owner is not None else 0)
            self.s.unknown_ops.append("locked?")
        return self.owner is not None

    def __enter__(self):
        self.acquire()
        return self

    def __exit__(self, *a):
        self.release(unwinding=bool(a and a[0] is not None))


PST = {"init": 0, "handshake": 1, "transport": 2, "error": 3}

LINE_ROOTS = ("_flush_incoming_buffer", "receive", "_on_protocol_state_changed", "on_handshake_finished",
              "_handle_stream_event", "on_disconnected")


def noise_layer_codes(roots=LINE_ROOTS):
    """Code objects that get line-level scheduling points in an escalated run: the named methods of
    YowNoiseLayer and every function defined in yowsup/layers/noise/layer.py (methods of the class, private
    helpers, module-level functions) they can reach by name (transitive closure over co_names)."""
    import yowsup.layers.noise.layer as L
    fn = L.__file__
    funcs = {}
    for owner in (vars(L), vars(L.YowNoiseLayer)):
        for n, f in owner.items():
            f = getattr(f, "__func__", f)
            f = getattr(f, "__wrapped__", f)
            c = getattr(f, "__code__", None)
            if c is not None and c.co_filename == fn:
                funcs[n] = c
    todo, seen = list(roots), []
    while todo:
        n = todo.pop()
        if n in seen or n not in funcs:
            continue
        seen.append(n)
        todo.extend(x for x in funcs[n].co_names if x in funcs and x not in seen)
        todo.extend(x.co_name for x in funcs[n].co_consts if hasattr(x, "co_name"))
    out = [funcs[n] for n in seen]
    # the handshake worker's run(): the steps around consonance's (opaque) handshake call
    from yowsup.layers.noise.workers.handshake import WANoiseProtocolHandshakeWorker as W
    run = getattr(W.run, "__code__", None)
    if run is not None:
        out.append(run)
    return out


class LineYields(object):
    """Line-level preemption inside the noise layer's flush / receive / state-change code: sys.monitoring
    LINE events of those code objects only; each is a scheduling point of the baton scheduler (no model step,
    nothing recorded in the operation trace).  Makes check-then-act windows schedulable that no queue / lock
    operation separates (e.g. between the last qsize() test of a flusher and what it does next)."""
    TOOL = 3

    def __init__(self, sched):
        self.sched = sched
        self.codes = []

    def __enter__(self):
        mon = sys.monitoring
        self.codes = noise_layer_codes()
        mon.use_tool_id(self.TOOL, "c04-line")
        sched = self.sched

        def cb(code, line):
            if sched.me() is not None and not sched.abort:
                sched.yield_("line")
        mon.register_callback(self.TOOL, mon.events.LINE, cb)
        for c in self.codes:
            mon.set_local_events(self.TOOL, c, mon.events.LINE)
        return self

    def __exit__(self, *a):
        mon = sys.monitoring
        for c in self.codes:
            mon.set_local_events(self.TOOL, c, 0)
        mon.register_callback(self.TOOL, mon.events.LINE, None)
        mon.free_tool_id(self.TOOL)


def expected_presented_for(phone, passive, pushname=None, mcc=None, mnc=None, fdid=None):
    """The ClientPayload fields the property names, for a configuration (what on_auth must present when
    the auth event says `passive` and the profile config holds these values at that moment)."""
    from yowsup.env import YowsupEnv
    env = YowsupEnv.getCurrent()
    return {"username": int(phone), "passive": bool(passive),
            "push_name": pushname or "yowsup", "platform": 0,
            "mcc": mcc or "000", "mnc": mnc or "000", "os_version": env.getOSVersion(),
            "manufacturer": env.getManufacturer(), "device": env.getDeviceName(),
            "os_build_number": env.getOSVersion(), "phone_id": fdid or "",
            "lang": "en", "country": "US", "app_version": env.getVersion(), "short_connect": True}


# ------------------------------------------------------------------ rig
class Rig(object):
    def __init__(self, scratch, name, variant, edge=None, passive=False, pushname=None, mcc=None, mnc=None,
                 fdid=None, phone="4915112345678"):
        m = y()
        from dissononce.dh.x25519.x25519 import X25519DH
        from consonance.structs.publickey import PublicKey
        from consonance.structs.keypair import KeyPair
        self.m = m
        self.variant = variant
        self.server_kp = X25519DH().generate_keypair()
        self.other_pub = X25519DH().generate_keypair().public.data
        # key codes: 0 none, 1 the server's first key, 2 a stale key nobody owns, 3 / 4 keys the server
        # rotates to in later logins of a history (the responder of a connection uses self.server_kp)
        self.server_kps = {1: self.server_kp, 3: X25519DH().generate_keypair(), 4: X25519DH().generate_keypair()}
        self.srv = 1
        stored = None
        if variant == "IK":
            stored = PublicKey(self.server_kp.public.data)
        elif variant == "FB":
            stored = PublicKey(self.other_pub)
        self.stored0 = {"XX": 0, "IK": 1, "FB": 2}[variant]
        self.passive = passive
        self.expect = {"phone": phone, "pushname": pushname, "mcc": mcc, "mnc": mnc, "fdid": fdid, "edge": edge}
        self.config = m["Config"](phone=phone, client_static_keypair=KeyPair.generate(),
                                  server_static_public=stored, edge_routing_info=edge, pushname=pushname,
                                  mcc=mcc, mnc=mnc, fdid=fdid)
        self.name = name
        self.profile_dir = m["StorageTools"].getStorageForProfile(name)
        os.makedirs(self.profile_dir, exist_ok=True)     # yowsup does not create it (C19's concern)
        self.profile = m["YowProfile"](name, self.config)
        self.profile.write_config(self.config)            # so that the stored key is observable on disk

        rig = self

        class Top(m["YowLayer"]):
            def __init__(self):
                super(Top, self).__init__()
                self.got = []        # ('up', id) | ('failure', reason) | ('event', name)

            def receive(self, node):
                # scheduling point at the arrival of a stanza above noise+coder (= the noise layer's toUpper):
                # another thread can run a whole receive() between two deliveries / between a lock release and
                # the delivery that follows it
                # (not while this thread holds the flush lock: there the others can only put / test the state /
                # block on the lock, all of which they can equally do at the adjacent queue operations, so the
                # point would add schedules but no behaviour)
                if rig.sched is not None and getattr(rig.noise._flush_lock, "owner", None) != rig.sched.me():
                    rig.sched.yield_("up")
                if node.tag == "failure":
                    self.got.append(("failure", node["reason"]))
                    rig.note(13)
                else:
                    self.got.append(("up", node["id"], node.tag, bytes(node.getData() or b"")))
                    rig.note(12, int(node["id"][1:]) if node["id"] and node["id"][1:].isdigit() else 998)
                if rig.on_top:
                    rig.on_top(node)

            def onEvent(self, e):
                if e.getName() == m["YowNoiseLayer"].EVENT_HANDSHAKE_FAILED:
                    self.got.append(("event", e.getName()))
                    rig.note(14)
                return False

        class Bottom(m["YowLayer"]):
            def send(self, d):
                rig.written.extend(bytes(d))
                rig.resp.feed(bytes(d))

        self.top, self.bottom = Top(), Bottom()
        self.seg, self.noise, self.coder = m["YowNoiseSegmentsLayer"](), m["YowNoiseLayer"](), m["YowCoderLayer"]()
        layers = [self.bottom, self.seg, self.noise, self.coder, self.top]
        self.stack = FakeStack()
        for i, l in enumerate(layers):
            l.setLayers(layers[i + 1] if i + 1 < len(layers) else None, layers[i - 1] if i > 0 else None)
            l.setStack(self.stack)
        self.stack.setProp("profile", self.profile)
        self.enc = m["WriteEncoder"](m["TokenDictionary"]())
        self.dec = m["ReadDecoder"](m["TokenDictionary"]())
        self.sched = None
        self.on_top = None
        self.resp = None
        self.resps = []
        self.written = bytearray()
        self.sids = {}
        self.corrupt = None

    # ---- helpers
    def note(self, code, arg=0):
        if self.sched is not None:
            self.sched.note(code, arg)

    def sid(self, item):
        # 997: bytes the rig did not produce; 996: something that is not a segment at all (e.g. a sentinel
        # object the code itself queued) - neither is a server segment
        if not isinstance(item, (bytes, bytearray, memoryview)):
            return 996
        return self.sids.get(bytes(item), 997)

    def rs_code(self, pk):
        if pk is None:
            return 0
        d = bytes(pk.data)
        for code, kp in self.server_kps.items():
            if d == kp.public.data:
                return code
        return 2 if d == self.other_pub else 9

    def apply_login(self, over):
        """Change the configuration before the next auth event (a later login of a history on this same
        stack instance): passive flag of the auth event, profile config attributes, the key the server
        answers with, corruption of its hello.  Only public attributes of Config are set."""
        if "passive" in over:
            self.passive = bool(over["passive"])
        for k in ("pushname", "mcc", "mnc", "fdid"):
            if k in over:
                self.expect[k] = over[k]
                setattr(self.config, k, over[k])
        if "srv" in over:
            self.srv = int(over["srv"])
            self.server_kp = self.server_kps[self.srv]
        if "corrupt" in over:
            self.corrupt = over["corrupt"]

    def connect(self):
        self.resp = NZ.Responder(self.server_kp, corrupt_hello=self.corrupt)
        self.resp.srv = self.srv
        self.resp.on_unit = lambda kind: self.note(11, {"prologue": 0, "hello": 1, "finish": 2, "edge": 3,
                                                         "routing": 4, "data": 5}[kind])
        self.resps.append(self.resp)
        return self.resp

    def auth(self):
        m = self.m
        self.connect()
        self.top.broadcastEvent(m["YowLayerEvent"](m["YowAuthenticationProtocolLayer"].EVENT_AUTH,
                                                   passive=self.passive))

    def disconnect(self):
        m = self.m
        self.bottom.emitEvent(m["YowLayerEvent"](m["YowNetworkLayer"].EVENT_STATE_DISCONNECTED,
                                                 reason="cut"))

    def stanza(self, sid, size=0, fill=b""):
        m = self.m
        data = (fill * (size // max(1, len(fill)) + 1))[:size] if size else None
        node = m["ProtocolTreeNode"]("message", {"id": "s%d" % sid, "from": "s.whatsapp.net"}, None, data)
        return bytes(self.enc.protocolTreeNodeToBytes(node))

    def disk_rs(self):
        from yowsup.config.manager import ConfigManager
        c = ConfigManager().load(self.name)
        return self.rs_code(c.server_static_public) if c is not None else None

    def expected_prologue(self):
        e = self.expect["edge"]
        return (NZ.EDGE + NZ.wire(e) if e else b"") + NZ.PROLOGUE

    def expected_presented(self):
        e = self.expect
        return expected_presented_for(e["phone"], self.passive, e["pushname"], e["mcc"], e["mnc"], e["fdid"])

    # ---- instrumentation for a scheduled run
    def instrument(self, sched):
        self.sched = sched
        n = self.noise
        n._incoming_segments_queue = IQueue(sched, self, True)
        n._flush_lock = ILock(sched)
        st = n._stream
        st._readqueue = IQueue(sched, self, False)
        st._writequeue = IQueue(sched, self, False)
        orig_chk = n._in_handshake

        def chk():
            sched.yield_("chk")
            r = orig_chk()
            sched.note(1, 1 if r else 0)
            return r
        n._in_handshake = chk
        orig_wc = self.profile.write_config

        def wc(config):
            sched.yield_("persist")
            sched.note(15, self.rs_code(config.server_static_public))
            return orig_wc(config)
        self.profile.write_config = wc
        mach = n._wa_noiseprotocol._machine
        mach.after_state_change.insert(0, lambda: sched.note(3, PST.get(mach.state, 9)))

        def at_yield(op):
            # (line-level points and the pre-transition point are not model steps: inside _handle_stream_event the
            #  stream legitimately holds the segment it is handing over)
            if op not in ("streamget", "line", "st") and (len(st._readqueue) or len(st._writequeue)):
                sched.anomalies.append("segmented-stream queue not empty at scheduling point %r" % op)
        sched.at_yield = at_yield


# ------------------------------------------------------------------ chunking
def chunks_of(rng, data, style):
    """cut `data` into chunks; style: 'whole' | 'bytes' | 'small' | 'rand'"""
    if style == "whole" or len(data) <= 1:
        return [data]
    if style == "bytes":
        return [data[i:i + 1] for i in range(len(data))]
    out, pos = [], 0
    while pos < len(data):
        n = rng.randint(1, 7) if style == "small" else rng.choice([1, 2, 3, 4, 5, 16, 64, 300, 5000])
        out.append(data[pos:pos + n])
        pos += n
    return out


# ------------------------------------------------------------------ scheduled run
def run_scheduled(scratch, name, scn, choose, rng):
    """scn: dict(variant, edge, passive, corrupt, script=[('auth',)|('auth', {overrides})|('disc',)|('hello',)|
                ('data',sid)...], chunk='whole'|..., hold=[bool per script item], quiesce=bool)
    ('auth', {...}): a later login of a history; the dict changes the configuration in force before the
    auth event is emitted (Rig.apply_login).  quiesce: the network thread handles a disconnect/auth event
    only when no handshake worker is alive (histories inside the proved reconnect domain).
    Returns observation dict."""
    m = y()
    rig = Rig(scratch, name, scn["variant"], edge=scn.get("edge"), passive=scn.get("passive", False),
              pushname=scn.get("pushname"), mcc=scn.get("mcc"), mnc=scn.get("mnc"), fdid=scn.get("fdid"))
    rig.corrupt = scn.get("corrupt")
    sched = Sched(choose)
    rig.instrument(sched)
    script = scn["script"]
    chunk_log = []
    cut_live = []          # per disconnect event: was a handshake worker of an earlier attempt still alive?
    logins = []            # per auth event: the configuration in force when it was emitted
    auth_state = []        # per auth event: earlier workers still alive? server segments still queued?
    cur = {"att": -1}

    def workers_alive():
        return any(t["state"] not in ("done", "crashed") for tid, t in sched.thr.items() if tid != 0)

    def available(i):
        it = script[i]
        if it[0] == "hello":
            return rig.resp is not None and any(k == "hello" for k, _ in rig.resp.out)
        if it[0] == "data":
            return rig.resp is not None and rig.resp.can_send()
        if scn.get("quiesce") and it[0] in ("auth", "disc"):
            return not workers_alive()
        return True

    def gated(i):
        # gate_from: script items from this index on reach the network thread only once the protocol state is
        # transport (frames the server sends after the handshake completed, as opposed to frames pushed right
        # behind the server hello)
        g = scn.get("gate_from")
        if g is not None and i >= g and rig.noise._wa_noiseprotocol.state != "transport":
            return True
        # idle_from: script items from this index on arrive only when every handshake worker has ended (a frame
        # the server sends much later; used to tell a frame that is lost from one that is merely late)
        q = scn.get("idle_from")
        if q is not None and i >= q and workers_alive():
            return True
        # cut_after_dequeue: a disconnect event is delivered only once a handshake worker has dequeued the server
        # hello of the current connection (the attempt is cut off AFTER the server answered, while the worker sits
        # between the dequeue and finish / the state change - or later)
        if scn.get("cut_after_dequeue") and script[i][0] == "disc":
            return not any(t != 0 and c == 5 and v == 101 + cur["att"] for t, c, v in sched.log)
        return False

    def nt_body():
        buf = bytearray()
        att = -1
        for i, it in enumerate(script):
            sched.yield_("event", pred=lambda i=i: available(i) and not gated(i))
            if it[0] == "auth":
                att += 1
                cur["att"] = att
                auth_state.append({"workers_alive": workers_alive(),
                                   "queued": [rig.sid(x) for x in rig.noise._incoming_segments_queue.d]})
                if len(it) > 1 and it[1]:
                    rig.apply_login(it[1])
                logins.append({"configured": rig.expected_presented(), "srv": rig.srv, "corrupt": rig.corrupt})
                rig.auth()
                continue
            if it[0] == "disc":
                cut_live.append(workers_alive())
                rig.disconnect()
                continue
            if it[0] == "hello":
                idx = [k for k, _ in rig.resp.out].index("hello")
                seg = rig.resp.out.pop(idx)[1]
                rig.sids[seg] = 101 + att
            else:
                seg = rig.resp.encrypt(rig.stanza(it[1], *it[2:]))
                rig.resp.out.pop()
                rig.sids[seg] = it[1]
            buf.extend(NZ.wire(seg))
            hold = 0
            if scn.get("hold") and scn["hold"][i] and i + 1 < len(script) and script[i + 1][0] == "data" \
                    and available(i + 1) and len(buf) > 1:
                hold = rng.randint(1, min(len(buf) - 1, 40))
            if i in (scn.get("glue") or ()) and i + 1 < len(script) and script[i + 1][0] == "data" \
                    and available(i + 1) and not gated(i + 1):
                hold = len(buf)          # glue: this segment goes up in the SAME read as the next one
            feed = bytes(buf[:len(buf) - hold])
            del buf[:len(buf) - hold]
            for c in (chunks_of(rng, feed, scn.get("chunk", "whole")) if feed else []):
                chunk_log.append(len(c))
                rig.seg.receive(c)

    def nt_run():
        try:
            sched.enter(0)
            nt_body()
            sched.leave(0, "done")
        except Abort:
            pass
        except BaseException as e:      # a crash of the network thread is an observation
            sched.note(18)
            sched.thr[0]["exc"] = repr(e)[:200]
            sched.leave(0, "crashed")

    nt = threading.Thread(target=nt_run, daemon=True)
    sched.add(0, nt)

    orig_start = threading.Thread.start

    def patched_start(th):
        parent = sched.me()
        if parent is None or th is nt:
            return orig_start(th)
        sched.yield_("spawn")
        a = sched.nspawn
        sched.nspawn += 1
        tid = a + 1
        sched.add(tid, th)
        orig_run = th.run

        def run():
            try:
                sched.enter(tid)
                orig_run()
                sched.leave(tid, "done")
            except Abort:
                pass
            except BaseException as e:
                sched.note(18)
                sched.thr[tid]["exc"] = repr(e)[:200]
                sched.leave(tid, "crashed")
        th.run = run
        sched.note(2, a)
        return orig_start(th)

    threading.Thread.start = patched_start
    lines = LineYields(sched) if scn.get("line_level") else None
    if lines is not None:
        # ... and a point BEFORE every transition of the protocol state machine (finish / reset / start / fail)
        rig.noise._wa_noiseprotocol._machine.before_state_change.insert(0, lambda: sched.yield_("st"))
    try:
        if lines is not None:
            lines.__enter__()
        orig_start(nt)
        sched.loop()
    finally:
        threading.Thread.start = orig_start
        status = sched.status()
        inq_left = [rig.sid(x) for x in rig.noise._incoming_segments_queue.d]
        lock_owner = rig.noise._flush_lock.owner
        sched.shutdown()
        if lines is not None:
            lines.__exit__(None, None, None)
    obs = {
        "log": sched.log, "status": status, "trace": [c for _, c in sched.trace],
        "ready_sets": [list(r) for r, _ in sched.trace], "decisions": sched.decisions,
        "unknown_ops": list(sched.unknown_ops),
        "unmodelled": sched.unmodelled, "anomalies": sched.anomalies,
        "top": rig.top.got, "state": PST.get(rig.noise._wa_noiseprotocol.state, 9),
        "inq_left": inq_left, "lock_owner": lock_owner,
        "written": bytes(rig.written), "disk_rs": rig.disk_rs(), "chunks": chunk_log,
        "logins": logins,
        "auth_state": auth_state,
        "resp": [{"variant": r.variant, "errors": r.errors, "units": [k for k, _ in r.units], "srv": getattr(r, "srv", 1),
                  "established": r.can_send(),
                  "presented": NZ.presented(r.client_payload) if r.client_payload is not None else None,
                  "received": r.received} for r in rig.resps],
        "expected_prologue": rig.expected_prologue(), "expected_presented": rig.expected_presented(),
        "exc": {tid: t.get("exc") for tid, t in sched.thr.items() if t.get("exc")},
        "cut_live": cut_live,
    }
    return obs


# ------------------------------------------------------------------ unscheduled soak (real queues, locks, threads)
def run_soak(scratch, name, scn, rng):
    """Plain multi-threaded run: the calling thread is the network thread feeding randomly chunked
    server bytes; a second thread sends client stanzas once the first server stanza arrived."""
    m = y()
    rig = Rig(scratch, name, scn["variant"], edge=scn.get("edge"), passive=scn.get("passive", False),
              pushname=scn.get("pushname"), mcc=scn.get("mcc"), mnc=scn.get("mnc"), fdid=scn.get("fdid"))
    rig.corrupt = scn.get("corrupt")
    n_down, n_up = scn["n_server"], scn["n_client"]
    if scn.get("corrupt") is not None:
        n_down = 0          # a server whose hello failed authentication sends no frames (environment assumption)
    blocks = []
    first = threading.Event()
    rig.on_top = lambda node: first.set()
    client_sent = []

    def wait(cond, what):
        t0 = time.time()
        while not cond():
            if time.time() - t0 > WAIT:
                blocks.append("timeout waiting for " + what)
                return False
            time.sleep(0.0002)
        return True

    def sender():
        if scn.get("corrupt") is not None:
            return
        if not first.wait(WAIT):
            blocks.append("timeout: sender never saw a server stanza")
            return
        for i in range(n_up):
            node = m["ProtocolTreeNode"]("iq", {"id": "c%d" % i, "type": "get"}, None,
                                         rng_bytes[i] if rng_bytes[i] else None)
            client_sent.append(("c%d" % i, rng_bytes[i]))
            try:
                rig.top.toLower(node)
            except BaseException as e:
                blocks.append("sender raised %r" % (e,))
                return

    rng_bytes = [rng.randbytes(rng.choice([0, 1, 5, 40, 300, 3000])) for _ in range(n_up)]
    sizes = [rng.choice([0, 0, 1, 10, 100, 1000, 20000]) for _ in range(n_down)]
    th = threading.Thread(target=sender, daemon=True)
    th.start()
    rig.auth()
    ok = wait(lambda: any(k == "hello" for k, _ in rig.resp.out), "client hello at the server")
    sent = []
    if ok:
        hello = rig.resp.out.pop(0)[1]
        buf = bytearray(NZ.wire(hello))
        burst = scn.get("burst", True)
        i = 0
        while i < n_down or buf:
            # append as many stanzas as the server can produce right now (burst), else feed what we have
            while i < n_down and rig.resp.can_send() and (burst or not buf):
                fill = bytes([65 + i % 26])
                seg = rig.resp.encrypt(rig.stanza(i, sizes[i], fill))
                rig.resp.out.pop()
                sent.append(("s%d" % i, (fill * sizes[i])[:sizes[i]]))
                buf.extend(NZ.wire(seg))
                i += 1
                if not burst or rng.random() < 0.3:
                    break
            if buf:
                k = rng.choice([1, 2, 3, 5, 7, 64, 1000, 100000])
                c = bytes(buf[:k])
                del buf[:k]
                try:
                    rig.seg.receive(c)
                except BaseException as e:
                    blocks.append("network thread raised %r" % (e,))
                    break
            elif i < n_down:
                if scn.get("corrupt") is not None:
                    break
                if not wait(rig.resp.can_send, "server transport keys (client finish)"):
                    break
    if scn.get("corrupt") is None:
        wait(lambda: len([g for g in rig.top.got if g[0] == "up"]) >= n_down, "all server stanzas at the top")
        wait(lambda: len(rig.resp.received) >= n_up, "all client stanzas at the server")
    else:
        wait(lambda: any(g[0] == "failure" for g in rig.top.got), "failure stanza at the top")
    w = rig.noise._handshake_worker
    if w is not None:
        w.join(WAIT)
        if w.is_alive():
            blocks.append("handshake worker still alive (waiting) after the run")
    th.join(WAIT)
    got_server = []
    for b in rig.resp.received:
        if b is None:
            got_server.append(None)
            continue
        node = rig.dec.getProtocolTreeNode(bytearray(b))
        got_server.append((node["id"], bytes(node.getData() or b"")))
    return {"blocks": blocks, "top": rig.top.got, "sent": sent, "client_sent": client_sent,
            "server_got": got_server, "resp_errors": rig.resp.errors,
            "presented": NZ.presented(rig.resp.client_payload) if rig.resp.client_payload is not None else None,
            "expected_presented": rig.expected_presented(), "disk_rs": rig.disk_rs(),
            "state": rig.noise._wa_noiseprotocol.state, "written_prefix": bytes(rig.written[:64]),
            "expected_prologue": rig.expected_prologue(), "variant_seen": rig.resp.variant}
