"""C17 - storage READ FAULT during the trust decision, for accounts of the world simulator.

read_fault(account, k, n): armed for the duration of one world operation.  Of the SELECTs the account's key store
runs on the `identities` table from now on (the trust lookup isTrustedIdentity, the own key pair, the own registration
id) the k-th and the n-1 following raise  sqlite3.OperationalError("database is locked")  - what SQLite answers when
another connection holds the database past the busy timeout.  Deterministic: the store objects' `dbConn` attribute
(every sub-store of the account's LiteAxolotlStore that has one) is replaced by a thin delegating proxy whose
cursor().execute / execute / executemany raise for matching statements; everything else goes to the real connection.

While armed, an input the account handles may end in that OperationalError leaving the stack: the input ABORTED.
The killer-style wrappers on Account.inject / Account.app_send catch exactly that exception, mark the recorder's event
(ev["aborted"] = True, ev["faulted"] = number of lookups refused so far in this input) and take the snapshots the
normal path would have taken.  Any other exception still propagates (and is reported by the check).
"""
import re, sqlite3

_SEL = re.compile(r"^\s*SELECT\b", re.I)
_IDS = re.compile(r"\bidentities\b", re.I)


class _Cursor(object):
    def __init__(self, cur, fault):
        self._cur, self._fault = cur, fault

    def execute(self, sql, *a):
        self._fault.check(sql)
        self._cur.execute(sql, *a)
        return self

    def executemany(self, sql, *a):
        self._fault.check(sql)
        self._cur.executemany(sql, *a)
        return self

    def __getattr__(self, name):
        return getattr(self._cur, name)

    def __iter__(self):
        return iter(self._cur)


class _Conn(object):
    def __init__(self, real, fault):
        object.__setattr__(self, "_real", real)
        object.__setattr__(self, "_fault", fault)

    def cursor(self, *a):
        return _Cursor(self._real.cursor(*a), self._fault)

    def execute(self, sql, *a):
        self._fault.check(sql)
        return self._real.execute(sql, *a)

    def executemany(self, sql, *a):
        self._fault.check(sql)
        return self._real.executemany(sql, *a)

    def __enter__(self):
        self._real.__enter__()
        return self

    def __exit__(self, et, ev, tb):
        return self._real.__exit__(et, ev, tb)

    def __setattr__(self, k, v):
        setattr(self._real, k, v)

    def __getattr__(self, name):
        return getattr(self._real, name)


class ReadFault(object):
    def __init__(self, world, acct, k, n):
        self.w, self.acct, self.k, self.n = world, acct, int(k), int(n)
        self.seen = 0             # matching SELECTs executed (or refused) since arming
        self.refused = 0
        self.refused_in_input = 0
        self.armed = False
        self.installed = 0        # store objects whose connection was proxied
        self._undo = []

    def check(self, sql):
        if not self.armed or not isinstance(sql, str) or not _SEL.match(sql) or not _IDS.search(sql):
            return
        self.seen += 1
        if self.k <= self.seen < self.k + self.n:
            self.refused += 1
            self.refused_in_input += 1
            raise sqlite3.OperationalError("database is locked")

    def arm(self):
        a = self.acct
        if a.stack is None:
            return False
        try:
            store = a.manager._store
        except Exception:
            return False
        subs = [store] + [v for v in vars(store).values() if hasattr(v, "__dict__")]
        for s in subs:
            if "dbConn" in getattr(s, "__dict__", {}) and not isinstance(s.dbConn, _Conn):
                real = s.dbConn
                s.dbConn = _Conn(real, self)
                self._undo.append((s, "dbConn", True, real))
                self.installed += 1
        if not self.installed:
            return False
        fault = self

        def wrap(obj, name, fn):
            old = getattr(obj, name)
            setattr(obj, name, fn(old))
            self._undo.append((obj, name, False, old))

        def guarded(old, snapshot):
            def f(*args, **kw):
                fault.refused_in_input = 0
                try:
                    return old(*args, **kw)
                except sqlite3.OperationalError as e:
                    if "locked" not in str(e) or not fault.refused_in_input:
                        raise
                    obs = fault.w.observer
                    if obs is not None and getattr(obs, "_cur", None) is not None:
                        ev = obs._cur
                        ev["aborted"] = True
                        ev["faulted"] = fault.refused_in_input
                        if ev.get("tag") == "keys":
                            for u in ev["users"]:
                                st = obs.session_states(a, u["phone"])
                                u["sid"] = st[0][0] if st else 0
                        obs._snapshot(a, ev)
            return f
        wrap(a, "inject", lambda old: guarded(old, True))
        wrap(a, "app_send", lambda old: guarded(old, True))
        self.armed = True
        return True

    def disarm(self):
        self.armed = False
        for obj, name, was_attr, old in reversed(self._undo):
            try:
                if was_attr:
                    setattr(obj, name, old)
                else:
                    delattr(obj, name)
            except Exception:
                pass
        self._undo = []
