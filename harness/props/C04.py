"""C04 — encrypted transport: handshake succeeds, frames flow intact and in order (partial).

Model: coq/C04 (interleaving semantics of noise/layer.py + workers/handshake.py).
Implementation: real YowNoiseSegmentsLayer + YowNoiseLayer + YowCoderLayer + consonance, against a
Noise responder built from dissononce (harness/c04_noise.py), under a deterministic baton scheduler
(harness/c04_rig.py) and in an unscheduled multi-threaded soak."""
import random, time, json, hashlib
from .. import modelrun
from .. import c04_rig as R

ASSUME = [
    "partial: the Noise handshake cryptography, certificate check and protobuf parsing are ONE oracle bit "
    "(server hello authenticates / does not) in the model; AES-GCM transport decryption is 'segment i decrypts "
    "with counter i'; both are exercised for real (consonance/dissononce/cryptography) by the harness",
    "modelled, not verified: transitions.Machine (the four protocol states and which triggers are legal from "
    "which), queue.Queue FIFO semantics, threading.Lock, CPython bytecode-level atomicity of a single "
    "queue/lock/state operation; byte chunking is C05's theorem (any chunking => same segment sequence), "
    "composed here by random chunking of the server bytes in every run",
    "environment assumptions of the theorems: the server hello exists only after a client hello was written "
    "on that connection; a server whose hello failed authentication sends no frames; sends from above are "
    "serialised by the coder layer's lock (C12)",
    "tie: every scheduled real run's operation trace (thread, operation, value) is replayed step by step "
    "through the extracted model (same schedule, same deliveries, same final state); schedules are seeded "
    "random walks / priority schedules and exhaustive enumeration for small scenarios; scheduling points are "
    "the instance's queue/lock operations (incl. a point AFTER every release of the flush lock), every delivery "
    "to the layer above that happens outside the flush lock, _in_handshake, profile.write_config, thread start "
    "and script events; the window at handshake completion (frames queued during the handshake and flushed by "
    "the worker while the network thread receives the next frame) is searched with one / two preemptions at "
    "every scheduling point after the state became transport; a try-lock / timed acquire / locked() probe of the "
    "flush lock is a scheduling point with a recorded outcome ('busy' is unknown to the model: tie broken, "
    "line-level escalation inside YowNoiseLayer's flush / receive / state-change code); at quiescence the "
    "segment queue must be empty; the worker's dequeue of the server hello is followed by a scheduling point and "
    "the histories 'login cut off after the dequeue, then reconnect' are enumerated over the worker's positions; "
    "every login must establish the session or report <failure> (neither = hang); the open reconnect finding is "
    "matched by its mechanism (earlier worker alive / earlier server segments queued at an auth event), not by "
    "'a disconnect hit a live worker' alone",
    "presented payload: the model's auth events carry the configuration in force when they are emitted "
    "(account, passive flag, attribute tuple as opaque codes); the responder decrypts the ClientPayload of "
    "every connection; per connection it is compared with the model's prediction for that login (final "
    "state of the trace replay) and, directly, with the configuration the harness had set when it emitted "
    "the auth event; login histories (2-4 logins on one stack instance, configuration and server key "
    "changing in between) are generated inside the proved reconnect domain (the next disconnect/auth is "
    "handled when no handshake worker is alive)",
    "trusted: the Noise responder (server double), the scheduler's instrumentation of instance attributes "
    "(_incoming_segments_queue, _flush_lock, _in_handshake, profile.write_config, consonance's machine "
    "after_state_change hook, the segmented stream's two queues)",
]

KEY_RECONNECT = "reconnect:disconnect-while-handshake-worker-alive"
ROUTING = b"\x08\x01\x12\x04edge"


# ---------------------------------------------------------------- scenario <-> model
ATTR_KEYS = ["push_name", "mcc", "mnc", "phone_id", "platform", "app_version", "os_version", "manufacturer",
             "device", "os_build_number", "lang", "country", "short_connect"]
PHONE = "4915112345678"
STORED0 = {"XX": 0, "IK": 1, "FB": 2}


def code(v):
    """opaque attribute code for the model (it only ever compares / copies them)"""
    return int.from_bytes(hashlib.sha256(repr(v).encode("utf-8")).digest()[:6], "big")


def cfg_sx(p):
    """a configuration / presented payload as the model's (username passive (attribute codes))"""
    return [int(p.get("username") or 0), 1 if p.get("passive") else 0, [code(p.get(k)) for k in ATTR_KEYS]]


def login_plan(scn):
    """The logins of a scenario, from the scenario alone: per auth event the configuration in force
    (what must be presented), the key the server answers with, whether its hello is corrupted, whether a
    server hello is scripted for it, its transport segments, and the stored key before / after."""
    cur = {"passive": bool(scn.get("passive", False)), "pushname": scn.get("pushname"), "mcc": scn.get("mcc"),
           "mnc": scn.get("mnc"), "fdid": scn.get("fdid"), "srv": 1, "corrupt": scn.get("corrupt")}
    stored = STORED0[scn["variant"]]
    plan = []
    for it in scn["script"]:
        if it[0] == "auth":
            if len(it) > 1 and it[1]:
                cur.update(it[1])
            plan.append({"configured": R.expected_presented_for(PHONE, cur["passive"], cur["pushname"], cur["mcc"],
                                                                cur["mnc"], cur["fdid"]),
                         "srv": cur["srv"], "ok": cur["corrupt"] is None, "answered": False, "data": [],
                         "stored_before": stored, "stored_after": stored})
        elif it[0] == "hello" and plan:
            lg = plan[-1]
            lg["answered"] = True
            lg["stored_before"] = stored
            if lg["ok"]:
                stored = lg["srv"]
            lg["stored_after"] = stored
        elif it[0] == "data" and plan:
            plan[-1]["data"].append(it[1])
    return plan


def model_args(scn, obs=None):
    stored = STORED0[scn["variant"]]
    cfg = [0, 0, stored, 0, 0, 1 if scn.get("edge") else 0]
    plan = login_plan(scn)
    scr, att = [], 0
    cur_stored = stored
    for it in scn["script"]:
        if it[0] == "auth":
            att += 1
            scr.append([0] + cfg_sx(plan[att - 1]["configured"]))
        elif it[0] == "disc":
            scr.append([1])
        elif it[0] == "hello":
            lg = plan[att - 1]
            ok = 1 if lg["ok"] else 0
            static = 0 if cur_stored == lg["srv"] else lg["srv"]    # IK iff the client stored the server's key
            if obs is not None and att - 1 < len(obs["resp"]) and obs["resp"][att - 1]["variant"]:
                static = 0 if obs["resp"][att - 1]["variant"] == "IK" else lg["srv"]   # what this server really answered
            scr.append([2, 100 + att, att, ok, static])
            if ok:
                cur_stored = lg["srv"]
        else:
            scr.append([3, it[1]])
    return cfg, scr


def hexs(x):
    return x.hex() if isinstance(x, (bytes, bytearray)) else x


def scn_json(scn):
    d = dict(scn)
    d["edge"] = hexs(d.get("edge")) if d.get("edge") else None
    if "script" in scn:
        d["script"] = [[dict(x) if isinstance(x, dict) else x for x in i] for i in scn["script"]]
    return d


def scn_from_json(d):
    s = dict(d)
    s["edge"] = bytes.fromhex(s["edge"]) if s.get("edge") else None
    if "script" in s:
        s["script"] = [tuple(i) for i in s["script"]]
    return s


def fixed_chooser(prefix):
    pos = [0]

    def choose(ready, sched):
        i = pos[0]
        pos[0] += 1
        if i < len(prefix) and prefix[i] in ready:
            return prefix[i]
        return ready[0]
    return choose


def pct_chooser(rng, nthreads=4, depth=3, horizon=60):
    prio = list(range(nthreads))
    rng.shuffle(prio)
    change = set(rng.randint(1, horizon) for _ in range(depth))
    step = [0]

    def choose(ready, sched):
        step[0] += 1
        best = max(ready, key=lambda t: prio.index(t) if t < nthreads else -1)
        if step[0] in change and best < nthreads:
            prio.remove(best)
            prio.insert(0, best)
            best = max(ready, key=lambda t: prio.index(t) if t < nthreads else -1)
        return best
    return choose


# ---------------------------------------------------------------- one scheduled case
class Checker(object):
    def __init__(self, ctx, model):
        self.ctx, self.model = ctx, model
        self.n = 0
        self.distinct = set()
        self.kinds = {}
        self.mismatch = 0
        self.finding_seen = 0
        self.unknown_ops = 0
        self.classified = 0
        self.nocase = 0

    @staticmethod
    def history_is_finding(obs):
        """the open finding's history: a disconnect happened while the handshake worker of the attempt
        it cut off had not terminated (still waiting for / processing the server hello)"""
        return any(obs.get("cut_live", []))

    @staticmethod
    def finding_mechanism(obs):
        """The open finding's mechanism is visible in the history: when an auth event was handled, a handshake
        worker of an EARLIER attempt was still alive (blocked on the shared queue, not yet started, or running on
        the shared protocol object) or server segments of an earlier connection were still queued.  A disconnect
        that cut off a live worker which then ENDED before the next login, leaving no server segment behind, is
        not the finding: the next login starts from a clean slate (the domain of C04_reconnect_fresh_partial)
        and must work."""
        return any(a["workers_alive"] or any(x < 996 for x in a["queued"]) for a in obs.get("auth_state", []))

    @staticmethod
    def cut_logins(scn, obs):
        """indices of the logins that a disconnect event cut off while their handshake worker was alive"""
        out, auths, j = set(), 0, 0
        for it in scn["script"]:
            if it[0] == "auth":
                auths += 1
            elif it[0] == "disc":
                if j < len(obs.get("cut_live", [])) and obs["cut_live"][j] and auths:
                    out.add(auths - 1)
                j += 1
        return out

    def run_case(self, scn, chooser, chunk_seed, kind, name=None, record=True):
        ctx = self.ctx
        self.n += 1
        self.kinds[kind] = self.kinds.get(kind, 0) + 1
        obs = R.run_scheduled(ctx.scratch, name or ("c%d" % self.n), scn, chooser, random.Random(chunk_seed))
        case = {"mode": "scheduled", "scenario": scn_json(scn), "schedule": obs["trace"], "chunk_seed": chunk_seed}
        self.unknown_ops += len(obs.get("unknown_ops", ()))
        bad = self.judge(scn, obs, case, record=record)
        self.distinct.add((json.dumps(scn_json(scn), sort_keys=True), tuple(obs["trace"])))
        return obs, bad

    @staticmethod
    def presented_per_login(scn, obs):
        """the concrete history: which login presented which payload (and what was configured)"""
        plan = login_plan(scn)
        out = []
        for i, r in enumerate(obs["resp"]):
            conf = plan[i]["configured"] if i < len(plan) else None
            p = r["presented"]
            out.append({"login": i + 1, "handshake": r["variant"],
                        "configured": conf, "presented": None if p is None else {k: p.get(k) for k in (conf or p)}})
        return out

    def judge(self, scn, obs, case, verbose=False, record=True):
        """model replay + oracles; records violations; returns list of failed names"""
        ctx = self.ctx
        failed = []
        finding_hist = self.history_is_finding(obs)
        finding_key = finding_hist and self.finding_mechanism(obs)
        if len(login_plan(scn)) > 1:
            case = dict(case)
            case["logins"] = self.presented_per_login(scn, obs)

        def viol(name, extra, found_input=True):
            failed.append(name)
            c = dict(case)
            c.update(extra)
            if verbose:
                print("FAILED %s: %s" % (name, json.dumps(extra, default=str)[:600]))
            if not record:
                return
            if not found_input and name.startswith("correspondence:"):
                self.nocase += 1
                if self.nocase > 3:
                    return          # enough tie-broken records; keep searching for a failing input
            ctx.violation(name, c, found_input=found_input,
                          key=KEY_RECONNECT if (finding_key and name.startswith("oracle:")) else None)
            if finding_key and name.startswith("oracle:"):
                self.finding_seen += 1

        if obs["unmodelled"]:
            viol("unmodelled-block", {"observed": obs["unmodelled"], "status": obs["status"]})
            return failed
        if obs["anomalies"]:
            viol("correspondence:C04.stream-queues", {"observed": obs["anomalies"][:3]}, found_input=False)
        # ---- correspondence: replay the real trace through the model
        summ = None
        if self.model is not None:
            cfg, scr = model_args(scn, obs)
            log = [list(x) for x in obs["log"]]
            truncated = False
            if finding_hist and any(x[1] == 18 for x in log):
                # inside the open finding's histories the code is already broken once a thread has died;
                # the model is only required to follow the code up to the operation that kills the first thread
                k = next(i for i, x in enumerate(log) if x[1] == 18)
                dead = log[k][0]
                log = log[:k]
                while log and log[-1][0] == dead and log[-1][1] == 17:
                    log.pop()          # a release done by exception clean-up (with-statement / finally)
                truncated = True
            res = self.model.call("run_replay", [cfg, scr, log])
            if truncated and not isinstance(res, tuple) and res[0] == 3:
                res = [0, res[2]]
            if isinstance(res, tuple) or res[0] != 0:
                self.mismatch += 1
                viol("correspondence:C04.trace",
                     {"model_verdict": repr(res)[:500], "observed_log_prefix": obs["log"][:(res[1] + 3 if not isinstance(res, tuple) and res[0] in (1, 2) else 40)],
                      "meaning": "1=label differs (expected label given) 2=thread not enabled in the model 3=model labels left"},
                     found_input=bool(self.oracle_fail_names(scn, obs)))
            else:
                summ = res[1]
                if truncated:
                    summ = None
            if summ is not None:
                m_status = self.model_status(summ)
                r_status = self.real_status(obs)
                if m_status != r_status or summ[0] != obs["state"] or list(summ[1]) != obs["inq_left"] or \
                        (list(summ[2])[0] if summ[2] else None) != obs["lock_owner"]:
                    self.mismatch += 1
                    viol("correspondence:C04.final-state",
                         {"model": [m_status, summ[0], list(summ[1]), list(summ[2])],
                          "impl": [r_status, obs["state"], obs["inq_left"], obs["lock_owner"]]},
                         found_input=bool(self.oracle_fail_names(scn, obs)))
                # ---- the model's prediction of what each connection is presented (pres of the final state)
                pred = {}
                for cn, kind, payload in (summ[11] if len(summ) > 11 else []):
                    pred.setdefault((cn, kind), []).append([payload[0], 1 if payload[1] else 0, list(payload[2])])
                for i, r in enumerate(obs["resp"]):
                    if r["presented"] is None:
                        continue
                    seen = cfg_sx(r["presented"])
                    want = pred.get((i + 1, 1 if r["variant"] == "IK" else 2), [])
                    if (seen not in want) if finding_hist else (want != [seen]):
                        self.mismatch += 1
                        plan = login_plan(scn)
                        viol("correspondence:C04.presented",
                             {"login": i + 1, "handshake": r["variant"],
                              "model_predicts": "the configuration of auth event %d" % (i + 1),
                              "model_payload_codes": want, "impl_payload_codes": seen,
                              "configured": plan[i]["configured"] if i < len(plan) else None,
                              "presented": r["presented"]},
                             found_input=bool(self.oracle_fail_names(scn, obs)))
                        break
        # ---- property oracles directly on the implementation
        for name, extra in self.oracle_fail_names(scn, obs):
            if name in ("oracle:frames_in_order_once", "oracle:queue_empty_at_quiescence") and record \
                    and not finding_hist and self.classified < 3 and scn.get("idle_from") is None:
                extra = dict(extra)
                extra["lost_or_late"] = self.classify_loss(scn, obs, case.get("chunk_seed", 7))
            viol(name, extra)
        return failed

    @staticmethod
    def login_outcome(scn, obs, plan):
        """every login either establishes the session or reports <failure> upward by the time nothing can move
        any more; here for the LAST login when no disconnect follows it: neither = hang"""
        idx = [i for i, it in enumerate(scn["script"]) if it[0] == "auth"]
        if not idx or any(it[0] == "disc" for it in scn["script"][idx[-1]:]):
            return None
        k = len(idx) - 1
        lg = plan[k]
        if not lg["answered"]:
            return None
        kinds = [g[0] for g in obs["top"]]
        if lg["ok"]:
            est = obs["state"] == 2 and k < len(obs["resp"]) and obs["resp"][k]["established"]
            if not est and "failure" not in kinds[-2:]:
                return ("oracle:login_established_or_failed",
                        {"login": k + 1, "of_logins": len(plan), "protocol_state": obs["state"],
                         "server_has_session": bool(k < len(obs["resp"]) and obs["resp"][k]["established"]),
                         "top": [g[:2] for g in obs["top"]][-6:], "threads": obs["status"], "queue_left": obs["inq_left"],
                         "expected": "the server answered this login authentically: session established (state "
                                     "transport, server has the transport keys) - observed neither that nor a "
                                     "<failure> = the login hangs",
                         "note": "protocol_state 0 init 1 handshake 2 transport 3 error"})
        return None

    def oracle_after_clean_cut(self, scn, obs, plan, cut):
        """A disconnect cut off a login whose worker was alive, that worker ENDED before the next auth event and no
        server segment stayed queued: the cut-off login owes nothing (its frames may be delivered partly, its
        worker may have died of the reset), every other login owes everything."""
        out = []
        st = self.real_status(obs)
        bad = {t: v for t, v in st.items() if v != "done" and not (v == "crashed" and (t - 1) in cut)}
        if bad:
            out.append(("oracle:no_deadlock", {"observed": obs["status"], "exceptions": obs["exc"], "cut_off_logins": sorted(cut),
                                               "expected": "every thread ends (only the worker of a cut-off login may die of the reset)"}))
        toks = [("up", g[1]) if g[0] == "up" else (g[0],) for g in obs["top"]]

        def match(i, k):
            if k == len(plan):
                return i == len(toks)
            lg = plan[k]
            if not lg["answered"]:
                return match(i, k + 1)
            ups = [("up", "s%d" % d) for d in lg["data"]]
            full = ups if lg["ok"] else [("event",), ("failure",)]
            cands = [full] if k not in cut else [ups[:n] for n in range(len(ups) + 1)] + [[("event",), ("failure",)]]
            return any(toks[i:i + len(c)] == c and match(i + len(c), k + 1) for c in cands)
        if not match(0, 0):
            out.append(("oracle:frames_in_order_once",
                        {"observed": [t[-1] for t in toks], "cut_off_logins": [k + 1 for k in sorted(cut)],
                         "expected": "per login in order: all its frames once, or event+<failure>; a cut-off login any prefix"}))
        hang = self.login_outcome(scn, obs, plan)
        if hang:
            out.append(hang)
        if all(v in ("done", "crashed") for v in st.values()) and obs["inq_left"] and (len(plan) - 1) not in cut:
            out.append(("oracle:queue_empty_at_quiescence",
                        {"observed_queue": obs["inq_left"], "note": "996 = an object that is not a segment",
                         "expected": "_incoming_segments_queue empty when all threads are idle"}))
        answered = [k for k, lg in enumerate(plan) if lg["answered"]]
        if answered and answered[-1] not in cut and plan[answered[-1]]["ok"] and obs["disk_rs"] != plan[-1]["stored_after"]:
            out.append(("oracle:rs_persisted", {"observed_profile_key": obs["disk_rs"], "expected": plan[-1]["stored_after"]}))
        for i, r in enumerate(obs["resp"]):
            p = r["presented"]
            if p is None or i >= len(plan):
                continue
            diff = {k: (p.get(k), v) for k, v in plan[i]["configured"].items() if p.get(k) != v}
            if diff:
                out.append(("oracle:presented", {"login": i + 1, "observed_vs_configured": diff}))
                break
        return out

    def classify_loss(self, scn, obs, chunk_seed):
        """frames missing at quiescence: same scenario and schedule plus ONE more server frame long after
        (when every worker has ended) - does it bring the stranded frames up (late) or not (lost)?"""
        plan = login_plan(scn)
        if len(plan) != 1 or not plan[0]["ok"]:
            return None
        self.classified += 1
        s2 = dict(scn)
        s2["script"] = list(scn["script"]) + [("data", 99)]
        s2["hold"] = list(scn.get("hold") or [False] * len(scn["script"])) + [False]
        s2["idle_from"] = len(scn["script"])
        try:
            o2 = R.run_scheduled(self.ctx.scratch, "classify%d" % self.classified, s2, fixed_chooser(obs["trace"]),
                                 random.Random(chunk_seed))
        except Exception as e:
            return "not classified: %r" % (e,)
        ups = [g[1] for g in obs["top"] if g[0] == "up"]
        ups2 = [g[1] for g in o2["top"] if g[0] == "up"]
        exp = ["s%d" % i for i in plan[0]["data"]] + ["s99"]
        verdict = "LATE: the stranded frame(s) stay in _incoming_segments_queue until another server frame arrives " \
                  "(for ever if none does)" if ups2 == exp else \
                  "LOST or reordered even after a later frame"
        return {"verdict": verdict, "without_later_frame": ups, "with_one_later_frame": ups2, "sent_then": exp}

    @staticmethod
    def model_status(summ):
        npc, nscript, workers = summ[3], summ[4], summ[5]
        st = {0: "done" if (npc == 0 and nscript == 0) else "crashed" if npc == 99 else "blocked"}
        for a, pc in workers:
            st[a + 1] = "done" if pc == 98 else "crashed" if pc == 99 else "blocked"
        return st

    @staticmethod
    def real_status(obs):
        return {int(t): ("blocked" if s.startswith("blocked") else s) for t, s in obs["status"].items()}

    def oracle_fail_names(self, scn, obs):
        """the property, stated on the observations of the real run"""
        out = []
        plan = login_plan(scn)
        answered = [lg for lg in plan if lg["answered"]]
        all_ok = all(lg["ok"] for lg in answered)
        st = self.real_status(obs)
        cut = self.cut_logins(scn, obs)
        if cut and not self.finding_mechanism(obs):
            return self.oracle_after_clean_cut(scn, obs, plan, cut)
        hang = self.login_outcome(scn, obs, plan)
        if hang:
            out.append(hang)
        if any(v != "done" for v in st.values()):
            out.append(("oracle:no_deadlock", {"observed": obs["status"], "exceptions": obs["exc"],
                                               "expected": "every thread finishes (nobody waiting, nobody raised)"}))
        ups = [g[1] for g in obs["top"] if g[0] == "up"]
        fails = [g[0] for g in obs["top"] if g[0] in ("event", "failure")]
        exp_ups = ["s%d" % i for lg in answered if lg["ok"] for i in lg["data"]]
        exp_fails = [k for lg in answered if not lg["ok"] for k in ("event", "failure")]
        exp_kinds = [k for lg in answered for k in (["up"] * len(lg["data"]) if lg["ok"] else ["event", "failure"])]
        nper = [x for x in obs["log"] if x[1] == 15]
        exp_writes = [lg["srv"] for lg in answered if lg["ok"] and lg["stored_before"] != lg["srv"]]
        exp_disk = plan[-1]["stored_after"] if plan else STORED0[scn["variant"]]
        if all_ok:
            if ups != exp_ups or any(g[3] != b"" for g in obs["top"] if g[0] == "up"):
                out.append(("oracle:frames_in_order_once", {"observed": ups, "expected": exp_ups}))
            if fails:
                out.append(("oracle:no_false_failure", {"observed": obs["top"][:6], "expected": "no failure reported"}))
            if obs["disk_rs"] != exp_disk:
                out.append(("oracle:rs_persisted", {"observed_profile_key": obs["disk_rs"], "expected": exp_disk,
                                                    "note": "0 none, 1/3/4 the server's keys, 2 the stale stored key"}))
            if [x[2] for x in nper] != exp_writes:
                out.append(("oracle:rs_written_iff_changed", {"observed_writes": nper, "expected_keys": exp_writes}))
        else:
            if fails != exp_fails or ups != exp_ups or [g[0] for g in obs["top"]] != exp_kinds:
                out.append(("oracle:failure_reported", {"observed": obs["top"][:8], "expected_kinds": exp_kinds,
                                                        "expected": "per failing login: handshake-failed event then "
                                                                    "<failure> stanza, no frame; other logins' frames in order"}))
            if [x[2] for x in nper] != exp_writes:
                out.append(("oracle:rs_written_iff_changed", {"observed_writes": nper, "expected_keys": exp_writes}))
            if len(plan) > 1 and obs["disk_rs"] != exp_disk:
                out.append(("oracle:rs_persisted", {"observed_profile_key": obs["disk_rs"], "expected": exp_disk}))
        if all_ok and answered and all(v == "done" for v in st.values()) and obs["inq_left"]:
            # quiescence: every thread has ended, nothing can move any more, yet segments are still queued
            out.append(("oracle:queue_empty_at_quiescence",
                        {"observed_queue": obs["inq_left"], "delivered": ups, "sent": exp_ups,
                         "expected": "_incoming_segments_queue empty when all threads are idle: every server frame "
                                     "sent after the hello has been handed upward exactly once, in order"}))
        if not obs["written"].startswith(obs["expected_prologue"]):
            out.append(("oracle:prologue", {"observed": obs["written"][:40].hex(), "expected": obs["expected_prologue"].hex()}))
        # the payload the server decrypted on connection i == the configuration in force when auth event i was emitted
        # (from the scenario, and as the rig recorded it at that moment)
        npres = 0
        for i, r in enumerate(obs["resp"]):
            p = r["presented"]
            if p is None:
                continue
            npres += 1
            exp = plan[i]["configured"] if i < len(plan) else obs["expected_presented"]
            rec = obs["logins"][i]["configured"] if i < len(obs.get("logins", [])) else exp
            diff = {k: (p.get(k), v) for k, v in exp.items() if p.get(k) != v}
            diff.update({k: (p.get(k), v) for k, v in rec.items() if p.get(k) != v})
            if diff:
                out.append(("oracle:presented", {"login": i + 1, "of_logins": len(plan), "handshake": r["variant"],
                                                 "observed_vs_configured": diff,
                                                 "history": self.presented_per_login(scn, obs) if len(plan) > 1 else None}))
                break
        if all_ok and answered and npres < (len(answered) if scn.get("quiesce") else 1):
            out.append(("oracle:presented", {"observed": "server saw a ClientPayload on %d of %d answered logins"
                                                         % (npres, len(answered))}))
        errs = [e for r in obs["resp"] for e in r["errors"]]
        if all_ok and errs and not self.history_is_finding(obs):
            out.append(("oracle:server_side", {"observed": errs[:3]}))
        return out


# ---------------------------------------------------------------- generators
def gen_scn(rng, ndata_max=4):
    variant = rng.choice(["XX", "IK", "FB"])
    scn = {"variant": variant, "edge": rng.choice([None, None, ROUTING, bytes(rng.randrange(256) for _ in range(rng.randint(1, 30)))]),
           "passive": rng.random() < .5, "corrupt": None if rng.random() < .82 else rng.randint(0, 200),
           "pushname": rng.choice([None, "verif", "üser"]), "mcc": rng.choice([None, "262"]),
           "mnc": rng.choice([None, "02"]), "fdid": rng.choice([None, "0f1e2d3c-aaaa-bbbb-cccc-1234567890ab"]),
           "script": [("auth",), ("hello",)], "chunk": rng.choice(["whole", "bytes", "small", "rand", "rand"])}
    if scn["corrupt"] is None:
        scn["script"] += [("data", i) for i in range(rng.randint(0, ndata_max))]
    scn["hold"] = [rng.random() < .5 for _ in scn["script"]]
    return scn


def gen_reconnect_ok(rng):
    """disconnect AFTER a completed attempt (transport or failed), then reconnect: must log in"""
    variant = rng.choice(["XX", "IK", "FB"])
    n1, n2 = rng.randint(0, 2), rng.randint(0, 3)
    script = [("auth",), ("hello",)] + [("data", i) for i in range(n1)] + [("disc",), ("auth",), ("hello",)] + \
             [("data", 10 + i) for i in range(n2)]
    return {"variant": variant, "edge": rng.choice([None, ROUTING]), "passive": rng.random() < .5, "corrupt": None,
            "script": script, "chunk": rng.choice(["whole", "small", "rand"]), "hold": [rng.random() < .5 for _ in script]}


PUSHNAMES = [None, "verif", "\u00fcser", "after registration"]
FDIDS = [None, "0f1e2d3c-aaaa-bbbb-cccc-1234567890ab", "11111111-2222-3333-4444-555555555555"]


def gen_history(rng, nmax=4):
    """2..nmax logins on ONE stack instance: connect, login, [frames], disconnect, reconnect ...; between
    logins the passive flag, pushname, mcc/mnc, fdid and the key the server answers with change (so the
    logins run through XX / IK / IK->XXfallback in varying order); a login may fail authentication.
    Inside the proved reconnect domain: the next disconnect/auth is handled when no worker is alive."""
    n = rng.randint(2, nmax)
    variant = rng.choice(["XX", "XX", "IK", "FB"])
    cur = {"passive": rng.random() < .5, "pushname": rng.choice(PUSHNAMES), "mcc": rng.choice([None, "262"]),
           "mnc": rng.choice([None, "02"]), "fdid": rng.choice(FDIDS), "srv": 1, "corrupt": None}
    script = []
    for i in range(n):
        if i > 0:
            if rng.random() < .9:
                script.append(("disc",))
            if rng.random() < .65:
                cur["passive"] = not cur["passive"]
            for k, vals in (("pushname", PUSHNAMES), ("mcc", [None, "262", "310"]), ("mnc", [None, "02", "260"]),
                            ("fdid", FDIDS)):
                if rng.random() < .4:
                    cur[k] = rng.choice(vals)
            if rng.random() < .35:
                cur["srv"] = rng.choice([1, 3, 4])
        cur["corrupt"] = rng.randint(0, 200) if rng.random() < .1 else None
        script.append(("auth", dict(cur)))
        script.append(("hello",))
        if cur["corrupt"] is None:
            script += [("data", 10 * i + j) for j in range(rng.randint(0, 3))]
    return {"variant": variant, "edge": rng.choice([None, None, ROUTING]), "corrupt": None, "quiesce": True,
            "script": script, "chunk": rng.choice(["whole", "bytes", "small", "rand", "rand"]),
            "hold": [rng.random() < .5 for _ in script]}


def registration_flow(variant="XX"):
    """yowsup's own flow after registration: passive login (prekeys are uploaded), disconnect, non-passive login"""
    return {"variant": variant, "edge": None, "corrupt": None, "quiesce": True, "chunk": "whole",
            "script": [("auth", {"passive": True}), ("hello",), ("data", 0), ("disc",),
                       ("auth", {"passive": False}), ("hello",), ("data", 10)], "hold": [False] * 7}


def history_shrinks(scn):
    """smaller histories to try when one fails: every pair (first login, a later login) without frames"""
    auths = [it for it in scn["script"] if it[0] == "auth"]
    out = []
    for j in range(1, len(auths)):
        a, b = dict(auths[0][1] or {}), dict(auths[j][1] or {})
        a["corrupt"] = b["corrupt"] = None
        out.append({"variant": scn["variant"], "edge": None, "corrupt": None, "quiesce": True, "chunk": "whole",
                    "script": [("auth", a), ("hello",), ("disc",), ("auth", b), ("hello",)], "hold": [False] * 5})
    return out


def run_history(chk, scn, chooser, chunk_seed, kind):
    """run a history; on failure look for a smaller failing history and report that one"""
    obs, bad = chk.run_case(scn, chooser, chunk_seed, kind, record=False)
    if not bad:
        return obs, bad
    for small in history_shrinks(scn):
        o2, b2 = chk.run_case(small, fixed_chooser([]), 7, kind, record=False)
        if b2 and set(b2) & set(bad):
            return chk.run_case(small, fixed_chooser(o2["trace"]), 7, kind)
    return chk.run_case(scn, fixed_chooser(obs["trace"]), chunk_seed, kind)


# ---------------------------------------------------------------- the window at handshake completion
class PreemptChooser(object):
    """Bounded-preemption schedules around the completion of the handshake.
    Until the protocol state becomes transport: network thread first (frames pushed behind the server hello
    are queued while the client is still in handshake state).  From then on: the running thread keeps running
    until it blocks or ends, except at the decisions (numbered from the transition) listed in `points`, where
    the other ready thread is given the baton.  hist: per decision after the transition (index, ready
    threads, running thread, its pending operation, chosen)."""

    def __init__(self, points=()):
        self.points = set(points)
        self.post = False
        self.scanned = 0
        self.k = 0
        self.cur = None
        self.hist = []

    def __call__(self, ready, sched):
        if not self.post:
            log = sched.log
            while self.scanned < len(log):
                e = log[self.scanned]
                self.scanned += 1
                if e[1] == 3 and e[2] == 2:
                    self.post = True
                    break
        if not self.post:
            self.cur = min(ready)
            return self.cur
        idx = self.k
        self.k += 1
        cur = self.cur if self.cur in ready else None
        if cur is None:
            pick = min(ready)
        elif idx in self.points and len(ready) > 1:
            pick = min(t for t in ready if t != cur)
        else:
            pick = cur
        self.hist.append({"idx": idx, "ready": list(ready), "cur": cur,
                          "op": sched.thr[cur]["op"] if cur is not None else None, "chosen": pick})
        self.cur = pick
        return pick


def window_scn(variant, early, late, glue=True, chunk="whole"):
    """`early` server frames pushed right behind the server hello (in the same read when the server can already
    encrypt: resumed login), then `late` frames that reach the network thread once the state is transport"""
    script = [("auth",), ("hello",)] + [("data", i) for i in range(early + late)]
    return {"variant": variant, "edge": None, "passive": False, "corrupt": None, "script": script, "chunk": chunk,
            "hold": [False] * len(script), "gate_from": 2 + early,
            "glue": list(range(1, 1 + early)) if glue else []}


def preempt_search(chk, scn, kind, budget, bound=2):
    """one preemption at every scheduling point after the state became transport, then two (first the pairs
    whose second preemption hits a thread that has just released the flush lock or is about to deliver a
    frame upward); stops at the first violation with a concrete failing schedule.  Returns (#runs, stopped)."""
    ctx = chk.ctx
    runs = [0]

    def concrete():
        return any(v["found_input"] for v in ctx.violations)

    def run(points):
        ch = PreemptChooser(points)
        chk.run_case(scn, ch, 7, kind)
        runs[0] += 1
        return ch

    def cands(ch, after):
        return [h for h in ch.hist if h["idx"] > after and h["cur"] is not None and len(h["ready"]) > 1]

    base = run(())
    if concrete():
        return runs[0], True
    frontier = [((), base)]
    for depth in range(bound):
        nxt = []
        for prio in (True, False):
            for pts, ch in frontier:
                for h in cands(ch, max(pts) if pts else -1):
                    if (h["op"] in ("released", "up")) != prio:
                        continue
                    if runs[0] >= budget:
                        return runs[0], False
                    c2 = run(pts + (h["idx"],))
                    if concrete():
                        return runs[0], True
                    nxt.append((pts + (h["idx"],), c2))
        frontier = nxt
    return runs[0], False


COMPLETION_SHAPES = ((0, 1), (1, 0), (1, 1), (2, 0), (2, 1), (3, 0))


def cut_scn(variant, ndata=1, line=False):
    """login; the server hello is put AND dequeued by the worker; disconnect while the worker sits between the
    dequeue and finish / the state change (or anywhere later); reconnect + login (+ frames) on the same stack"""
    script = [("auth",), ("hello",), ("disc",), ("auth",), ("hello",)] + [("data", 10 + i) for i in range(ndata)]
    scn = {"variant": variant, "edge": None, "passive": False, "corrupt": None, "script": script, "chunk": "whole",
           "hold": [False] * len(script), "cut_after_dequeue": True}
    if line:
        scn["line_level"] = True
    return scn


def explore_until(chk, scn, limit, kind, stop_item, chunk_seed=7):
    """every schedule of the part of the scenario BEFORE the network thread handles script item `stop_item`
    (all positions of the worker at which the earlier events are delivered); from there on the default schedule.
    Goes on when the trace replay breaks; stops at the first concrete failing schedule.  -> (#runs, complete, stopped)"""
    ctx = chk.ctx
    prefix, count = [], 0
    while True:
        obs, bad = chk.run_case(scn, fixed_chooser(prefix), chunk_seed, kind)
        count += 1
        if any(v["found_input"] for v in ctx.violations):
            return count, False, True
        trace, ready, dec = obs["trace"], obs["ready_sets"], obs["decisions"]
        cutoff, ev = len(trace) - 1, 0
        for i, t in enumerate(trace):
            if t == 0 and dec[i].get(0, dec[i].get("0")) == "event":
                if ev == stop_item:
                    cutoff = i
                    break
                ev += 1
        i, nxt = min(cutoff, len(trace) - 1), None
        while i >= 0:
            alts = [t for t in ready[i] if t > trace[i]]
            if alts:
                nxt = trace[:i] + [alts[0]]
                break
            i -= 1
        if nxt is None:
            return count, True, False
        if count >= limit:
            return count, False, False
        prefix = nxt


def cut_search(chk, quick, line=False):
    res = {}
    for v in ("XX", "IK", "FB"):
        n, complete, stopped = explore_until(chk, cut_scn(v, 1, line), (100 if quick else 4000), "cut-after-dequeue" +
                                             ("-line" if line else ""), 3)
        res[v] = {"schedules": n, "complete": complete, "stopped_at_violation": stopped}
        if stopped:
            break
    return res


def escalate(chk, quick, why):
    """Line-level escalation, started when a run showed an operation the model has no step for (a try-lock
    found busy, a locked() probe) or the trace replay broke, and no concrete failing schedule is known yet:
    the 'server frames arrive around handshake completion' scenarios - all three login variants, 1..3 frames
    right behind the server hello / at completion, NO further frame afterwards (a later frame would flush a
    stranded one and hide the loss) - with a scheduling point at every line of YowNoiseLayer's flush / receive /
    state-change code, <= 1 then <= 2 preemptions.  Stops at the first concrete failing schedule."""
    res = {"because": why, "shapes": {}}
    # (a) a login cut off after its worker dequeued the server hello, then a reconnect: every position of the worker
    #     (line-level in the worker's run / _handle_stream_event / on_disconnected, before every state transition)
    res["cut_after_dequeue"] = cut_search(chk, quick, line=True)
    if any(x["found_input"] for x in chk.ctx.violations):
        return res
    # (b) frames around handshake completion
    for v in ("XX", "IK", "FB"):
        for e, l in COMPLETION_SHAPES:
            scn = window_scn(v, e, l)
            scn["line_level"] = True
            n, stopped = preempt_search(chk, scn, "escalated-line", 120 if quick else 1500, 2)
            res["shapes"]["%s/%d+%d" % (v, e, l)] = {"schedules": n, "stopped_at_violation": stopped}
            if stopped:
                return res
    return res


def explore(chk, scn, limit, kind, chunk_seed=7):
    """stateless DFS over ALL schedules of the scenario at the scheduler's granularity"""
    prefix, count, complete = [], 0, True
    while True:
        obs, bad = chk.run_case(scn, fixed_chooser(prefix), chunk_seed, kind)
        count += 1
        if bad and chk.ctx.violations:
            return count, False
        trace, ready = obs["trace"], obs["ready_sets"]
        i = len(trace) - 1
        nxt = None
        while i >= 0:
            alts = [t for t in ready[i] if t > trace[i]]
            if alts:
                nxt = trace[:i] + [alts[0]]
                break
            i -= 1
        if nxt is None:
            return count, True
        if count >= limit:
            return count, False
        prefix = nxt


# ---------------------------------------------------------------- unscheduled: soak and the finding on real threads
def soak_judge(ctx, scn, res, case):
    bad = []

    def viol(name, extra):
        bad.append(name)
        c = dict(case)
        c.update(extra)
        ctx.violation(name, c)
    if res["blocks"]:
        viol("unmodelled-block", {"observed": res["blocks"], "top_len": len(res["top"]), "state": res["state"]})
        return bad
    if scn.get("corrupt") is None:
        got = [(g[1], g[3]) for g in res["top"] if g[0] == "up"]
        if got != res["sent"]:
            k = next((i for i, (a, b) in enumerate(zip(got, res["sent"])) if a != b), min(len(got), len(res["sent"])))
            viol("oracle:soak_server_to_client", {"first_difference_at": k, "observed_len": len(got),
                                                  "expected_len": len(res["sent"]),
                                                  "observed_ids": [g[0] for g in got[max(0, k - 2):k + 3]],
                                                  "expected_ids": [g[0] for g in res["sent"][max(0, k - 2):k + 3]]})
        if res["server_got"] != res["client_sent"]:
            viol("oracle:soak_client_to_server", {"observed_ids": [g and g[0] for g in res["server_got"]][:10],
                                                  "expected_ids": [g[0] for g in res["client_sent"]][:10],
                                                  "server_errors": res["resp_errors"][:3]})
        if any(g[0] in ("failure", "event") for g in res["top"]):
            viol("oracle:no_false_failure", {"observed": [g[0] for g in res["top"]][:5]})
        if res["disk_rs"] != 1:
            viol("oracle:rs_persisted", {"observed_profile_key": res["disk_rs"], "expected": 1})
        exp = res["expected_presented"]
        diff = {k: ((res["presented"] or {}).get(k), v) for k, v in exp.items() if (res["presented"] or {}).get(k) != v}
        if diff:
            viol("oracle:presented", {"observed_vs_expected": diff})
        if not res["written_prefix"].startswith(res["expected_prologue"][:64]):
            viol("oracle:prologue", {"observed": res["written_prefix"].hex(), "expected": res["expected_prologue"].hex()})
    else:
        kinds = [g[0] for g in res["top"]]
        if kinds != ["event", "failure"]:
            viol("oracle:failure_reported", {"observed": kinds[:6], "expected": ["event", "failure"]})
    return bad


def real_reconnect(ctx, name, variant="XX"):
    """the finding on real threads and real queues: auth; cut before the server hello; auth; server hello."""
    rig = R.Rig(ctx.scratch, name, variant)
    t0 = time.time()

    def wait(cond, limit=R.WAIT):
        t = time.time()
        while not cond() and time.time() - t < limit:
            time.sleep(0.001)
        return cond()
    rig.auth()
    if not wait(lambda: any(k == "hello" for k, _ in rig.resp.out)):
        return {"error": "first attempt wrote no client hello"}
    w0 = rig.noise._handshake_worker
    time.sleep(0.02)                      # let the worker reach its blocking read
    rig.disconnect()
    rig.auth()
    w1 = rig.noise._handshake_worker
    if not wait(lambda: any(k == "hello" for k, _ in rig.resp.out), 2.0):
        return {"outcome": "no-second-client-hello", "state": rig.noise._wa_noiseprotocol.state,
                "new_worker_created": w1 is not w0}
    hello = [s for k, s in rig.resp.out if k == "hello"][0]
    rig.seg.receive(R.NZ.wire(hello))
    wait(lambda: rig.resp.can_send() or any(g[0] == "failure" for g in rig.top.got), 3.0)
    time.sleep(0.05)
    return {"outcome": "failure" if any(g[0] == "failure" for g in rig.top.got) else
                       "login" if rig.resp.can_send() else "nothing",
            "top": [g[0] for g in rig.top.got], "state": rig.noise._wa_noiseprotocol.state,
            "old_worker_alive": w0.is_alive(), "new_worker_alive": w1.is_alive(), "new_is_old": w1 is w0,
            "wall": round(time.time() - t0, 2)}


# ---------------------------------------------------------------- main
def run(ctx):
    ctx.prove()
    exe = ctx.build_model("C04")
    model = modelrun.Model(exe) if exe else None
    rng = ctx.rng
    quick = ctx.tier == "quick"
    chk = Checker(ctx, model)
    t0 = time.time()

    # the Coq witnesses, replayed on the extracted model (keeps Run.v glue and Properties in step)
    if model is not None:
        w = model.call("run_sched", [[0, 0, 0, 0, 0, 0], [[0], [1], [0], [2, 102, 2, 1, 7]],
                                     [0, 0, 0, 1, 1, 1, 0, 0, 0, 0, 2, 2, 2, 0, 0, 1, 1, 1, 1]])
        if isinstance(w, tuple) or w[2] != 0 or w[1][8] != 1 or [list(e) for e in w[1][6]] != [[14, 0, 0], [13, 0, 0]]:
            ctx.violation("correspondence:C04.witness", {"model": repr(w)[:400]}, found_input=False)
        # C04_history_nonvacuous / h_script: passive XX login, disconnect, non-passive IK login (auto schedule)
        ca, cb = [4915112345678, 1, [11, 262, 2, 0]], [4915112345678, 0, [12, 262, 2, 0]]
        w = model.call("run_sched", [[0, 0, 0, 0, 0, 0],
                                     [[0] + ca, [2, 101, 1, 1, 7], [3, 1], [3, 2], [1], [0] + cb, [2, 102, 2, 1, 0], [3, 3]],
                                     [0, 0, 0, 1, 1, 1, 0, 1, 1, 1, 1, 1, 1, 1] + [0] * 24 + [2, 2, 2, 0, 2, 2, 2, 2, 2] + [0] * 12])
        want = [[1, 2, ca], [2, 1, cb]]
        got = None if isinstance(w, tuple) else [[e[0], e[1], [e[2][0], e[2][1], list(e[2][2])]] for e in w[1][11]]
        if got != want or w[2] != 0 or w[1][7] != 1:
            ctx.violation("correspondence:C04.witness-history", {"model": repr(w)[:600], "expected_pres": want}, found_input=False)

    # 1. seeded schedules, all variants / configs / failure path / chunkings
    nrand = 350 if quick else 12000
    for i in range(nrand):
        scn = gen_scn(rng)
        style = rng.random()
        chooser = (lambda ready, s, r=random.Random(rng.random()): r.choice(ready)) if style < .6 else \
            pct_chooser(random.Random(rng.random()), depth=rng.randint(1, 4))
        obs, bad = chk.run_case(scn, chooser, rng.randrange(1 << 30), "random")
        if i % 97 == 0:
            ctx.add_sample({"variant": scn["variant"], "edge": bool(scn["edge"]), "corrupt": scn["corrupt"],
                            "segments": len(scn["script"]) - 1, "chunk": scn["chunk"], "schedule": obs["trace"][:40],
                            "ops": len(obs["log"]), "delivered": [g[1] for g in obs["top"] if g[0] == "up"]})
        if len(ctx.violations) >= 5 and any(v["found_input"] for v in ctx.violations):
            break

    # 1b. the window at handshake completion: frames queued during the handshake are flushed by the WORKER while
    #     the network thread receives the next frame.  Systematic: one / two preemptions at every scheduling
    #     point after the state became transport (incl. right after the release of the flush lock and at every
    #     delivery outside it); then random / priority schedules over the same scenarios.  Runs on even when the
    #     trace replay has broken (unknown operation order): what is searched for is a schedule whose delivered
    #     frame sequence is out of order / duplicated / incomplete.
    win = {}
    #     Shapes e+l: e frames pushed behind the hello, l frames once the state is transport; the LAST frame is
    #     followed by nothing, so a frame stranded in the queue at quiescence is seen as a loss (e+0 for XX/FB: the
    #     frames become available with the client finish = exactly at completion).
    wshapes = [("IK", 1, 1, 60, 2), ("XX", 1, 1, 110, 2), ("FB", 1, 1, 110, 2), ("IK", 2, 2, 40, 1), ("IK", 3, 1, 40, 1),
               ("XX", 1, 0, 60, 2), ("FB", 1, 0, 60, 2), ("IK", 0, 1, 40, 2), ("XX", 2, 0, 40, 1), ("FB", 3, 0, 40, 1)] \
        if quick else [(v, e, l, 1500, 2) for v in ("IK", "XX", "FB") for e in (0, 1, 2, 3) for l in (0, 1, 2) if e + l]
    for v, e, l, budget, bound in wshapes:
        if any(x["found_input"] for x in ctx.violations):
            break
        n, stopped = preempt_search(chk, window_scn(v, e, l), "window-preempt", budget, bound)
        win["%s/%d+%d" % (v, e, l)] = {"schedules": n, "max_preemptions": bound, "stopped_at_violation": stopped}
    for i in range(60 if quick else 3000):
        if any(x["found_input"] for x in ctx.violations):
            break
        scn = window_scn(rng.choice(["IK", "IK", "XX", "FB"]), rng.randint(1, 3), rng.randint(1, 2),
                         glue=rng.random() < .7, chunk=rng.choice(["whole", "whole", "small", "rand"]))
        if rng.random() < .3:
            scn["gate_from"] = None          # the late frames may also arrive during the handshake
        chooser = (lambda ready, s, r=random.Random(rng.random()): r.choice(ready)) if i % 2 else \
            pct_chooser(random.Random(rng.random()), depth=rng.randint(1, 3), horizon=80)
        chk.run_case(scn, chooser, rng.randrange(1 << 30), "window-random")
    ctx.coverage["handshake_completion_window"] = win
    # 1c. line-level scheduling points inside the noise layer's flush / receive / state-change code: always a small
    #     pass (keeps the machinery and its correspondence alive), the full escalation when the model does not
    #     know an observed operation or the replay broke and no concrete failing schedule is known yet.
    lines = {}
    for v, e, l in ((("XX", 0, 1), ("IK", 0, 1)) if quick else (("XX", 0, 1), ("IK", 0, 1), ("FB", 1, 1), ("IK", 1, 1))):
        if any(x["found_input"] for x in ctx.violations):
            break
        scn = window_scn(v, e, l)
        scn["line_level"] = True
        n, stopped = preempt_search(chk, scn, "line-level", 60 if quick else 800, 1 if quick else 2)
        lines["%s/%d+%d" % (v, e, l)] = {"schedules": n, "stopped_at_violation": stopped}
    ctx.coverage["line_level"] = lines
    esc = None

    def maybe_escalate():
        if any(x["found_input"] for x in ctx.violations):
            return None
        if chk.unknown_ops or chk.mismatch:
            return escalate(chk, quick, "operations unknown to the model: %d, broken replays: %d"
                            % (chk.unknown_ops, chk.mismatch))
        return None
    esc = maybe_escalate()

    # 2. exhaustive enumeration of every schedule for small scenarios
    exh = {}
    shapes = [("XX", 0, None), ("IK", 1, None), ("FB", 1, None), ("XX", 0, 5), ("IK", 0, 9)] if quick else \
             [(v, n, c) for v in ("XX", "IK", "FB") for n in (0, 1, 2) for c in (None,)] + \
             [(v, 0, 3) for v in ("XX", "IK", "FB")]
    for v, n, c in shapes:
        if any(x["found_input"] for x in ctx.violations):
            break
        scn = {"variant": v, "edge": None, "passive": False, "corrupt": c,
               "script": [("auth",), ("hello",)] + [("data", i) for i in range(n)], "chunk": "whole",
               "hold": [False] * (n + 2)}
        # (the scheduling points after a lock release / at deliveries outside the lock multiplied the schedule
        #  space; deeper scenarios are covered by the bounded-preemption search of 1b instead)
        cnt, complete = explore(chk, scn, (300 if n else 1500) if quick else (8000 if n < 2 else 1500), "exhaustive")
        exh["%s/%d%s" % (v, n, "/fail" if c is not None else "")] = {"schedules": cnt, "complete": complete}
    ctx.coverage["exhaustive_scenarios"] = exh
    ctx.coverage["exhaustive"] = False

    # 3. reconnect after a COMPLETED attempt (positive part of the reconnect clause)
    for i in range(40 if quick else 1500):
        if ctx.violations:
            break
        scn = gen_reconnect_ok(rng)
        chk.run_case(scn, (lambda ready, s, r=random.Random(rng.random()): r.choice(ready)), rng.randrange(1 << 30), "reconnect-ok")

    # 3b. login histories on one stack instance with the configuration changing between logins: each
    #     connection must be presented the configuration in force at ITS auth event (model: pres; oracle)
    nhist = 0
    hist_logins = {}
    for i in range(90 if quick else 3000):
        if any(v["found_input"] for v in ctx.violations):
            break
        scn = registration_flow(["XX", "IK", "FB"][i % 3]) if i < 6 else gen_history(rng)
        chooser = (lambda ready, s, r=random.Random(rng.random()): r.choice(ready)) if i % 5 else \
            pct_chooser(random.Random(rng.random()), depth=rng.randint(1, 4), horizon=150)
        obs, bad = run_history(chk, scn, chooser, rng.randrange(1 << 30), "history")
        nhist += 1
        k = "%d-logins" % len(obs["resp"])
        hist_logins[k] = hist_logins.get(k, 0) + 1
        if i % 29 == 0:
            ctx.add_sample({"kind": "history", "variant": scn["variant"], "chunk": scn["chunk"],
                            "logins": [{"login": l["login"], "handshake": l["handshake"],
                                        "passive": (l["presented"] or {}).get("passive"),
                                        "push_name": (l["presented"] or {}).get("push_name")}
                                       for l in chk.presented_per_login(scn, obs)],
                            "delivered": [g[1] for g in obs["top"] if g[0] == "up"]})
    ctx.coverage["history_runs"] = {"runs": nhist, "by_logins": hist_logins}

    # 3c. a login cut off AFTER its worker dequeued the server hello (worker between the dequeue and finish / the
    #     state change, or later), then reconnect + login + a frame on the same stack: every position of the worker
    #     at which the disconnect / the next auth is handled.  Where the cut-off worker has ended before the next auth
    #     and no server segment stayed queued the next login must work (not the known finding).
    if not any(v["found_input"] for v in ctx.violations):
        ctx.coverage["cut_after_dequeue"] = cut_search(chk, quick)

    # 4. reconnect after an attempt cut off before the server hello: the open known finding.
    #    Every schedule must still be a run of the model; the property oracle fails -> KNOWN-FINDING.
    rc = {"variant": "XX", "edge": None, "passive": False, "corrupt": None,
          "script": [("auth",), ("disc",), ("auth",), ("hello",)], "chunk": "whole", "hold": [False] * 4}
    if not ctx.violations:
        cnt, complete = explore(chk, rc, 400 if quick else 20000, "reconnect-cut")
        ctx.coverage["reconnect_cut_schedules"] = {"schedules": cnt, "complete": complete,
                                                   "oracle_failures_matched_to_finding": chk.finding_seen}
        for v in ("IK", "FB"):
            for i in range(20 if quick else 300):
                s2 = dict(rc)
                s2["variant"] = v
                chk.run_case(s2, (lambda ready, s, r=random.Random(rng.random()): r.choice(ready)), 3, "reconnect-cut")
    # ... and on real threads with the real queue
    real = []
    for i in range(2 if quick else 6):
        r = real_reconnect(ctx, "real%d" % i, ["XX", "IK", "FB"][i % 3])
        real.append(r)
        if r.get("outcome") != "login" or r.get("old_worker_alive") or r.get("new_worker_alive"):
            ctx.violation("oracle:reconnect_fresh", {"mode": "real-reconnect", "variant": ["XX", "IK", "FB"][i % 3],
                                                     "observed": r,
                                                     "expected": "login succeeds, no handshake worker left waiting"},
                          key=KEY_RECONNECT)
    ctx.coverage["real_thread_reconnect"] = real

    # 5. unscheduled bidirectional soak (real queues, locks, threads, random chunking)
    nsoak = 10 if quick else 120
    soaks = 0
    for i in range(nsoak):
        if ctx.violations:
            break
        scn = {"variant": ["XX", "IK", "FB"][i % 3], "edge": ROUTING if i % 2 else None, "passive": bool(i % 4 == 0),
               "corrupt": None if i % 5 != 4 else rng.randint(0, 99), "n_server": rng.choice([5, 40, 120]) if quick else rng.choice([5, 100, 600]),
               "n_client": rng.choice([3, 30]) if quick else rng.choice([3, 60, 300]), "burst": rng.random() < .7}
        seed = rng.randrange(1 << 30)
        res = R.run_soak(ctx.scratch, "soak%d" % i, scn, random.Random(seed))
        soaks += 1
        case = {"mode": "soak", "scenario": scn_json(scn), "seed": seed}
        soak_judge(ctx, scn, res, case)

    if esc is None:
        esc = maybe_escalate()
    ctx.coverage["escalation"] = esc
    ctx.coverage["unknown_operations_seen"] = chk.unknown_ops
    if model is not None:
        model.close()
        ctx.ties["correspondence"] = "ok" if chk.mismatch == 0 else "broken"
    if not ctx.proof_ok and not ctx.violations:
        ctx.tie_broken_without_input("theorem:" + ctx.failing_theorem(), ctx.ties.get("proof"))
    if model is None and not ctx.violations:
        ctx.tie_broken_without_input("model-build:C04", ctx.ties.get("model-build:C04"))
    ctx.coverage["evaluations"] = chk.n + soaks + len(real)
    ctx.coverage["distinct_nontrivial"] = len(chk.distinct)
    ctx.coverage["case_kinds"] = chk.kinds
    ctx.coverage["soak_runs"] = soaks
    ctx.coverage["harness_wall_s"] = round(time.time() - t0, 1)
    return ctx.finish(
        rule="case = (scenario: variant XX/IK/IK->XXfallback x edge routing x passive x user-agent fields x "
             "authenticating/corrupted hello x 0..4 transport segments x chunking of the server bytes; or 1..3 frames "
             "pushed behind the server hello + 1..2 frames after the transition, under bounded-preemption schedules; or a history "
             "of 2..4 logins on one stack instance whose passive flag / pushname / mcc / mnc / fdid / server key "
             "change between logins, "
             "schedule: list of thread choices at queue/lock/state-check/profile-write/thread-start points); "
             "every scheduled case is replayed through the extracted model and judged by the property oracles; "
             "distinct_nontrivial = number of distinct (scenario, schedule) pairs actually executed "
             "(each has >= 2 threads and >= 1 scheduling choice); exhaustive = all schedules of the listed small "
             "scenarios (complete flag per scenario); plus unscheduled bidirectional soaks and the reconnect histories",
        assumptions_text=ASSUME)


# ---------------------------------------------------------------- replay
def replay(ctx, data):
    case = data["case"]
    mode = case.get("mode")
    if mode == "scheduled":
        exe = ctx.build_model("C04")
        model = modelrun.Model(exe) if exe else None
        chk = Checker(ctx, model)
        scn = scn_from_json(case["scenario"])
        obs = R.run_scheduled(ctx.scratch, "replay", scn, fixed_chooser(case["schedule"]), random.Random(case["chunk_seed"]))
        print("schedule:", obs["trace"])
        print("observed top:", [g[:2] for g in obs["top"]], "threads:", obs["status"], "state:", obs["state"],
              "profile key:", obs["disk_rs"], "exceptions:", obs["exc"], "unmodelled:", obs["unmodelled"])
        print("expected: frames", ["s%d" % it[1] for it in scn["script"] if it[0] == "data"],
              "in order once; all threads done; failure reported iff corrupt=%r" % (scn.get("corrupt"),))
        for l in chk.presented_per_login(scn, obs):
            conf, pr = l["configured"] or {}, l["presented"]
            print("login %d (%s): configured passive=%r push_name=%r mcc/mnc=%s/%s phone_id=%r | presented %s"
                  % (l["login"], l["handshake"], conf.get("passive"), conf.get("push_name"), conf.get("mcc"),
                     conf.get("mnc"), conf.get("phone_id"),
                     "nothing" if pr is None else "passive=%r push_name=%r mcc/mnc=%s/%s phone_id=%r%s"
                     % (pr.get("passive"), pr.get("push_name"), pr.get("mcc"), pr.get("mnc"), pr.get("phone_id"),
                        "" if all(pr.get(k) == v for k, v in conf.items()) else "   <-- differs from the configuration in force")))
        bad = chk.judge(scn, obs, {"mode": "scheduled"}, verbose=True)
        if model:
            model.close()
        if bad and (ctx.violations or not chk.history_is_finding(obs)):
            print("VIOLATION property=C04 replay=(replayed) still fails: %s" % ", ".join(bad))
            return 1
        if bad:
            print("KNOWN-FINDING: property=C04 (replayed) %s" % ", ".join(bad))
        return 0
    if mode == "soak":
        scn = scn_from_json(case["scenario"])
        res = R.run_soak(ctx.scratch, "replay", scn, random.Random(case["seed"]))
        print("observed: blocks", res["blocks"], "top", len(res["top"]), "sent", len(res["sent"]),
              "server_got", len(res["server_got"]), "client_sent", len(res["client_sent"]), "profile key", res["disk_rs"])
        bad = soak_judge(ctx, scn, res, {"mode": "soak"})
        if bad:
            print("VIOLATION property=C04 replay=(replayed) still fails: %s" % ", ".join(bad))
            return 1
        return 0
    if mode == "real-reconnect":
        r = real_reconnect(ctx, "replay", case.get("variant", "XX"))
        print("observed:", r)
        print("expected: login succeeds, no handshake worker left waiting")
        if r.get("outcome") != "login" or r.get("old_worker_alive") or r.get("new_worker_alive"):
            print("KNOWN-FINDING: property=C04 reconnect after a cut-off attempt still fails" if ctx.known_match(KEY_RECONNECT)
                  else "VIOLATION property=C04 replay=(replayed)")
            return 0 if ctx.known_match(KEY_RECONNECT) else 1
        return 0
    print("nothing to replay:", data.get("what_no_longer_checks"), case.get("detail"))
    return 1
