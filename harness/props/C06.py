"""C06 — exactly-once routing of stanzas and entities through the assembled stack.

Model: coq/C06 (C06Dispatch.v + generated Gen/C06Layers.v, Gen/C06HandleMaps.v).
Implementation: the real YowStack of the real protocol layers (and the real encryption layers)
between recording layers (harness/c06rig.py); kinds from harness/c06kinds.py."""
from .. import modelrun
from .. import c06common as C
from .. import c06rig as R

ASSUME = [
    "modelled: YowProtocolLayer.receive/send/processIqRegistry/_sendIq, YowParallelLayer fan-out, every handleMap "
    "handler of the 15 protocol layers, the receive/send entry points of the three axolotl layers; a stanza/entity is "
    "abstracted to the features the guards read (tag, xmlns, type, class chain, child tags, proto@mediatype, payload "
    "kind, registry membership)",
    "tie (b): harness/translators/c06tables.py regenerates the layer list per flag selection, the default stack shape "
    "and every layer's handleMap keys from the tree under test on every run; the theorems are re-checked against them. "
    "Two extractions: the ast one (when the source has the recognised shape) and the values the real helpers return "
    "for all 16 selections / the handleMap of every instantiated protocol layer (harness/translators/stack_eval.py, "
    "fresh interpreter, every helper value is the first call of a process); they must agree; the evaluated table "
    "alone is used when the source shape is not recognised; later helper calls in one process are compared with the "
    "first-call values (a difference is reported with the call sequence)",
    "tie (a): the guards are tied by correspondence, exhaustive over kinds: every kind x 16 module selections x "
    "with/without encryption layers x several generated field vectors through the real stack; abstract action "
    "multisets compared with the extracted model; the kind table the theorems quantify over is compared with the "
    "features of the real entities/stanzas",
    "modelled, not verified: entity constructors/parsers (field fidelity is C09), protobuf decoding of the payload "
    "(features computed with e2e_pb2 directly), encryption/decryption of message stanzas (C03; outgoing messages are "
    "observed where they leave the protocol group), the axolotl layers' own key-upload/fetch iq traffic (ignored in "
    "comparisons), error replies without an error callback (C08)",
    "re-entrant application: for every registering request (with/without encryption layers, no/all optional modules, "
    "first answer result/error, answer to the retry result/error) the rig's top layer sends the SAME request entity "
    "again from inside its receive() of the answer; the answer to the retried request must give exactly one entity "
    "of the documented class and its duplicate what the same stanza gives on a stack without pending requests; "
    "control: the same retry after the handler returned, compared with the model's run_trace (the model has no "
    "re-entrancy: the inside variant is judged by the oracle only)",
    "the model describes the code with fixes/C06-unregister-iq-routed.patch and "
    "fixes/C07-encrypt-ack-participant.patch applied (variant `repaired`); the unrepaired variant is modelled too and "
    "named in the replay when the tree behaves like it",
]


def run(ctx):
    gen = C.regenerate(ctx)
    ctx.prove()
    exe = ctx.build_model("C06") if gen is not None else None
    model = modelrun.Model(exe) if exe else None
    table = model.call("run_kind_table", []) if model else None
    profile = R.make_profile(ctx.scratch)
    stats = C.new_stats()
    quick = ctx.tier == "quick"
    nvec = 3 if quick else 12
    # a helper whose value depends on earlier calls (reported by regenerate with the call sequence): every stack this
    # process would build after the first one has a polluted layer list; the check has failed with a concrete input
    # and sweeping thousands of such stacks adds only derived symptoms
    polluted = bool(gen and gen["history_findings"])
    if polluted:
        ctx.notes.append("sweeps not run: the stack-builder helpers return different values after earlier calls in "
                         "the same process (see the oracle:helper-call-history records)")
        ctx.coverage["sweeps_skipped"] = "helper values depend on the call history"
    else:
        try:
            C.sweep(ctx, model, table, lambda k: True, nvec, profile, stats, judge_answers=False)
            C.reply_sweep(ctx, model, 1 if quick else 6, profile, stats)
            C.traffic_sweep(ctx, model, 1 if quick else 4, profile, stats)
            C.inside_sweep(ctx, model, 1 if quick else 4, profile, stats)
            C.handler_retry_sweep(ctx, model, 1 if quick else 4, profile, stats)
            C.two_pending_sweep(ctx, profile, stats)
            C.retry_sweep(ctx, model, 2 if quick else 20, profile, stats)
            C.history_sweep(ctx, model, lambda k: True, 25 if quick else 400, stats, judge_answers=False)
            C.history_sweep(ctx, model, lambda k: True, 40 if quick else 500, stats, judge_answers=False, length=(4, 10),
                            mixed=True)
        except Exception as e:
            # with helpers / layers the translator could not use (a helper raises, returns a non-layer, ...) the rig
            # may not be able to build a stack either; the broken tie is reported below
            if gen is not None:
                raise
            ctx.notes.append("sweeps aborted on a tree the translator could not use: %s: %s" % (type(e).__name__, e))
    K = C.kinds()
    if table is not None and not polluted:
        names = set(r[0].decode() for r in table[0])
        missing = sorted(names - stats["table_kinds_seen"])
        if missing:
            ctx.violation("correspondence:kind-table", {"problem": "theorem kinds never generated: %r" % missing},
                          found_input=False)
        reqs = set(r[0].decode() for r in table[1])
        if reqs != set("send.iq." + q["name"][4:] for q in K.REQS):
            ctx.violation("correspondence:kind-table", {"problem": "request table differs from the harness catalogue"},
                          found_input=False)
    if model:
        model.close()
        ctx.ties["correspondence"] = "ok" if stats["mismatches"] == 0 else "broken"
    if gen is None and not ctx.violations:
        ctx.tie_broken_without_input("translator:c06tables", ctx.ties.get("translator:c06tables"))
    if not ctx.proof_ok and not ctx.violations:
        ctx.tie_broken_without_input("theorem:" + ctx.failing_theorem(), ctx.ties.get("proof"))
    if model is None and gen is not None and not ctx.violations:
        ctx.tie_broken_without_input("model-build:C06", ctx.ties.get("model-build:C06"))
    ctx.coverage["evaluations"] = stats["evaluations"]
    ctx.coverage["distinct_nontrivial"] = len(stats["distinct"])
    ctx.coverage["kinds"] = len(K.KINDS)
    ctx.coverage["theorem_table_kinds"] = len(table[0]) if table else 0
    ctx.coverage["request_reply_cases"] = stats["reply_cases"]
    ctx.coverage["request_traffic_reply_cases"] = stats.get("traffic_cases", 0)
    ctx.coverage["reply_inside_send_cases"] = stats.get("inside_cases", 0)
    ctx.coverage["retry_from_inside_the_answer_handler_cases"] = stats.get("handler_retry_cases", {})
    ctx.coverage["pairs_of_different_requests_outstanding_together"] = stats.get("two_pending_cases", 0)
    ctx.coverage["histories_on_one_stack"] = {"histories": stats.get("histories", 0), "steps": stats.get("history_steps", 0),
                                              "both_directions_pairs": stats.get("history_direction_pairs", 0)}
    ctx.coverage["cases_per_kind"] = min(stats["per_kind"].values()) if stats["per_kind"] else 0
    ctx.coverage["input_distribution"] = {"module_selections": 16, "with_and_without_encryption_layers": 2,
                                          "field_vectors_per_cell": nvec, "kinds_recv": len([k for k in K.KINDS if k["dir"] == "recv"]),
                                          "kinds_send": len([k for k in K.KINDS if k["dir"] == "send"])}
    ctx.coverage["exhaustive"] = False
    for k in K.KINDS[::23]:
        import random
        obj = k["gen"](random.Random(ctx.seed))
        ctx.add_sample({"kind": k["name"], "stanza": R.show(obj if k["dir"] == "recv" else obj.toProtocolTreeNode())})
    return ctx.finish(
        rule="case = (kind, module selection, with/without encryption layers, generated field vector); exhaustive over "
             "kinds x 16 selections x 2; distinct_nontrivial = number of distinct (kind, selection, axolotl, feature vector) "
             "tuples actually run (every one dispatches through >= 11 real layers); plus request->reply sequences for "
             "every registering request (result and error) and retry receipts for an enqueued message",
        assumptions_text=ASSUME)


def replay(ctx, data):
    rc = C.replay_translator_case(ctx, data)
    if rc is not None:
        return rc
    return C.replay_case(ctx, data, R.make_profile(ctx.scratch))
