"""C19 - account configuration: serialisation round trip, load paths, atomic save.
Model: coq/C19; implementation: yowsup.config.manager.ConfigManager (+ StorageTools)."""
import os, io, sys, json, base64, shutil, glob
from .. import modelrun, c19_trace
from ..env import VERIF

ASSUME = [
    "modelled, not verified: json.dumps/json.loads (Section variables with the hypotheses json_rt / json_shape / "
    "json_no_cr, answered by the real json through the oracle pipe at run time and re-checked on every call), "
    "the locale text codec of open(..., 'w'/'r') (UTF-8 here; a file is identified with its decoded "
    "text), POSIX semantics of open(O_TRUNC)/write/rename (rename atomically replaces the target; a write may "
    "be cut after any prefix), path strings identify files (no symlinks / relative-path aliasing)",
    "crash = death of the process (page cache survives); power loss / storage-medium durability is not modelled "
    "(fsync is observed in the trace but not needed by the theorem)",
    "key=value is untyped: an int-valued attribute (cc) is compared by its decimal text after a key=value "
    "round trip (DESIGN.md C19, deliberate reading); JSON keeps int vs str",
    "base64 is modelled in Gallina (coq/C19/C19B64.v: b64_encode, b64_decode = the lenient binascii.a2b_base64 "
    "state machine) and its alphabet / one-line / round-trip facts are theorems for every length; tie: the "
    "extracted b64_encode/b64_decode vs the interpreter's base64 on all lengths 0..200 and long inputs, canonical "
    "/ line-broken / truncated / junk texts; every binary field encoder of ConfigSerialize vs the model at "
    "lengths 0,1,2,3,56..59,100,1000 and its output checked to be over the 65-character alphabet",
    "tie: extracted model vs real ConfigManager/transforms on generated configs, dicts, texts, paths; real "
    "syscall trace of every traced save is checked against the model's boolean fresh_then_rename and against "
    "save_prog, and every crash prefix is materialised and loaded by the real loader",
]

PARAMS = ["phone", "cc", "login", "password", "pushname", "id", "mcc", "mnc", "sim_mcc", "sim_mnc",
          "client_static_keypair", "server_static_public", "expid", "fdid", "edge_routing_info",
          "chat_dns_domain"]
SCALARS = ["phone", "cc", "login", "password", "pushname", "mcc", "mnc", "sim_mcc", "sim_mnc", "fdid",
           "chat_dns_domain"]
BYTESF = ["id", "expid", "edge_routing_info"]
BINARY = BYTESF + ["server_static_public", "client_static_keypair"]
B64_ALPHABET = set("ABCDEFGHIJKLMNOPQRSTUVWXYZabcdefghijklmnopqrstuvwxyz0123456789+/=")
BOUNDARY_LENS = [0, 1, 2, 3, 56, 57, 58, 59, 100, 1000]
KV_STRINGS = ["a=b", "=", "==", "a = b", "x y", "k=v=w", "trailing=", "=leading", "AA==", "J\u00fcrgen \u2713 \u65e5\u672c",
              "\U0001f600=\U0001f600", "tab\tinside", "-dash-", "{\"a\": 1}", "back\\slash"]
JSON_ONLY_STRINGS = ["a#b", "#", ";x", "a;b#c", "two\nlines", " lead", "trail ", "\t", "cr\rlf\r\n", "", " "]
KEYVAL, JSON = 1, 2
FMT_NAME = {KEYVAL: "keyval", JSON: "json"}

K_NEWPROFILE = "save-to-never-used-profile-raises"
K_TRUNC = "profile-config-written-in-place-not-atomic"
K_KEYVAL_PROFILE = "keyval-saved-into-config.json-load-by-profile-name-fails"
K_DEST = "save-dest-opens-wb-writes-str"
K_STALE_YO = "config.yo-in-profile-dir-shadows-saved-config.json"


# ------------------------------------------------------------------ spec <-> Config <-> sx
def cfg_from_spec(spec):
    from yowsup.config.v1.config import Config
    from consonance.structs.keypair import KeyPair
    from consonance.structs.publickey import PublicKey
    from consonance.structs.privatekey import PrivateKey
    kw = {}
    for k, v in spec.items():
        t = v[0]
        if t == "s":
            kw[k] = v[1]
        elif t == "i":
            kw[k] = int(v[1])
        elif t == "b":
            kw[k] = bytes.fromhex(v[1])
        elif t == "kp":
            kw[k] = KeyPair(PublicKey(bytes.fromhex(v[2])), PrivateKey(bytes.fromhex(v[1])))
        elif t == "pk":
            kw[k] = PublicKey(bytes.fromhex(v[1]))
        else:
            raise ValueError("bad spec tag %r" % (t,))
    return Config(**kw)


def tag_of(v):
    from consonance.structs.keypair import KeyPair
    from consonance.structs.publickey import PublicKey
    if isinstance(v, str):
        return ["s", v]
    if isinstance(v, bool):
        return ["other", repr(v)]
    if isinstance(v, int) and v >= 0:
        return ["i", v]
    if isinstance(v, (bytes, bytearray)):
        return ["b", bytes(v).hex()]
    if isinstance(v, KeyPair):
        return ["kp", bytes(v.private.data).hex(), bytes(v.public.data).hex()]
    if isinstance(v, PublicKey):
        return ["pk", bytes(v.data).hex()]
    return ["other", repr(v)]


def spec_of_cfg(cfg):
    out = {}
    for name in PARAMS:
        v = getattr(cfg, name)
        if v is not None:
            out[name] = tag_of(v)
    return out


def tx(s):
    return [ord(c) for c in s]


def xt(l):
    return "".join(chr(c) for c in l)


def cval_sx(v):
    t = v[0]
    if t == "s":
        return [0, tx(v[1])]
    if t == "i":
        return [1, v[1]]
    if t == "b":
        return [2, bytes.fromhex(v[1])]
    if t == "kp":
        return [3, bytes.fromhex(v[1]), bytes.fromhex(v[2])]
    if t == "pk":
        return [4, bytes.fromhex(v[1])]
    raise ValueError("unmodelled value " + repr(v))


def sx_cval(x):
    t = x[0]
    if t == 0:
        return ["s", xt(x[1])]
    if t == 1:
        return ["i", x[1]]
    if t == 2:
        return ["b", x[1].hex()]
    if t == 3:
        return ["kp", x[1].hex(), x[2].hex()]
    return ["pk", x[1].hex()]


def spec_sx(spec):
    return [[cval_sx(spec[n])] if n in spec else [] for n in PARAMS]


def sx_spec(x):
    return {n: sx_cval(x[i][0]) for i, n in enumerate(PARAMS) if x[i]}


def jdict_sx(d):
    return [[tx(k), [0, tx(v)] if isinstance(v, str) else [1, v]] for k, v in d.items()]


def sx_jdict(x):
    return [(xt(e[0]), xt(e[1][1]) if e[1][0] == 0 else e[1][1]) for e in x]


def flat_ok(d):
    return isinstance(d, dict) and all(
        isinstance(k, str) and (isinstance(v, str) or (isinstance(v, int) and not isinstance(v, bool) and v >= 0))
        for k, v in d.items())


def fs_sx(files, dirs):
    return [[[tx(p), tx(t)] for p, t in files], [tx(d) for d in dirs]]


def lres_of_sx(x):
    if isinstance(x, tuple):
        return ("model-exn", x[1])
    if x[0] == 0:
        return ("none",)
    if x[0] == 1:
        return ("err",)
    return ("ok", sx_spec(x[1]))


def textual(spec):
    out = {}
    for k, v in spec.items():
        out[k] = ["s", str(v[1])] if v[0] == "i" and k in SCALARS else v
    return out


def fmt_view(fmt, spec):
    return textual(spec) if fmt == KEYVAL else spec


class Oracle(object):
    """Answers the model's Section variables with the real primitives."""

    def __init__(self):
        self.unmodelled_json = 0
        self.calls = 0
        self.hyp_fail = []      # violated Section hypotheses of the theorems (json_rt, json_shape, json_no_cr)

    def __call__(self, q):
        from yowsup.config.transforms.dict_json import DictJsonTransform
        self.calls += 1
        pid = q[0]
        if pid == 3:
            d = dict(sx_jdict(q[1]))
            t = DictJsonTransform().transform(d)
            try:
                back = list(DictJsonTransform().reverse(t).items())
            except Exception as e:
                back = repr(e)
            if back != sorted(d.items()) or "\r" in t or (d and not t.startswith("{\n")):
                self.hyp_fail.append(("json_rt/json_shape/json_no_cr", repr(d)[:300]))
            return tx(t)
        if pid == 4:
            try:
                r = DictJsonTransform().reverse(xt(q[1]))
            except Exception:
                return []
            if not flat_ok(r):
                self.unmodelled_json += 1
                return []
            return [jdict_sx(r)]
        raise ValueError("unknown primitive %r" % (pid,))


# ------------------------------------------------------------------ implementation adapters
def impl_load(arg, profile_only=False):
    from yowsup.config.manager import ConfigManager
    try:
        c = ConfigManager().load(arg, profile_only=True) if profile_only else ConfigManager().load(arg)
    except Exception as e:
        return ("err", type(e).__name__)
    if c is None:
        return ("none",)
    return ("ok", spec_of_cfg(c))


def short(x, n=1500):
    """replay files stay readable: long observed/expected values are abbreviated"""
    r = repr(x)
    return x if len(r) <= n else r[:n] + "...(%d chars)" % len(r)


def same_lres(a, b):
    return a[0] == b[0] and (a[0] != "ok" or a[1] == b[1])


def impl_to_str(spec, fmt):
    from yowsup.config.manager import ConfigManager
    try:
        return ConfigManager().config_to_str(cfg_from_spec(spec), fmt)
    except Exception as e:
        return None


def root_dir():
    from yowsup.common.tools import StorageTools
    return os.path.dirname(StorageTools.getStorageForProfile("x"))


def write_text(path, text):
    with open(path, "w", newline="", encoding="utf-8", errors="surrogatepass") as f:
        f.write(text)


# ------------------------------------------------------------------ generators
WS = [9, 10, 11, 12, 13, 28, 29, 30, 31, 32, 133, 160, 5760] + list(range(8192, 8203)) + \
     [8232, 8233, 8239, 8287, 12288]
NEAR_WS = [8, 14, 27, 33, 132, 134, 159, 161, 5759, 5761, 6158, 8191, 8203, 8231, 8234, 8238, 8240, 8286,
           8288, 12287, 12289, 65279]


def gen_char(rng, kv):
    r = rng.random()
    if r < .45:
        c = rng.choice("abcdefghijklmnopqrstuvwxyzABCXYZ0123456789")
    elif r < .6:
        c = rng.choice("=+/ _-.:,@!\"'\\{}[]()%&*<>?|~^`$")
    elif r < .68:
        c = rng.choice(" \t\x0b\x0c\x1c\x1f\x85\xa0  　")
    elif r < .74:
        c = rng.choice("#;\n\r")
    elif r < .86:
        c = chr(rng.randint(0xa1, 0x2fff))
    elif r < .93:
        c = chr(rng.choice([rng.randint(0x3000, 0xd7ff), rng.randint(0xe000, 0xffff)]))
    elif r < .98:
        c = chr(rng.randint(0x10000, 0x10ffff))
    else:
        c = chr(rng.choice([rng.randint(0, 31), 127, rng.randint(0xd800, 0xdfff)]))
    if kv:
        o = ord(c)
        if c in "#;\n\r" or 0xd800 <= o <= 0xdfff or o == 0:
            return "x"
    return c


def gen_text(rng, kv, maxlen=12):
    n = rng.choice([0, 1, 1, 2, 3, 5, 8, maxlen])
    s = "".join(gen_char(rng, kv) for _ in range(n))
    if kv:
        while s and s[0].isspace():
            s = s[1:]
        while s and s[-1].isspace():
            s = s[:-1]
    return s


BIN_LENS = [0, 1, 2, 3, 16, 20, 20, 20, 33, 56, 57, 58, 59, 64, 100, 200, 1000]


def gen_spec(rng, kv, subset=None, p=None):
    if p is None:
        p = rng.choice([.15, .5, .9])
    spec = {}
    for name in PARAMS:
        if (subset is not None and name not in subset) or (subset is None and rng.random() >= p):
            continue
        if name in ("phone", "login"):
            spec[name] = ["s", "".join(rng.choice("0123456789") for _ in range(rng.randint(1, 14)))
                          if rng.random() < .8 else gen_text(rng, kv)]
        elif name == "cc":
            n = rng.choice([0, 1, 7, 49, 358, 999, 1234, 10 ** 9, 2 ** 61 + 5])
            spec[name] = ["i", n] if rng.random() < .6 else ["s", str(n)]
        elif name in ("mcc", "mnc", "sim_mcc", "sim_mnc"):
            r = rng.random()
            spec[name] = ["s", "%03d" % rng.randint(0, 999)] if r < .7 else \
                ["i", rng.randint(0, 999)] if r < .8 else ["s", gen_text(rng, kv)]
        elif name in SCALARS:
            spec[name] = ["s", gen_text(rng, kv, 24)]
        elif name in BYTESF:
            spec[name] = ["b", rng.randbytes(rng.choice(BIN_LENS)).hex()]
        elif name == "client_static_keypair":
            spec[name] = ["kp", rng.randbytes(32).hex(), rng.randbytes(32).hex()]
        else:
            spec[name] = ["pk", rng.randbytes(rng.choice([32, 32, 32, 32, 0, 31, 33, 57, 58, 100])).hex()]
    return spec


def in_kv_domain(spec):
    for k, v in spec.items():
        if v[0] == "s" and k in SCALARS:
            s = v[1]
            if any(c in s for c in "#;\n\r") or (s and (s[0].isspace() or s[-1].isspace())):
                return False
            try:
                s.encode("utf-8")
            except UnicodeEncodeError:
                return False
    return True


def nontrivial(spec):
    return len(spec) >= 2 and any(v[0] in ("b", "kp", "pk") for v in spec.values())


# ------------------------------------------------------------------ the check
class Run(object):
    def __init__(self, ctx, model, oracle):
        self.ctx, self.m, self.o = ctx, model, oracle
        self.evals = 0
        self.distinct = set()
        self.nontriv = 0
        self.kinds = {}
        self.mismatch = 0
        self.root = root_dir()
        self.seq = 0

    def count(self, kind, key=None, nt=False):
        self.evals += 1
        self.kinds[kind] = self.kinds.get(kind, 0) + 1
        if key is not None and key not in self.distinct:
            self.distinct.add(key)
            if nt:
                self.nontriv += 1

    def corr(self, name, case, found=False, key=None):
        self.mismatch += 1
        self.ctx.violation("correspondence:C19." + name, case, found_input=found, key=key)

    def fresh(self, prefix="p"):
        self.seq += 1
        return "%s%05d" % (prefix, self.seq)

    # ---- primitives of the text layer
    def text_primitives(self):
        ctx, m = self.ctx, self.m
        rng = ctx.rng
        cps = sorted(set(WS + NEAR_WS + list(range(0, 0x3100)) +
                         [rng.randint(0x3100, 0x10ffff) for _ in range(3000)]))
        if ctx.tier == "thorough":
            cps = list(range(0x110000))
        for i in range(0, len(cps), 20000):
            chunk = cps[i:i + 20000]
            got = m.call("run_is_space", chunk) if m else None
            exp = [1 if chr(c).isspace() else 0 for c in chunk]
            self.count("is_space")
            if m and got != exp:
                bad = [c for c, g, e in zip(chunk, got, exp) if g != e][:5]
                self.corr("is_space", {"kind": "is_space", "codepoints": bad})
        ctx.coverage["is_space_codepoints_checked"] = len(cps)
        # lower(): only ASCII capitals map into the letters of "yo"/"json"
        bad = [c for c in range(128, 0x110000) if set(chr(c).lower()) & set("yojsn")]
        if bad:
            ctx.notes.append("non-ASCII code points lower-casing into yo/json letters: %r (model lowers ASCII only)" % bad[:5])
        if not m:
            return
        strs = [gen_text(rng, False, 16) for _ in range(300)]
        strs += ["".join(chr(rng.choice(WS)) for _ in range(rng.randint(0, 3))) + gen_text(rng, False) +
                 "".join(chr(rng.choice(WS + NEAR_WS)) for _ in range(rng.randint(0, 3))) for _ in range(300)]
        got = m.call_many("run_strip", [tx(s) for s in strs])
        for s, g in zip(strs, got):
            self.count("strip")
            if isinstance(g, tuple) or xt(g) != s.strip():
                self.corr("strip", {"kind": "strip", "text": s})
        # the sx driver reads numbers with OCaml's 63-bit int_of_string: stay below 2^62
        nums = [0, 1, 9, 10, 11, 99, 100, 101, 255, 256, 999, 1000, 65535, 2 ** 31, 2 ** 32, 2 ** 62 - 1,
                10 ** 18, 10 ** 18 - 1] + [rng.randint(0, 10 ** rng.randint(1, 18)) for _ in range(200)]
        got = m.call_many("run_dec", nums)
        for n, g in zip(nums, got):
            self.count("dec")
            if isinstance(g, tuple) or xt(g) != "%s" % n:
                self.corr("dec", {"kind": "dec", "n": n})
        texts = ["".join(rng.choice("ab\r\n\r\n ") for _ in range(rng.randint(0, 10))) for _ in range(300)]
        got = m.call_many("run_unl", [tx(s) for s in texts])
        for s, g in zip(texts, got):
            self.count("unl")
            exp = io.TextIOWrapper(io.BytesIO(s.encode()), encoding="utf-8", newline=None).read()
            if isinstance(g, tuple) or xt(g) != exp:
                self.corr("unl", {"kind": "unl", "text": s})
        from yowsup.config.manager import ConfigManager
        paths = []
        for _ in range(600):
            segs = ["".join(rng.choice("ab.JSONjsonyoYO/ x") for _ in range(rng.randint(0, 7)))
                    for _ in range(rng.randint(1, 3))]
            paths.append(rng.choice(["", "/", "."]).join(segs) + rng.choice(["", ".json", ".yo", ".JSON", ".Yo",
                                                                             ".json.tmp", ".", "..json", "/.json"]))
        got = m.call_many("run_ext_type", [tx(p) for p in paths])
        for p, g in zip(paths, got):
            self.count("ext_type")
            ext = os.path.splitext(p)[1][1:].lower()
            exp = ConfigManager.MAP_EXT.get(ext)
            if isinstance(g, tuple) or (g[0] if g else None) != exp:
                self.corr("ext_type", {"kind": "ext_type", "path": p, "model": repr(g), "impl": exp})
        pairs = [("".join(rng.choice("ab/") for _ in range(rng.randint(0, 5))),
                  "".join(rng.choice("ab/") for _ in range(rng.randint(0, 5)))) for _ in range(300)]
        got = m.call_many("run_pjoin", [[tx(a), tx(b)] for a, b in pairs])
        for (a, b), g in zip(pairs, got):
            self.count("pjoin")
            if isinstance(g, tuple) or xt(g) != os.path.join(a, b):
                self.corr("pjoin", {"kind": "pjoin", "a": a, "b": b})

    # ---- base64: the Gallina b64_encode / b64_decode against the interpreter's base64
    def base64_layer(self):
        ctx, m, rng = self.ctx, self.m, self.ctx.rng
        if not m:
            return
        quick = ctx.tier == "quick"
        lens = list(range(0, 201)) + [255, 256, 257, 300, 511, 512, 1000, 1001, 1002, 3000]
        if not quick:
            lens += list(range(201, 1200)) + [4096, 10000]
        datas = [rng.randbytes(n) for n in lens]
        datas += [bytes([v]) * k for v in (0, 255, 0xfb, 0xfc, 0x3e, 0x3f, 0x80) for k in (1, 2, 3, 4, 57, 58)]
        allb = bytes(range(256))
        datas += [allb, allb[1:] + allb[:1], allb[2:] + allb[:2], allb[::-1]]      # every byte at every position mod 3
        got = m.call_many("run_b64enc", datas)
        real = []
        for b, g in zip(datas, got):
            self.count("b64enc", ("b64e", b), nt=len(b) >= 3)
            exp = base64.b64encode(b).decode()
            real.append(exp)
            if isinstance(g, tuple) or xt(g) != exp:
                self.corr("b64_encode", {"kind": "b64enc", "data": b.hex(), "model": repr(g)[:200], "impl": exp[:200]})
            if not set(exp) <= B64_ALPHABET or base64.b64decode(exp) != b or len(exp) != 4 * ((len(b) + 2) // 3):
                self.b64_fail.append(("interpreter base64.b64encode output outside the alphabet / not decodable", b.hex()[:80]))
        ok = m.call_many("run_b64_text_ok", [tx(t) for t in real])
        for t, g in zip(real, ok):
            if g != [1, 1]:
                self.corr("b64_text_ok", {"kind": "b64_text_ok", "text": t[:200], "model": repr(g)})
        # the MIME flavour of the refutation witness
        mim = m.call_many("run_b64mime", datas[:120] + datas[-8:])
        for b, g in zip(datas[:120] + datas[-8:], mim):
            self.count("b64mime")
            exp = base64.encodebytes(b).decode().strip()
            if isinstance(g, tuple) or xt(g) != exp:
                self.corr("b64_mime", {"kind": "b64mime", "data": b.hex(), "model": repr(g)[:200], "impl": exp[:200]})
        # decoder: canonical, line-broken, truncated, padded/unpadded, junk, non-ASCII
        texts = list(real)
        texts += [base64.encodebytes(b).decode() for b in datas[50:130]]
        texts += [base64.encodebytes(b).decode().strip() for b in datas[50:130]]
        texts += [base64.urlsafe_b64encode(b).decode() for b in datas[:60]]
        texts += ["", "=", "==", "===", "====", "A", "A=", "A==", "A===", "AA", "AA=", "AA==", "AA===", "AA=A", "AA=A=",
                  "AAA", "AAA=", "AAA==", "AAAA", "AAAA=", "AAAA==", "AAAAA", "AA==AA==", "A=A=A=A=", "=AAAA", "==AA==",
                  "AA=\n=", "AA=@=", "AA=@=AAAA", "AB==CD", "QUJD", "QUJ", "@@@", "\u00e4", "QUJD\u00e4", "QUJD\n", " QUJD ",
                  "QU JD", "QU\nJD", "QUJDRA==", "QUJDRA=", "QUJDRA", "QUJDR", "Q=UJD", "Q==UJD", "QU=JD", "QU==JD",
                  "QUJ=D", "QUJ==D", "QUJ=", "QUJ=\n", "QUJ=QUJD", "QU==QUJD", "+/+/", "-_-_", "AA\x00==", "AA\x7f=="]
        alpha = "ABCDEFGHIJKLMNOPQRSTUVWXYZabcdefghijklmnopqrstuvwxyz0123456789+/"
        for _ in range(400 if quick else 6000):
            n = rng.choice([0, 1, 2, 3, 4, 5, 6, 7, 8, 9, 12, 13, 20, 77, 78, 90])
            texts.append("".join(rng.choice(alpha) if rng.random() < .7 else rng.choice("====\n\r -_@#;.\u00e9\x00")
                                 for _ in range(n)))
        for _ in range(200 if quick else 3000):
            t = rng.choice(real[:120])
            k = rng.randint(0, len(t))
            texts.append(rng.choice([t[:k], t[:k] + "=", t[:k] + "\n" + t[k:], t[:k] + "=" + t[k:], t + t, t[k:]]))
        got = m.call_many("run_b64dec", [tx(t) for t in texts])
        for t, g in zip(texts, got):
            self.count("b64dec", ("b64d", t), nt=len(t) >= 4)
            try:
                exp = base64.b64decode(t)
            except Exception:
                exp = None
            mod = None if (isinstance(g, tuple) or not g) else g[0]
            if isinstance(g, tuple) or mod != exp:
                self.corr("b64_decode", {"kind": "b64dec", "text": t[:300], "model": repr(g)[:200], "impl": repr(exp)[:200]})
        ctx.coverage["base64_model_vs_interpreter"] = {"encode_inputs": len(datas), "max_len": max(len(b) for b in datas),
                                                       "decode_texts": len(texts)}

    # ---- the five binary field encoders of ConfigSerialize, at every boundary length, both formats,
    #      every load path; their output must be over the 65-character alphabet
    def field_encoders(self, sdir):
        from yowsup.config.v1.serialize import ConfigSerialize
        from yowsup.config.v1.config import Config
        from yowsup.config.transforms.dict_keyval import DictKeyValTransform
        ctx, m, rng = self.ctx, self.m, self.ctx.rng
        quick = ctx.tier == "quick"
        lens = BOUNDARY_LENS if quick else sorted(set(BOUNDARY_LENS + list(range(0, 64)) + [75, 76, 77, 114, 115, 255, 256, 2000]))
        kp = ["kp", rng.randbytes(32).hex(), rng.randbytes(32).hex()]
        specs = []
        for f in BYTESF + ["server_static_public"]:
            for n in lens:
                v = ["pk" if f == "server_static_public" else "b", rng.randbytes(n).hex()]
                spec = {f: v}
                if n % 2:
                    spec["client_static_keypair"] = kp
                    spec["pushname"] = rng.choice(KV_STRINGS)
                specs.append((f, n, spec))
        specs.append(("client_static_keypair", 64, {"client_static_keypair": kp}))
        for n in (57, 58, 1000):       # every binary field long at once, textual values with '=' and unicode
            specs.append(("all", n, {"phone": ["s", "4915112345678"], "cc": ["i", 49], "pushname": ["s", "a=b \u2713 = c"],
                                     "id": ["b", rng.randbytes(n).hex()], "expid": ["b", rng.randbytes(n).hex()],
                                     "edge_routing_info": ["b", rng.randbytes(n).hex()],
                                     "server_static_public": ["pk", rng.randbytes(n).hex()],
                                     "client_static_keypair": kp, "fdid": ["s", "7f3c2f3e-0000-4000-8000-000000000001"],
                                     "mcc": ["s", "262"], "chat_dns_domain": ["s", "fb"]}))
        T = DictKeyValTransform()
        checked = 0
        for f, n, spec in specs:
            spec = {k: (["s", v] if isinstance(v, str) else v) for k, v in spec.items()}
            # property first (so that a failing load is the first thing reported), then correspondence
            self.roundtrip_case(spec, KEYVAL, sdir, True)
            self.roundtrip_case(spec, JSON, sdir, True)
            self.pipeline_case(spec, True)
            try:
                d = ConfigSerialize(Config).serialize(cfg_from_spec(spec))
            except Exception:
                continue
            for name in BINARY:
                if name not in d:
                    continue
                checked += 1
                val = d[name]
                if m and isinstance(val, str):
                    line = name + "=" + val
                    g = m.call("run_kv_parse_line", tx(line))
                    mod = None if (isinstance(g, tuple) or not g or not g[0]) else (xt(g[0][0][0]), xt(g[0][0][1][1]))
                    try:
                        real = list(T.reverse(line).items())
                    except Exception:
                        real = None
                    self.count("kv_field_line")
                    if real != ([mod] if mod is not None else None) and not (mod is None and real == []):
                        self.corr("kv_parse_line", {"kind": "kv_parse_line", "line": line[:300], "model": repr(g)[:300],
                                                    "impl": repr(real)[:300]})
                if not (isinstance(val, str) and set(val) <= B64_ALPHABET):
                    try:
                        broken = T.reverse(T.transform(d)) != {k: str(v) for k, v in d.items()}
                    except Exception:
                        broken = True
                    self.b64_fail.append(("field encoder %s, %d bytes: output not over the base64 alphabet" % (name, n),
                                          repr(val)[:120]))
                    ctx.violation("hypothesis:C19.field_encoder_alphabet",
                                  {"kind": "field_alphabet", "spec": spec, "field": name,
                                   "observed": "serialize()[%r] = %s" % (name, short(val, 300)),
                                   "expected": "text over [A-Za-z0-9+/=] (theorem C19_b64_alphabet is about "
                                               "base64.b64encode; this encoder is something else)"},
                                  found_input=broken)
        ctx.coverage["binary_field_encoder_outputs_checked"] = checked
        ctx.coverage["binary_field_lengths"] = lens if quick else "%d lengths, max %d" % (len(lens), max(lens))

    # ---- textual values at the edge of the key=value domain
    def string_cases(self, sdir):
        rng = self.ctx.rng
        others = [n for n in SCALARS if n not in ("pushname",)]
        for i, sv in enumerate(KV_STRINGS + JSON_ONLY_STRINGS):
            spec = {"pushname": ["s", sv], others[i % len(others)]: ["s", sv],
                    "id": ["b", rng.randbytes(rng.choice([20, 58])).hex()]}
            self.pipeline_case(spec, True)
            self.roundtrip_case(spec, JSON, sdir, True)
            if in_kv_domain(spec):
                self.roundtrip_case(spec, KEYVAL, sdir, True)
            else:
                t = impl_to_str(spec, KEYVAL)
                if t is not None and self.m:
                    self.resolver_case(sdir, t, ".yo")
                    self.resolver_case(sdir, t, "")

    # ---- DictKeyValTransform, directly
    def keyval_layer(self, n):
        from yowsup.config.transforms.dict_keyval import DictKeyValTransform
        ctx, m, rng = self.ctx, self.m, self.ctx.rng
        T = DictKeyValTransform()
        dicts, texts = [], []
        for i in range(n):
            d = {}
            for _ in range(rng.choice([0, 1, 2, 3, 5, 9])):
                k = "".join(rng.choice("abcxyz_") for _ in range(rng.randint(1, 6)))
                d[k] = gen_text(rng, True, 20) if rng.random() < .8 else rng.randint(0, 10 ** rng.randint(0, 12))
            dicts.append((d, True))
            if i % 3 == 0:   # out-of-domain keys/values: correspondence only
                d2 = {gen_text(rng, False, 5): gen_text(rng, False) for _ in range(rng.randint(0, 4))}
                dicts.append((d2, False))
        frag = ["cc=49", "phone = 4912345 ", "  # comment", "; other", "", "   ", "client-static-keypair=AAEC==",
                "a=b=c", "k=v # trailing", "k=v ; trailing", "k=v;x#y", "k=v#x;y", "novalue", "=v", "k=", " k - x = 1",
                "\tpush-name\t=\tJürgen ", "a_b=1", "a-b=2", "#=1", "x= y ", "k=v\r", "\x1cq=1\x1f",
                "__version__=1", "dup=1", "dup=2", "{", "}", "\"cc\": 49,"]
        for i in range(n):
            lines = [rng.choice(frag) if rng.random() < .7 else gen_text(rng, False, 10) + rng.choice(["", "=", " = "]) +
                     gen_text(rng, False, 10) for _ in range(rng.choice([0, 1, 2, 3, 6]))]
            if rng.random() < .5:
                lines = [l for l in lines if ("=" in l.split("#")[0].split(";")[0]) or not l.strip()
                         or l.strip()[0] in "#;"]
            texts.append("\n".join(lines))
        if m:
            ok = [(d, dom) for d, dom in dicts if flat_ok(d)]
            got = m.call_many("run_kv_print", [jdict_sx(d) for d, _ in ok])
            pr = {}
            for (d, dom), g in zip(ok, got):
                self.count("kv_print", ("kvp", repr(sorted(d.items()))), nt=len(d) >= 2)
                exp = T.transform(d)
                if isinstance(g, tuple) or xt(g) != exp:
                    self.corr("kv_print", {"kind": "kv_print", "dict": d, "model": repr(g)[:300], "impl": exp})
            allt = texts + [T.transform(d) for d, _ in dicts]
            got = m.call_many("run_kv_parse", [tx(t) for t in allt])
            for t, g in zip(allt, got):
                self.count("kv_parse", ("kvt", t), nt=t.count("\n") >= 1)
                try:
                    exp = list(T.reverse(t).items())
                except Exception:
                    exp = None
                mod = None if (isinstance(g, tuple) or not g) else sx_jdict(g[0])
                if isinstance(g, tuple) or mod != exp:
                    self.corr("kv_parse", {"kind": "kv_parse", "text": t, "model": repr(g)[:300], "impl": repr(exp)[:300]})
        for d, dom in dicts:
            if not dom:
                continue
            self.count("kv_rt")
            try:
                back = T.reverse(T.transform(d))
            except Exception as e:
                back = "raised " + type(e).__name__
            if back != {k: str(v) for k, v in d.items()}:
                ctx.violation("oracle:keyval_roundtrip", {"kind": "kv_rt", "dict": d, "observed": repr(back)[:400]})

    # ---- pipeline + formats on one config
    def pipeline_case(self, spec, kv_dom):
        from yowsup.config.v1.serialize import ConfigSerialize
        from yowsup.config.v1.config import Config
        ctx, m = self.ctx, self.m
        self.count("pipeline", ("cfg", json.dumps(spec, sort_keys=True)), nt=nontrivial(spec))
        try:
            d_impl = ConfigSerialize(Config).serialize(cfg_from_spec(spec))
        except Exception as e:
            d_impl = None
        if m:
            g = m.call("run_serialize", spec_sx(spec))
            d_mod = None if (isinstance(g, tuple) or not g) else dict(sx_jdict(g[0]))
            if isinstance(g, tuple) or d_mod != d_impl:
                self.corr("serialize", {"kind": "serialize", "spec": spec, "model": repr(g)[:400], "impl": repr(d_impl)[:400]})
        if d_impl is None:
            return
        # property oracle on the implementation: deserialize(serialize(c)) == c
        try:
            back = spec_of_cfg(ConfigSerialize(Config).deserialize(dict(d_impl)))
        except Exception as e:
            back = "raised %s: %s" % (type(e).__name__, e)
        if back != spec:
            ctx.violation("oracle:pipeline_roundtrip", {"kind": "pipeline", "spec": spec, "observed": repr(back)[:600]})
        if m:
            g = m.call("run_deserialize", jdict_sx(d_impl))
            mod = None if (isinstance(g, tuple) or not g) else sx_spec(g[0])
            if mod != (back if isinstance(back, dict) else None):
                self.corr("deserialize", {"kind": "deserialize", "dict": d_impl, "model": repr(g)[:400], "impl": repr(back)[:400]})

    def deserialize_case(self, d):
        from yowsup.config.v1.serialize import ConfigSerialize
        from yowsup.config.v1.config import Config
        self.count("deserialize_raw")
        try:
            back = spec_of_cfg(ConfigSerialize(Config).deserialize(dict(d)))
            if any(v[0] == "other" for v in back.values()):
                return
        except Exception as e:
            back = None
        if self.m:
            g = self.m.call("run_deserialize", jdict_sx(d))
            mod = None if (isinstance(g, tuple) or not g) else sx_spec(g[0])
            if mod != back:
                self.corr("deserialize", {"kind": "deserialize", "dict": d, "model": repr(g)[:400], "impl": repr(back)[:400]})

    # ---- one load: the real loader and the model on the same files
    def load_both(self, arg, files, dirs, expect, case, oracle_name, key=None, profile_name=None,
                  profile_only=False):
        """arg: path or profile name given to load(); files: [(path, text)] present on disk."""
        got = impl_load(arg, profile_only)
        self.count("load")
        if expect is not None and not same_lres(got, expect):
            self.ctx.violation("oracle:" + oracle_name, dict(case, observed=short(got), expected=short(expect)), key=key)
            self.rt_failed = True
        if self.m:
            g = self.m.call("orun_load", [fs_sx(files, dirs), tx(self.root), tx(arg), 1 if profile_only else 0])
            mod = lres_of_sx(g)
            if not same_lres(mod, got):
                self.corr("load", dict(case, model=short(mod), impl=short(got)),
                          found=expect is not None and not same_lres(got, expect), key=key)
        return got

    def roundtrip_case(self, spec, fmt, sdir, thorough_paths):
        """save in `fmt` then load by every path kind; returns text or None."""
        from yowsup.config.manager import ConfigManager
        ctx, m, rng = self.ctx, self.m, self.ctx.rng
        cm = ConfigManager()
        text = impl_to_str(spec, fmt)
        self.count("to_str", ("str", fmt, json.dumps(spec, sort_keys=True)), nt=nontrivial(spec))
        self.rt_failed = False
        to_str_mismatch = None
        if m:
            g = m.call("orun_to_str", [fmt, spec_sx(spec)])
            mod = None if (isinstance(g, tuple) or not g) else xt(g[0])
            if mod != text:
                # reported after the loads, so that the concrete failing load (if any) comes first
                to_str_mismatch = {"kind": "to_str", "spec": spec, "fmt": fmt, "model": repr(mod)[:400],
                                   "impl": repr(text)[:400]}
        if text is None and to_str_mismatch:
            self.corr("config_to_str", to_str_mismatch)
        if text is None:
            return None
        expect = ("ok", fmt_view(fmt, spec))
        base = {"kind": "roundtrip", "spec": spec, "fmt": fmt}
        exts = {JSON: [".json", ".JSON"], KEYVAL: [".yo", ".Yo"]}[fmt] + ["", ".conf"]
        if not thorough_paths:
            exts = [exts[0], rng.choice(exts[1:]), ""]
        for ext in exts:
            path = os.path.join(sdir, self.fresh("cfg") + ext)
            case = dict(base, load="path", ext=ext)
            try:
                cm.save("unused", cfg_from_spec(spec), fmt, dest=path)
            except Exception as e:
                ctx.violation("oracle:save_dest", dict(case, observed="save(dest=) raised %s: %s" % (type(e).__name__, e)),
                              key=K_DEST)
                write_text(path, text)
            self.load_both(path, [(path, text)], [], expect, case, "roundtrip_by_path")
            os.remove(path)
        # by profile name: a profile that already holds a config, and a never-used one
        for used in (True, False):
            name = self.fresh("prof")
            pdir = os.path.join(self.root, name)
            case = dict(base, load="profile", used_before=used)
            dirs = [self.root]
            if used:
                os.makedirs(pdir)
                write_text(os.path.join(pdir, "config.json"), "{\n    \"__version__\": 1,\n    \"phone\": \"1\"\n}")
                dirs.append(pdir)
            try:
                cm.save(name, cfg_from_spec(spec), fmt)
            except Exception as e:
                ctx.violation("oracle:save_profile", dict(case, observed="save raised %s: %s" % (type(e).__name__, e)),
                              key=K_NEWPROFILE if not used else None)
                continue
            cj = os.path.join(pdir, "config.json")
            ondisk = open(cj, encoding="utf-8", newline="").read() if os.path.isfile(cj) else None
            if ondisk != text:
                ctx.violation("oracle:save_profile", dict(case, observed="config.json holds %r" % (ondisk,)))
                continue
            self.load_both(name, [(cj, text)], dirs + [pdir], expect, case, "roundtrip_by_profile",
                           key=K_KEYVAL_PROFILE if fmt == KEYVAL else None)
            self.load_both(name, [(cj, text)], dirs + [pdir], expect, dict(case, profile_only=True),
                           "roundtrip_by_profile", key=K_KEYVAL_PROFILE if fmt == KEYVAL else None,
                           profile_only=True)
            shutil.rmtree(pdir, ignore_errors=True)
        if to_str_mismatch:
            self.corr("config_to_str", to_str_mismatch, found=self.rt_failed)
        return text

    # ---- the SAME profile / path written again: what is loaded is what is on disk now, not what was loaded before
    @staticmethod
    def same_length_variant(spec):
        """another configuration that serialises to exactly the same length (and, written at once, the same
        modification second): one byte flipped in every binary field, one character changed in every text field"""
        out = {}
        for k, v in spec.items():
            t = v[0]
            if t in ("b", "pk") and len(v[1]) >= 2:
                out[k] = [t, ("%02x" % (int(v[1][:2], 16) ^ 0x01)) + v[1][2:]]
            elif t == "kp":
                out[k] = [t, ("%02x" % (int(v[1][:2], 16) ^ 0x01)) + v[1][2:], v[2]]
            elif t == "s" and v[1] and v[1][0].isascii() and v[1][0].isalnum():
                out[k] = [t, ("b" if v[1][0] != "b" else "c") + v[1][1:]]
            else:
                out[k] = list(v)
        return out

    def rewrite_case(self, spec, fmt, sdir):
        from yowsup.config.manager import ConfigManager
        ctx = self.ctx
        spec2 = self.same_length_variant(spec)
        if spec2 == spec:
            return
        t1, t2 = impl_to_str(spec, fmt), impl_to_str(spec2, fmt)
        if t1 is None or t2 is None or t1 == t2:
            return
        self.count("rewrite", ("rw", fmt, json.dumps(spec, sort_keys=True)), nt=True)
        base = {"kind": "rewrite", "fmt": fmt, "first": spec, "second": spec2,
                "same_serialised_length": len(t1.encode("utf-8")) == len(t2.encode("utf-8"))}
        cm = ConfigManager()
        # by profile name
        name = self.fresh("prof")
        pdir = os.path.join(self.root, name)
        cj = os.path.join(pdir, "config.json")
        try:
            cm.save(name, cfg_from_spec(spec), fmt)
            self.load_both(name, [(cj, t1)], [self.root, pdir], ("ok", fmt_view(fmt, spec)),
                           dict(base, load="profile", step="first"), "rewrite_then_load",
                           key=K_KEYVAL_PROFILE if fmt == KEYVAL else None)
            cm.save(name, cfg_from_spec(spec2), fmt)
            self.load_both(name, [(cj, t2)], [self.root, pdir], ("ok", fmt_view(fmt, spec2)),
                           dict(base, load="profile", step="second"), "rewrite_then_load",
                           key=K_KEYVAL_PROFILE if fmt == KEYVAL else None)
        except Exception as e:
            ctx.violation("oracle:rewrite_then_load", dict(base, load="profile",
                                                           observed="raised %s: %s" % (type(e).__name__, e)))
        shutil.rmtree(pdir, ignore_errors=True)
        # by path: saved with dest=, then the file replaced by other means (another process, an editor, a restore)
        path = os.path.join(sdir, self.fresh("cfg") + {JSON: ".json", KEYVAL: ".yo"}[fmt])
        try:
            cm.save("unused", cfg_from_spec(spec), fmt, dest=path)
        except Exception:
            write_text(path, t1)
        self.load_both(path, [(path, t1)], [], ("ok", fmt_view(fmt, spec)), dict(base, load="path", step="first"),
                       "rewrite_then_load")
        st = os.stat(path)
        write_text(path, t2)
        os.utime(path, ns=(st.st_atime_ns, st.st_mtime_ns))       # same modification time as the first version
        self.load_both(path, [(path, t2)], [], ("ok", fmt_view(fmt, spec2)), dict(base, load="path", step="second"),
                       "rewrite_then_load")
        os.remove(path)

    # ---- hand-written / mismatching files: correspondence of the resolver only
    def resolver_case(self, sdir, text, ext):
        path = os.path.join(sdir, self.fresh("hw") + ext)
        write_text(path, text)
        self.load_both(path, [(path, text)], [], None, {"kind": "resolver", "text": text, "ext": ext}, "resolver")
        os.remove(path)

    # ---- save as a program: trace, compare, crash
    def save_case(self, old, new, fmt, use_strace):
        """old: (spec, fmt) or None (never-used profile); new: spec."""
        from yowsup.config.manager import ConfigManager
        ctx, m = self.ctx, self.m
        cm = ConfigManager()
        name = self.fresh("acct")
        pdir = os.path.join(self.root, name)
        case = {"kind": "crash", "old": old, "new": new, "fmt": fmt}
        files0 = {}
        if old is not None:
            os.makedirs(pdir, exist_ok=True)
            try:
                cm.save(name, cfg_from_spec(old[0]), old[1])
            except Exception as e:
                ctx.violation("oracle:save_profile", dict(case, observed="save(old) raised %s" % type(e).__name__))
                return
            for fn in os.listdir(pdir):
                files0[fn] = open(os.path.join(pdir, fn), "rb").read()
        old_view = impl_load(name)
        new_view = ("ok", fmt_view(fmt, new))
        text = impl_to_str(new, fmt)
        job = {"profile": name, "fmt": fmt, "spec": new, "keep_root": pdir}
        try:
            ops, rc, err = c19_trace.run_save(os.path.join(ctx.scratch, "oneshot"), job, use_strace)
        except Exception as e:
            ctx.tie_broken_without_input("trace:C19.save", "cannot observe the save: %r" % (e,))
            return
        self.count("traced_save", ("save", old is None, fmt, json.dumps(new, sort_keys=True)), nt=True)
        case["trace"] = [list(o[:2]) + ([o[2].hex()] if o[0] == "write" else list(o[2:])) for o in ops]
        if rc != 0:
            ctx.violation("oracle:save_profile", dict(case, observed="save raised: " + err.strip()[-300:]),
                          key=K_NEWPROFILE if old is None else None)
            return
        final = impl_load(name)
        if not same_lres(final, new_view):
            ctx.violation("oracle:roundtrip_by_profile", dict(case, observed=final, expected=new_view),
                          key=K_KEYVAL_PROFILE if fmt == KEYVAL else None)
        # -- the real trace as a model program
        bad_ops = [o for o in ops if o[0] in ("fail", "open_other", "unlink")]
        mops = None
        if not bad_ops:
            mops, cur = [], None
            for o in ops:
                if o[0] == "write" and mops and mops[-1][0] == 2 and mops[-1][1] == o[1]:
                    mops[-1][2] += o[2]
                elif o[0] == "write":
                    mops.append([2, o[1], o[2]])
                elif o[0] == "mkdir":
                    mops.append([0, o[1]])
                elif o[0] == "open_trunc":
                    mops.append([1, os.path.dirname(o[1]), os.path.basename(o[1])])
                elif o[0] == "fsync":
                    mops.append([3, o[1]])
                elif o[0] == "close":
                    mops.append([4, o[1]])
                elif o[0] == "rename":
                    mops.append([5, o[1], o[2]])
            try:
                mops = [[x[0], tx(x[1]), tx(x[2].decode("utf-8"))] if x[0] == 2 else [x[0]] + [tx(y) for y in x[1:]]
                        for x in mops]
            except UnicodeDecodeError:
                mops = None
        fs0 = fs_sx([(os.path.join(pdir, fn), b.decode("utf-8")) for fn, b in sorted(files0.items())],
                    [self.root] + ([pdir] if old is not None else []))
        shape_ok = None
        if m and mops is not None:
            watched = m.call("run_watched", [tx(self.root), tx(name)])
            shape_ok = m.call("run_fresh_then_rename", [watched, mops]) == 1
            prog = m.call("run_save_prog", [fs0, tx(self.root), tx(name), tx(text)])
            self.exact_total += 1
            if prog == mops:
                self.exact_match += 1
            else:
                self.save_prog_diffs.append({"model": repr(prog)[:300], "real": repr(mops)[:300]})
        elif m:
            ctx.violation("oracle:atomic_save", dict(case, observed="save performs operations outside the model's "
                                                     "alphabet: %r" % (bad_ops[:3],)), key=K_TRUNC)
        if shape_ok is False:
            self.shape_fail += 1
        # -- every crash prefix, materialised and loaded by the real loader
        points = []
        for i, o in enumerate(ops):
            points.append((i, 0))
            if o[0] == "write":
                n = len(o[2])
                for k in sorted(set([1, n // 2, n - 1]) - set([0, n])):
                    if 0 < k < n:
                        points.append((i, k))
        points.append((len(ops), 0))
        bad_point = None
        for (i, k) in points:
            cname = self.fresh("crash")
            cdir = os.path.join(self.root, cname)

            def tr(p):
                return cdir + p[len(pdir):] if (p == pdir or p.startswith(pdir + "/")) else p
            if old is not None:
                os.makedirs(cdir)
                for fn, b in files0.items():
                    open(os.path.join(cdir, fn), "wb").write(b)
            try:
                for j, o in enumerate(ops[:i + 1]):
                    if j == i and not (o[0] == "write" and k > 0):
                        break
                    if o[0] == "mkdir":
                        os.mkdir(tr(o[1]))
                    elif o[0] == "open_trunc":
                        open(tr(o[1]), "wb").close()
                    elif o[0] == "write":
                        with open(tr(o[1]), "ab") as f:
                            f.write(o[2][:k] if j == i else o[2])
                    elif o[0] == "rename":
                        os.rename(tr(o[1]), tr(o[2]))
                    elif o[0] == "unlink":
                        os.unlink(tr(o[1]))
            except OSError as e:
                ctx.notes.append("crash materialisation failed at %r: %r" % ((i, k), e))
                continue
            got = impl_load(cname)
            self.count("crash_point")
            okp = same_lres(got, old_view) or same_lres(got, new_view)
            if not okp and bad_point is None:
                bad_point = (i, k, got)
            if m and mops is not None and len(mops) == len(ops):
                # coalescing did not merge anything: indices coincide; model load on the model crash state
                kc = len(ops[i][2][:k].decode("utf-8", "ignore")) if (i < len(ops) and k) else 0
                st = m.call("run_crash_at", [fs0, mops, i, kc])
                if isinstance(st, tuple) or not st:
                    self.corr("crash_at", dict(case, point=[i, k], model=repr(st)[:200]))
                else:
                    g = m.call("orun_load", [st[0], tx(self.root), tx(name), 0])
                    if not same_lres(lres_of_sx(g), got):
                        self.corr("crash_load", dict(case, point=[i, k], model=lres_of_sx(g), impl=got), found=not okp,
                                  key=K_TRUNC if not okp else None)
            shutil.rmtree(cdir, ignore_errors=True)
        if bad_point is not None:
            i, k, got = bad_point
            ctx.violation("oracle:atomic_save", dict(case, crash_after_ops=i, bytes_of_next_write=k, observed=got,
                                                     expected_one_of=[old_view, new_view]), key=K_TRUNC)
        elif shape_ok is False:
            ctx.violation("oracle:atomic_save", dict(case, observed="the traced save does not have the "
                          "write-fresh-name-then-rename shape (fresh_then_rename = false), yet no sampled crash "
                          "point failed"), found_input=False, key=K_TRUNC)
        shutil.rmtree(pdir, ignore_errors=True)

    exact_total = exact_match = shape_fail = 0
    b64_fail = []
    rt_failed = False
    save_prog_diffs = []


def corpus_cases():
    out = []
    for p in sorted(glob.glob(os.path.join(VERIF, "corpus", "C19", "*.json"))):
        try:
            out.append((os.path.basename(p), json.load(open(p))))
        except Exception:
            pass
    return out


def _dedupe_violations(ctx, per_kind=2):
    """At most `per_kind` reports per (what, key) so that one defect cannot use up the report budget."""
    real = ctx.violation
    seen = {}

    def violation(name, data, found_input=True, key=None):
        k = (name, key)
        seen[k] = seen.get(k, 0) + 1
        if seen[k] > per_kind and ctx.known_match(key) is None:
            return
        return real(name, data, found_input=found_input, key=key)
    ctx.violation = violation


def run(ctx):
    _dedupe_violations(ctx)
    ctx.prove()
    exe = ctx.build_model("C19")
    oracle = Oracle()
    model = modelrun.Model(exe, oracle=oracle) if exe else None
    R = Run(ctx, model, oracle)
    R.save_prog_diffs = []
    R.b64_fail = []
    rng = ctx.rng
    quick = ctx.tier == "quick"
    sdir = os.path.join(ctx.scratch, "files")
    os.makedirs(sdir, exist_ok=True)
    cwd0 = os.getcwd()
    emptycwd = os.path.join(ctx.scratch, "cwd")
    os.makedirs(emptycwd, exist_ok=True)
    os.chdir(emptycwd)          # load(name) first tries `name` as a relative path
    use_strace = c19_trace.have_strace()
    ctx.coverage["file_op_observer"] = "strace -f (syscalls)" if use_strace else \
        "FALLBACK: in-process interception of builtins.open/os.rename/os.replace/os.fsync/os.mkdir (strace unavailable)"
    try:
        # 0. corpus first
        for fn, c in corpus_cases():
            if c.get("kind") == "roundtrip":
                R.roundtrip_case(c["spec"], c["fmt"], sdir, True)
            elif c.get("kind") == "crash":
                R.save_case(c.get("old") and (c["old"][0], c["old"][1]), c["new"], c["fmt"], use_strace)
            elif c.get("kind") == "kv_parse" and model:
                R.keyval_text = c["text"]
        # 0b. binary attributes at every boundary length x both formats x every load path, then base64 itself
        R.field_encoders(sdir)
        R.string_cases(sdir)
        R.base64_layer()
        R.text_primitives()
        R.keyval_layer(150 if quick else 3000)
        # 1. configs: every single field, none, all; random subsets; (thorough) all 2^16 subsets
        specs = []
        for kv in (True, False):
            specs.append(({}, kv))
            specs.append((gen_spec(rng, kv, subset=PARAMS), kv))
            for name in PARAMS:
                specs.append((gen_spec(rng, kv, subset=[name]), kv))
            for _ in range(60 if quick else 1500):
                specs.append((gen_spec(rng, kv), kv))
            for name in PARAMS:            # all but one field
                specs.append((gen_spec(rng, kv, subset=[n for n in PARAMS if n != name]), kv))
        for i, a in enumerate(PARAMS):      # every pair of fields
            for b in PARAMS[i + 1:]:
                specs.append((gen_spec(rng, True, subset=[a, b]), True))
        if not quick:
            for mask in range(1 << 16):
                sub = [n for i, n in enumerate(PARAMS) if mask >> i & 1]
                specs.append((gen_spec(rng, True, subset=sub), True))
        for idx, (spec, kv) in enumerate(specs):
            full = quick or idx < 4000
            R.pipeline_case(spec, kv)
            if not full and idx % 16:
                continue
            R.roundtrip_case(spec, JSON, sdir, not quick and idx % 7 == 0)
            if idx % 5 == 0:
                R.rewrite_case(spec, JSON, sdir)
            if kv and in_kv_domain(spec):
                R.roundtrip_case(spec, KEYVAL, sdir, not quick and idx % 7 == 0)
                if idx % 5 == 0:
                    R.rewrite_case(spec, KEYVAL, sdir)
            elif model:
                # out of the key=value domain: model and code must still agree on what comes back
                t = impl_to_str(spec, KEYVAL)
                try:
                    t.encode("utf-8")
                except Exception:
                    t = None
                if t is not None:
                    R.resolver_case(sdir, t, ".yo")
            if idx % 40 == 0:
                ctx.add_sample({"spec_fields": sorted(spec), "kv_domain": kv})
        # 2. ill-typed configs and hand-written dicts (both sides must refuse alike)
        for _ in range(40 if quick else 600):
            spec = gen_spec(rng, True, p=.5)
            f = rng.choice(BYTESF + ["client_static_keypair", "server_static_public"])
            spec[f] = rng.choice([["s", "abc"], ["i", 5], ["b", "00"] if f not in BYTESF else ["pk", "00" * 32]])
            R.pipeline_case(spec, True)
        b64 = lambda n: base64.b64encode(rng.randbytes(n)).decode()
        for _ in range(80 if quick else 1500):
            d = {}
            for _k in range(rng.randint(0, 5)):
                k = rng.choice(PARAMS + ["version", "__version__", "foo", "_phone"])
                r = rng.random()
                if k in BYTESF + ["client_static_keypair", "server_static_public"]:
                    d[k] = b64(rng.choice([0, 1, 20, 32, 63, 64, 65])) if r < .7 else \
                        rng.choice(["@@@", "QUJD", "QUJ", "ä", 5])
                else:
                    d[k] = rng.choice(["1", 1, 49, "x y", ""])
            R.deserialize_case(d)
        # 3. resolver on hand-written / mismatching files
        from yowsup.config.transforms.dict_json import DictJsonTransform
        for _ in range(40 if quick else 600):
            spec = gen_spec(rng, True)
            fmt = rng.choice([KEYVAL, JSON])
            t = impl_to_str(spec, fmt)
            if t is None or not in_kv_domain(spec):
                continue
            if rng.random() < .3:
                t = t.replace("\n", rng.choice(["\r\n", "\r", "\n\n", "\n# c\n"]))
            if rng.random() < .2:
                t = t[:rng.randint(0, len(t))]
            R.resolver_case(sdir, t, rng.choice(["", ".json", ".yo", ".txt", ".JSON"]))
        for t in ["", "{}", "[]", "5", "# only a comment\n", "cc=49", "{\n \"cc\": \"49\"\n}", "{\"a=b\": 1}",
                  "\"a=b\"", "{\"__version__\": 1}", "__version__=1"]:
            for ext in ("", ".json", ".yo"):
                R.resolver_case(sdir, t, ext)
        # 4. traced saves + crash points
        nsave = 6 if quick else 40
        for i in range(nsave):
            fmt = JSON if i % 3 != 2 else KEYVAL
            while True:
                new = gen_spec(rng, True, p=.6)
                new["client_static_keypair"] = ["kp", rng.randbytes(32).hex(), rng.randbytes(32).hex()]
                oldspec = dict(gen_spec(rng, True, p=.5))
                oldspec["client_static_keypair"] = new["client_static_keypair"]
                if in_kv_domain(new) and in_kv_domain(oldspec):
                    break
            old = None if i % 2 == 1 else (oldspec, JSON if i % 4 else KEYVAL)
            R.save_case(old, new, fmt, use_strace)
        # 5. a hand-placed config.yo in the profile dir
        stale_yo_case(R)
    finally:
        os.chdir(cwd0)
        if model:
            model.close()
    if model:
        ctx.ties["correspondence"] = "ok" if R.mismatch == 0 else "broken"
    if oracle.hyp_fail:
        ctx.ties["hypotheses"] = "broken: %r" % (oracle.hyp_fail[:2],)
        ctx.violation("hypothesis:C19.%s" % oracle.hyp_fail[0][0], {"kind": "hypothesis", "cases": oracle.hyp_fail[:5]},
                      found_input=False)
    else:
        ctx.ties["hypotheses"] = "ok (json_rt, json_shape, json_no_cr held on every oracle call)"
    if R.b64_fail:
        ctx.ties["base64"] = "broken: %r" % (R.b64_fail[:2],)
        if not ctx.violations:
            ctx.tie_broken_without_input("hypothesis:C19.base64", R.b64_fail[:3])
    elif model:
        ctx.ties["base64"] = ("ok (modelled b64_encode/b64_decode equal the interpreter's base64 on every generated input; "
                              "every binary field encoder of ConfigSerialize produced text over the 65-character alphabet "
                              "at every boundary length)")
    if R.exact_total and R.exact_match != R.exact_total:
        if R.shape_fail == 0 and not ctx.violations:
            ctx.notes.append("traced save differs from the model's save_prog in %d/%d runs but satisfies "
                             "fresh_then_rename, so C19_atomic_generic still covers it: %r"
                             % (R.exact_total - R.exact_match, R.exact_total, R.save_prog_diffs[:1]))
        elif not ctx.violations:
            ctx.tie_broken_without_input("correspondence:C19.save_prog", R.save_prog_diffs[:2])
    if not ctx.proof_ok and not ctx.violations:
        ctx.tie_broken_without_input("theorem:" + ctx.failing_theorem(), ctx.ties.get("proof"))
    if model is None and not ctx.violations:
        ctx.tie_broken_without_input("model-build:C19", ctx.ties.get("model-build:C19"))
    ctx.coverage["evaluations"] = R.evals
    ctx.coverage["distinct_nontrivial"] = R.nontriv
    ctx.coverage["case_kinds"] = R.kinds
    ctx.coverage["oracle_calls_answered_by_real_json"] = oracle.calls
    ctx.coverage["json_results_outside_model"] = oracle.unmodelled_json
    ctx.coverage["traced_saves"] = R.exact_total
    ctx.coverage["traced_saves_equal_to_model_save_prog"] = R.exact_match
    ctx.coverage["exhaustive"] = False
    return ctx.finish(
        rule="cases = binary attributes (id, expid, edge_routing_info, server_static_public at 0,1,2,3,56,57,58,59,100,1000 "
             "bytes; key pair 64; all long at once) and textual values with '=', blanks, unicode (JSON also '#', ';', "
             "newlines, outer blanks) x {json, key=value} x all load paths; base64 model vs interpreter (all lengths "
             "0..200, long, malformed texts); configs (every single field, every pair, all but one, none, all 16, "
             "random subsets with binary lengths up to 1000; thorough: all 2^16 subsets) x "
             "{json, key=value} x load paths {matching extension (two spellings), no extension, unknown extension, "
             "profile used before, profile never used, each also with profile_only=True}; key=value dicts/texts (in-domain and hand-written/malformed); "
             "raw dicts for deserialize; resolver on mismatching/hand-written files; traced real saves x every "
             "crash prefix (write: 1, mid, n-1 bytes). non-trivial = distinct config with >= 2 fields incl. a binary "
             "one, distinct multi-entry dict/multi-line text, each traced save",
        assumptions_text=ASSUME)


def stale_yo_case(R):
    """A config.yo placed by hand in the profile dir: save writes config.json, load reads config.yo."""
    from yowsup.config.manager import ConfigManager
    cm = ConfigManager()
    name = R.fresh("yoprof")
    pdir = os.path.join(R.root, name)
    os.makedirs(pdir)
    old = {"phone": ["s", "111"], "cc": ["s", "1"]}
    new = {"phone": ["s", "222"], "cc": ["s", "2"]}
    told = impl_to_str(old, KEYVAL)
    write_text(os.path.join(pdir, "config.yo"), told)
    case = {"kind": "stale_yo", "old": old, "new": new}
    try:
        cm.save(name, cfg_from_spec(new), JSON)
    except Exception as e:
        return
    tnew = impl_to_str(new, JSON)
    got = R.load_both(name, [(os.path.join(pdir, "config.yo"), told), (os.path.join(pdir, "config.json"), tnew)],
                      [R.root, pdir], None, case, "stale_yo")
    if not same_lres(got, ("ok", new)):
        R.ctx.violation("oracle:roundtrip_by_profile", dict(case, observed=got, expected=("ok", new)), key=K_STALE_YO)
    shutil.rmtree(pdir, ignore_errors=True)


def replay(ctx, data):
    case = data["case"]
    kind = case.get("kind")
    ctx.scratch_files = os.path.join(ctx.scratch, "files")
    os.makedirs(ctx.scratch_files, exist_ok=True)
    os.makedirs(os.path.join(ctx.scratch, "cwd"), exist_ok=True)
    os.chdir(os.path.join(ctx.scratch, "cwd"))
    R = Run(ctx, None, None)
    R.save_prog_diffs = []
    if kind == "roundtrip":
        R.roundtrip_case(case["spec"], case["fmt"], ctx.scratch_files, True)
    elif kind == "rewrite":
        R.rewrite_case(case["first"], case["fmt"], ctx.scratch_files)
    elif kind == "crash":
        old = case.get("old")
        R.save_case(old and (old[0], old[1]), case["new"], case["fmt"], c19_trace.have_strace())
    elif kind == "stale_yo":
        stale_yo_case(R)
    elif kind == "pipeline":
        R.pipeline_case(case["spec"], True)
    elif kind == "field_alphabet":
        from yowsup.config.v1.serialize import ConfigSerialize
        from yowsup.config.v1.config import Config
        d = ConfigSerialize(Config).serialize(cfg_from_spec(case["spec"]))
        val = d.get(case["field"])
        print("observed: serialize()[%r] = %r" % (case["field"], val))
        print("expected: text over [A-Za-z0-9+/=]")
        if not (isinstance(val, str) and set(val) <= B64_ALPHABET):
            ctx.violation("hypothesis:C19.field_encoder_alphabet", case)
        for fmt in (KEYVAL, JSON):
            R.roundtrip_case(case["spec"], fmt, ctx.scratch_files, True)
    elif kind == "kv_rt":
        from yowsup.config.transforms.dict_keyval import DictKeyValTransform
        T = DictKeyValTransform()
        d = case["dict"]
        try:
            back = T.reverse(T.transform(d))
        except Exception as e:
            back = "raised " + type(e).__name__
        print("observed:", back)
        print("expected:", {k: str(v) for k, v in d.items()})
        if back != {k: str(v) for k, v in d.items()}:
            ctx.violation("oracle:keyval_roundtrip", case)
    else:
        print("replay of case kind %r needs the model; run ./check C19 with VERIF_SEED=%s" % (kind, data.get("seed")))
        print(json.dumps(case, indent=1)[:2000])
        return 0
    for v in ctx.violations:
        d = json.load(open(v["replay"]))
        print("observed:", d["case"].get("observed"))
        print("expected:", d["case"].get("expected", d["case"].get("expected_one_of")))
        print("VIOLATION property=C19 replay=(replayed) %s" % v["name"])
    for k in ctx.known_hits:
        print("KNOWN-FINDING: property=C19 %s" % k.get("what"))
    return 1 if ctx.violations else 0
