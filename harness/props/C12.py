"""C12 -- a failure while sending or receiving does not wedge the stack.

Model: coq/C12 (ranked call graph with locks, failure oracle, release_on_raise per lock site).
Implementation: the real default stack driven by harness/c12rig.py (fake dispatcher below, Noise
responder as peer, recording application layer on top).

For every layer x direction x position in a short operation sequence one layer is made to raise once
(generic injected exception at the entry of send/receive, plus the real causes: unencodable value,
>= 2^24 frame, noise not in transport state, undecodable frame, handler ValueError, application callback
raising, decrypt failure); after every operation the harness reads `Lock.locked()` of every layer lock
and of noise._flush_lock, then runs follow-up sends / incoming frames on the same and on another thread
under a timeout (optionally after disconnect + reconnect).  The same scenario is run through the
extracted Coq model (table built from the layer list, release_on_raise = true = the repaired code);
outcome, lock table and the sequence of layers entered must agree for every operation.

Round 9: failures HANDLED inside a layer (harness/c12e2e.py: a real second axolotl identity as the peer contact, real
session set-up).  A message the axolotl receive layer cannot decrypt is answered with a retry / delivery receipt or a
get-keys iq and the caller of the read sees nothing; an encrypt can fail on the sending thread.  Afterwards no lock
may be held -- the layer locks and every lock object reachable from the layers and the manager, asked from a probe
thread -- and messages to / from the contact with the session (manager.encrypt / decrypt_*) from BOTH threads must be
processed normally.  A lock of the manager that is taken while its cipher methods run becomes the inner site of the
model table (coq/C12/C12Inner.v: handlers and re-entrant locks on top of the same lock chain, run_c12i).
"""
import json, os, queue, threading, time, itertools
from .. import modelrun

ASSUME = [
    "modelled: YowLayer.toLower (acquire; lower.send; release) as a lock site per layer, "
    "YowNoiseLayer._flush_incoming_buffer (_flush_lock around toUpper), layer send/receive bodies as lockless "
    "nodes that may raise, YowNoiseSegmentsLayer.send making two calls (header, payload), the iq layer "
    "answering a server ping downward from inside the receive path; data contents are irrelevant to C12",
    "release_on_raise is pinned by the correspondence: the model run uses ror=true at every site (the repaired "
    "code, fixes/C12-*.patch); the lock table after every failing operation is compared with it, and with the "
    "ror=false model to classify a mismatch as the known acquire/release-without-finally pattern",
    "the tie model<->code is differential testing on the real default stack: per operation the outcome "
    "(returned / raised / blocked within the timeout), Lock.locked() of all 9 layer locks + _flush_lock + "
    "_pingQueueLock, and the ordered list of layers whose send/receive was entered",
    "not modelled: Python's Lock has no owner (the model's owner field is ghost state); blocking is observed with "
    "a timeout (0.6 s) on a worker thread; the handshake after a reconnect is the rig's responder "
    "(harness/c12rig.py); cipher-stream synchronisation after a frame is lost below the encryption point by an "
    "INJECTED fault at network/segments is outside the lock model (a real socket error ends the connection); a "
    "frame too large for the segments layer is refused by the noise layer before encryption (repaired finding "
    "oversize-send-consumes-nonce) and is judged without any resynchronisation",
    "failures handled inside a layer (harness/c12e2e.py): the peer contact is a second real axolotl identity "
    "(yowsup's AxolotlManager over its own sqlite store), the session is set up through the real path (get-keys iq, "
    "key bundle, pkmsg, msg); both managers draw a fixed padding length so that python-axolotl 0.2.2's aligned-"
    "plaintext defect cannot occur; a message that cannot be decrypted (ciphertext / MAC byte flipped, duplicate, no "
    "session, unknown one-time key) is handled by the real receive layer, an encrypt fails because the store hands out "
    "an empty session record once (injected at the store, below the manager)",
    "lock state in that family: Lock.locked() of the layer locks plus, from a probe thread, a non-blocking acquire of "
    "every lock-like object (acquire/release and locked or _is_owned) found in the instance / class attributes of the "
    "layers, their sublayers and interfaces, the manager and its direct members, and the globals of their yowsup modules",
    "inner lock site: a lock-like attribute of the manager is wrapped in a delegating recorder (same lock object "
    "underneath); if it is taken while encrypt / decrypt_* / group_* run, the model table gets the inner site of "
    "coq/C12/C12Inner.v (lock node 1 around work node 0, re-entrant iff the object has _is_owned, handler at the "
    "axolotl receive node) and the scenario is run by run_c12i; the unchanged tree has no such attribute and its "
    "table is the one of the other families (run_c12; run_c12i with an empty extension must agree with it)",
]

LAYERS = ("network", "segments", "noise", "coder", "logger", "axolotl_control", "axolotl_parallel",
          "protocol_parallel", "top")
NL = len(LAYERS)
TOP = NL - 1
KIND_DEFAULT, KIND_PING = 0, 2
TIMEOUT = 0.6
GRACE = 6.0      # extra wait before an operation is judged blocked (only ever spent on a wedged stack)


# ---------------------------------------------------------------- model table
def S(i):
    return 2 * i


def T(i):
    return 2 * i - 1


def U(i):
    return 2 * TOP + 1 + (TOP - i)


NNODES = U(0) + 1


def build_table(ror_down=True, ror_flush=True):
    rows = [None] * NNODES
    rows[S(0)] = [0, 1, [], []]
    for i in range(1, NL):
        rows[T(i)] = [1, 1 if ror_down else 0, [S(i - 1)], []]
        rows[S(i)] = [0, 1, [T(i), T(i)] if LAYERS[i] == "segments" else [T(i)], []]
    for i in range(NL):
        calls = [U(i + 1)] if i < TOP else []
        special = []
        if LAYERS[i] == "protocol_parallel":
            special = [[KIND_PING, [T(i)]]]       # recvIq: pong goes down through the group's own toLower
        if LAYERS[i] == "noise":
            rows[U(i)] = [1, 1 if ror_flush else 0, calls, special]
        else:
            rows[U(i)] = [0, 1, calls, special]
    return rows


def node_to_entry(x):
    """model log node -> (dir, layer index) or None for lock-site nodes"""
    if x >= U(TOP):
        return ("up", TOP - (x - U(TOP)))
    if x % 2 == 0:
        return ("down", x // 2)
    return None


def lockrow_to_table(row):
    t = {}
    for i in range(1, NL):
        t[LAYERS[i]] = bool(row[T(i)])
    t["network"] = False
    t["noise._flush_lock"] = bool(row[U(2)])
    t["iq._pingQueueLock"] = False
    return t


# ---------------------------------------------------------------- scenarios
# op = ("send"|"recv", kind);  model kind id: ping-from-server = KIND_PING, everything else default
BASE = [("send", "presence"), ("recv", "ack"), ("send", "iq_ping"), ("recv", "iq_ping_from_server")]
FOLLOWUPS = [(0, ("send", "presence")), (1, ("recv", "ack")), (1, ("send", "iq_ping")),
             (0, ("recv", "iq_ping_from_server")),
             # the answers to the application's own pings (the keep-alive bookkeeping never saw those ids), each on
             # the other thread than the one before
             (0, ("recv", "pong")), (1, ("send", "iq_ping")), (1, ("recv", "pong"))]

MSG_FOLLOWUPS = [(0, ("send", "msg_a")), (1, ("send", "msg_b")), (1, ("send", "msg_a")), (0, ("recv", "ack")),
                 (0, ("send", "presence"))]

REAL = {  # cause -> (dir of the failing op, op, model failspec (node, occurrence, mode), exception class)
    "unencodable": ("down", ("send", "unencodable"), (S(3), 0, 1), "AttributeError"),
    # refused by the noise layer BEFORE it is encrypted (fix C12-oversize-refused-before-encryption): the send nonce
    # is not consumed, so the follow-ups are judged like after any other failure (no peer resynchronisation)
    "oversize": ("down", ("send", "oversize"), (S(2), 0, 1), "ValueError"),
    # the boundary: an encoded frame of exactly 2^24 - 16 bytes (with the tag: 2^24, one more than three bytes hold)
    "oversize_exact": ("down", ("send", "oversize_exact"), (S(2), 0, 1), "ValueError"),
    "not_transport_down": ("down", ("send", "presence"), (S(2), 0, 1), "MachineError"),
    "undecodable": ("up", ("recv", "garbage"), (U(3), 0, 1), "Exception"),
    "handler_valueerror": ("up", ("recv", "notification_unsupported"), (U(7), 0, 1), "ValueError"),
    "app_callback": ("up", ("recv", "ack"), (U(8), 0, 1), "RuntimeError"),
    "decrypt_fail": ("up", ("recv", "decrypt_fail"), (U(3), 0, 0), "DecryptFailedException"),
    "not_transport_up": ("up", ("recv", "ack"), (U(3), 0, 0), "MachineError"),
}


def gen_scenarios(ctx):
    sc = []
    quick = ctx.tier == "quick"
    positions = (0, 2) if quick else (0, 1, 2, 3, 4)
    # generic injected exception: every layer x direction x position (x occurrence where a layer is entered twice)
    for pos in positions:
        for li in range(NL):
            # downward fault inside a send
            occs = (0, 1) if LAYERS[li] == "network" else (0,)
            for occ in occs:
                sc.append({"pre": pos, "cause": "generic", "layer": li, "dir": "down", "occ": occ,
                           "op": ["send", "presence"], "reconnect": False})
            # upward fault inside an incoming frame
            sc.append({"pre": pos, "cause": "generic", "layer": li, "dir": "up", "occ": 0,
                       "op": ["recv", "ack"], "reconnect": False})
            # downward fault inside the answer to an incoming server ping (flush lock + layer locks)
            if li < TOP - 1:
                sc.append({"pre": pos, "cause": "generic", "layer": li, "dir": "down", "occ": 0,
                           "op": ["recv", "iq_ping_from_server"], "reconnect": False})
    # a send that leaves state in an UPPER layer before it goes down: a message to a contact without a session (the
    # axolotl send layer notes the contact and sends a get-keys iq down).  The failure below must not wedge that
    # contact: the next message to the same contact is processed like the first one (one frame on the wire).
    for pos in positions[:1] if quick else positions[:3]:
        for li in range(0, 6):
            sc.append({"pre": pos, "cause": "generic", "layer": li, "dir": "down", "occ": 0,
                       "op": ["send", "msg_a"], "reconnect": False, "followups": MSG_FOLLOWUPS})
    # the socket write itself fails (connection lost while writing): reported synchronously by the dispatcher from
    # inside sendData, i.e. on the sending thread with every layer lock of the path held; then reconnect
    for pos in positions[:2]:
        for occ in (0, 1):
            sc.append({"pre": pos, "cause": "socket_write_fails", "layer": 0, "dir": "down", "occ": occ,
                       "op": ["send", "presence"], "reconnect": True})
        sc.append({"pre": pos, "cause": "socket_write_fails", "layer": 0, "dir": "down", "occ": 0,
                   "op": ["recv", "iq_ping_from_server"], "reconnect": True})
        sc.append({"pre": pos, "cause": "socket_write_fails", "layer": 0, "dir": "down", "occ": 1,
                   "op": ["send", "presence"], "reconnect": True, "send_before_loop": True})
    # real causes
    for pos in positions:
        for cause in REAL:
            if cause in ("oversize", "oversize_exact") and pos != positions[0] and quick:
                continue                          # 0.7 s each
            sc.append({"pre": pos, "cause": cause, "layer": None, "dir": REAL[cause][0], "occ": 0,
                       "op": list(REAL[cause][1]), "reconnect": cause.startswith("not_transport")})
    # also after a reconnect
    rl = (1, 3, 7) if quick else range(NL)
    for li in rl:
        for d, op in (("down", ["send", "presence"]), ("up", ["recv", "ack"])):
            sc.append({"pre": 1, "cause": "generic", "layer": li, "dir": d, "occ": 0, "op": op, "reconnect": True})
    for cause in ("unencodable", "undecodable", "handler_valueerror", "app_callback"):
        sc.append({"pre": 1, "cause": cause, "layer": None, "dir": REAL[cause][0], "occ": 0,
                   "op": list(REAL[cause][1]), "reconnect": True})
    if not quick:
        # random longer histories: several faults in one history
        for _ in range(1200):
            n = ctx.rng.randint(2, 4)
            faults = []
            for _ in range(n):
                li = ctx.rng.randrange(NL)
                d = ctx.rng.choice(["down", "up"])
                faults.append({"layer": li, "dir": d, "occ": 0,
                               "op": ["send", "iq_ping"] if d == "down" else ["recv", "ack"]})
            sc.append({"pre": ctx.rng.randint(0, 2), "cause": "multi", "faults": faults, "reconnect": False,
                       "layer": faults[0]["layer"], "dir": faults[0]["dir"], "occ": 0, "op": faults[0]["op"]})
    return sc


# ---------------------------------------------------------------- implementation side
class Worker(object):
    """A persistent thread that runs jobs one at a time; a job that does not finish in time leaves the
    worker `stuck` (it is a daemon thread and is abandoned)."""

    def __init__(self):
        self.q = queue.Queue()
        self.stuck = False
        self.t = threading.Thread(target=self._loop)
        self.t.daemon = True
        self.t.start()

    def _loop(self):
        while True:
            job = self.q.get()
            if job is None:
                return
            fn, box, ev = job
            try:
                box["r"] = fn()
            except BaseException as e:
                box["exc"] = e
            ev.set()

    def run(self, fn, timeout):
        box, ev = {}, threading.Event()
        self.q.put((fn, box, ev))
        if not ev.wait(timeout) and not ev.wait(GRACE):      # a loaded machine is not a blocked stack
            self.stuck = True
            return ("blocked", None)
        if "exc" in box:
            return ("error", box["exc"])
        return ("done", box["r"])

    def stop(self):
        self.q.put(None)


class Instr(object):
    """Pass-through wrappers on every layer's send/receive: log entries, raise once when armed."""

    def __init__(self, rig):
        self.log = []
        self.log_threads = []
        self.armed = None          # (dir, layer index, occurrence)
        self.fired = 0
        self.count = {}
        for idx, (name, inst) in enumerate(rig.layers):
            assert name == LAYERS[idx], (name, LAYERS[idx])
            for attr, d in (("send", "down"), ("receive", "up")):
                self._wrap(inst, attr, d, idx)

    def _wrap(self, inst, attr, d, idx):
        orig = getattr(inst, attr)
        me = self

        def w(data):
            key = (d, idx)
            n = me.count.get(key, 0)
            me.count[key] = n + 1
            if me.armed is not None and me.armed[0] == d and me.armed[1] == idx and me.armed[2] == n:
                me.armed = None
                me.fired += 1
                raise RuntimeError("injected")
            me.log.append(key)
            me.log_threads.append(threading.get_ident())
            return orig(data)
        inst.__dict__[attr] = w

    def begin_op(self):
        self.log = []
        self.log_threads = []
        self.count = {}

    def log_of(self, ident):
        """entries made by one thread (a handshake worker writing its hello at the same time is not part of the op)"""
        return [k for k, t in zip(self.log, self.log_threads) if t == ident]


def model_kind(op):
    return KIND_PING if op[1] == "iq_ping_from_server" else KIND_DEFAULT


def run_impl(ctx, scn, seed):
    """Run one scenario on the real stack.  Returns (executed ops for the model, observations, notes)."""
    from .. import c12rig
    rig = c12rig.Rig(ctx.scratch, seed=seed)
    ins = Instr(rig)
    workers = [Worker(), Worker()]
    executed, obs, notes = [], [], {"fired": 0, "known": []}

    def do(thread, op, failspec=None, arm=None, cause=None, role="op"):
        w = workers[thread]
        if w.stuck:
            return None
        ins.begin_op()
        if arm is not None:
            ins.armed = arm
        fn = (lambda: rig.op_send(op[1])) if op[0] == "send" else (lambda: rig.op_recv(op[1]))
        st, r = w.run(fn, TIMEOUT if not op[1].startswith(("oversize", "largest")) else 20.0)
        ins.armed = None
        if st == "done":
            out = {"outcome": r["outcome"], "exc": r["exc"], "wire_frames": r["wire_frames"],
                   "wire_error": r["wire_error"], "top": len(r["top"])}
            if r.get("wire_match") is False:
                out["wire_match"], out["wire_got"], out["wire_want"] = False, r["wire_got"], r["wire_want"]
        elif st == "blocked":
            out = {"outcome": "blocked", "exc": None, "wire_frames": 0, "wire_error": None, "top": 0}
        else:
            out = {"outcome": "harness_error", "exc": repr(r), "wire_frames": 0, "wire_error": None, "top": 0}
        out["locks"] = rig.lock_table()
        out["log"] = [list(x) for x in ins.log]
        out["role"] = role
        out["thread"] = thread
        out["op"] = list(op)
        executed.append([thread, S(TOP) if op[0] == "send" else U(0), model_kind(op),
                         list(failspec) if failspec else []])
        obs.append(out)
        return out

    def fault(f_layer, f_dir, f_occ, f_op, cause):
        if cause == "socket_write_fails":
            # not an exception: the dispatcher reports the lost connection from inside sendData, on the sending
            # thread, below every layer lock (and below the flush lock when the write is the answer to a ping)
            rig.arm_socket_failure(f_occ)
            r = do(0, tuple(f_op), cause=cause, role="lost")
            if workers[0].stuck:
                return r
            if scn.get("send_before_loop"):
                # the network layer already knows the connection is gone, the deferred DISCONNECTED has not been
                # delivered yet (the layers above still believe in the session): sends in that window are dropped
                # or refused, and must leave nothing behind that a later connection would trip over
                do(1, ("send", "presence"), cause=cause, role="lost")
                do(0, ("send", "iq_ping"), cause=cause, role="lost")
            st, fired = workers[1].run(rig.after_socket_failure, 8.0)
            if st == "done" and fired:
                notes["fired"] += 1
            elif st != "done":
                notes["after_socket_failure"] = st
                workers[1] = Worker()
            return r
        if cause in REAL:
            _, op, failspec, _ = REAL[cause]
            if cause.startswith("not_transport"):
                rig.disconnect()
            elif cause == "app_callback":
                rig.top.raise_once = True
            return do(0, tuple(f_op), failspec=failspec, cause=cause, role="fault")
        node = S(f_layer) if f_dir == "down" else U(f_layer)
        before = ins.fired
        r = do(0, tuple(f_op), failspec=(node, f_occ, 0), arm=(f_dir, f_layer, f_occ), cause=cause, role="fault")
        notes["fired"] += ins.fired - before
        return r

    try:
        for op in BASE[:scn["pre"]] if scn["pre"] <= len(BASE) else BASE + BASE[:scn["pre"] - len(BASE)]:
            do(0, op, role="pre")
        faults = scn.get("faults") or [scn]
        for f in faults:
            cause = scn["cause"] if scn["cause"] != "multi" else "generic"
            r = fault(f.get("layer"), f.get("dir"), f.get("occ", 0), f["op"], cause)
            if cause in REAL and r is not None and r["outcome"] == "raise":
                notes["fired"] += 1
            # cipher-stream resynchronisation (outside the lock model; see module docstring of c12rig)
            lost_below_encryption = ((cause == "generic" and f["dir"] == "down" and f["layer"] <= 1
                                      and f["op"][0] == "send") or
                                     (cause == "generic" and f["dir"] == "down" and f["layer"] <= 1
                                      and f["op"][0] == "recv"))
            lost_before_decryption = cause == "generic" and f["dir"] == "up" and f["layer"] <= 2
            if lost_below_encryption or lost_before_decryption:
                rig.resync_peer()
        if scn["reconnect"]:
            drop = scn["cause"] == "not_transport_up"
            st, r = workers[1].run(lambda: rig.reconnect(drop_stale_segments=drop), 8.0)
            notes["reconnect"] = st if st != "error" else "error:%r" % (r,)
            if st == "blocked":
                workers[1] = Worker()
        for thread, op in scn.get("followups") or FOLLOWUPS:
            do(thread, tuple(op), role="followup")
    finally:
        for w in workers:
            w.stop()
        try:
            rig.close()
        except Exception:
            pass
    return executed, obs, notes


# ---------------------------------------------------------------- incoming reads with several frames
# Model: coq/C12/C12Segments.v (run_exc).  A case = the frames the peer sends (kind, does the stack raise on it),
# how the network cuts the byte stream into reads, then trailing reads of one good frame each.
SEG_EXC = {"garbage": "Exception", "notification_unsupported": "ValueError", "ack!": "RuntimeError"}


def gen_coalesced(ctx):
    quick = ctx.tier == "quick"
    pats = [["garbage", "ack"], ["ack", "garbage", "ack", "ack"], ["notification_unsupported", "ack", "ack"],
            ["ack!", "ack", "ack"], ["ack", "ack!", "ack"], ["garbage", "notification_unsupported", "ack"],
            ["ack", "ack", "ack"], ["ack", "garbage"]]
    cuts = ["one", "after_bad", "mid_next", "hdr_next", "bytewise3"]
    sc = []
    for pat in pats:
        for cut in cuts:
            sc.append({"cause": "coalesced", "frames": pat, "cut": cut, "pre": 0, "reconnect": False, "dir": "up",
                       "occ": 0, "op": ["recv", "coalesced"], "layer": None})
    if not quick:
        kinds = ["ack", "ack", "ack", "garbage", "notification_unsupported", "ack!"]
        for _ in range(300):
            n = ctx.rng.randint(2, 6)
            pat = [ctx.rng.choice(kinds) for _ in range(n)]
            sc.append({"cause": "coalesced", "frames": pat, "cut": "random", "cutseed": ctx.rng.randrange(10 ** 9),
                       "pre": 0, "reconnect": False, "dir": "up", "occ": 0, "op": ["recv", "coalesced"], "layer": None})
    return sc


def _cut_stream(frames, is_bad, how, rng):
    """-> list of chunks (bytes) whose concatenation is the stream"""
    stream = b"".join(frames)
    offs, o = [], 0
    for f in frames:
        offs.append(o)
        o += len(f)
    first_bad = next((i for i, b in enumerate(is_bad) if b), None)
    nxt = (first_bad + 1) if first_bad is not None and first_bad + 1 < len(frames) else None
    if how == "one" or (how != "random" and how != "bytewise3" and nxt is None):
        points = []
    elif how == "after_bad":
        points = [offs[nxt]]
    elif how == "mid_next":
        points = [offs[nxt] + max(1, len(frames[nxt]) // 2)]
    elif how == "hdr_next":
        points = [offs[nxt] + 3]
    elif how == "bytewise3":
        points = list(range(3, len(stream), max(3, len(stream) // 7)))
    else:
        k = rng.randint(0, 4)
        points = sorted(set(rng.randrange(1, len(stream)) for _ in range(k))) if len(stream) > 1 else []
    chunks, prev = [], 0
    for pt in points + [len(stream)]:
        if pt > prev:
            chunks.append(stream[prev:pt])
            prev = pt
    return chunks


def run_coalesced(ctx, model, scn, seed):
    """-> (problems, diffs, observed) for one coalesced-frames case"""
    import random as _random
    from .. import c12rig
    rig = c12rig.Rig(ctx.scratch, seed=seed)
    worker = Worker()
    segs = []
    orig = rig.noise.receive

    def tap(data):
        segs.append(bytes(data))
        return orig(data)
    rig.noise.__dict__["receive"] = tap
    seglayer = rig.by_name["segments"]
    probs, diffs, observed = [], [], []
    try:
        kinds = list(scn["frames"])
        nbad = sum(1 for k in kinds if k in SEG_EXC)
        kinds_all = kinds + ["ack"] * (nbad + 1)          # trailing reads flush what a raising read left behind
        frames, ids, is_bad = [], [], []
        for k in kinds_all:
            data, sid = rig.recv_frame("ack" if k == "ack!" else k, app_raises=(k == "ack!"))
            frames.append(data)
            ids.append(sid)
            is_bad.append(k in SEG_EXC)
        nlead = len(kinds)
        chunks = _cut_stream(frames[:nlead], is_bad[:nlead], scn["cut"], _random.Random(scn.get("cutseed", 0)))
        chunks += frames[nlead:]
        top_ids0 = len(rig.top.seen_ids)
        for ci, ch in enumerate(chunks):
            s0 = len(segs)
            st, r = worker.run(lambda ch=ch: rig.feed(ch), TIMEOUT)
            if st != "done":
                probs.append("read %d did not finish within %.1fs" % (ci, TIMEOUT))
                break
            locks = rig.lock_table()
            observed.append({"read": ci, "bytes": len(ch), "outcome": r["outcome"], "exc": r["exc"],
                             "segments_up": [x.hex()[:16] for x in segs[s0:]], "n_up": len(segs) - s0,
                             "buffer_after": len(seglayer._read_buffer),
                             "held": sorted(k for k, v in locks.items() if v)})
            observed[-1]["_segs"] = segs[s0:]
            observed[-1]["_buf"] = bytes(seglayer._read_buffer)
            if any(locks.values()):
                probs.append("after read %d locks stay held: %s" % (ci, observed[-1]["held"]))
        # ---- property oracle on the implementation
        if not probs:
            want_top = [ids[i] for i, k in enumerate(kinds_all) if k in ("ack", "ack!")]
            got_top = [x for x in rig.top.seen_ids[top_ids0:]]
            if got_top != want_top:
                probs.append("frames that reached the application: %s; sent (in order, each must arrive exactly once "
                             "although an earlier frame of the same read failed): %s" % (got_top, want_top))
            want_exc = [SEG_EXC[k] for k in kinds if k in SEG_EXC]
            got_exc = [o["exc"] for o in observed if o["outcome"] == "raise"]
            if got_exc != want_exc:
                probs.append("failures reported to the caller of the read: %s, expected %s" % (got_exc, want_exc))
            if seglayer._read_buffer:
                probs.append("read buffer not empty after the last read: %d bytes" % len(seglayer._read_buffer))
            st, r = worker.run(lambda: rig.op_send("presence"), TIMEOUT)
            if st != "done" or r["outcome"] != "ok" or r["wire_frames"] != 1 or r["wire_error"]:
                probs.append("follow-up send not processed normally: %s %s" % (st, r))
        # ---- correspondence with the Coq model (run_exc)
        if model is not None and observed:
            bads = [frames[i][3:] for i, b in enumerate(is_bad) if b]
            for upto in range(1, len(observed) + 1):
                r = model.call("run_c12seg", [bads, b"", chunks[:upto]])
                if isinstance(r, tuple):
                    diffs.append("model run failed: %r" % (r,))
                    break
                calls, buf = r
                mc = calls[upto - 1]
                o = observed[upto - 1]
                m_segs, m_raised = [bytes(x) for x in mc[0]], bool(mc[1])
                if m_segs != o["_segs"] or m_raised != (o["outcome"] == "raise") or bytes(buf) != o["_buf"]:
                    diffs.append("read %d: model hands up %d frame(s), raised=%s, buffer %d bytes; implementation %d "
                                 "frame(s), outcome %s, buffer %d bytes" % (upto - 1, len(m_segs), m_raised, len(buf),
                                                                           o["n_up"], o["outcome"], len(o["_buf"])))
                    break
    finally:
        worker.stop()
        try:
            rig.close()
        except Exception:
            pass
    for o in observed:
        o.pop("_segs", None)
        o.pop("_buf", None)
    return probs, diffs, observed


# ---------------------------------------------------------------- two incoming reads in flight at once
# Thread 0 is inside the application callback for frame A (the callback waits), thread 1 hands in frame B;
# then A's callback raises (or returns).  Model: the flush lock site U(noise) serialises the two deliveries:
# thread 1 blocks on it, and once thread 0 has unwound (lock released on raise) it delivers B itself.
class Job(object):
    def __init__(self, fn):
        self.box, self.ev = {}, threading.Event()
        self.t = threading.Thread(target=self._run, args=(fn,))
        self.t.daemon = True
        self.t.start()

    def _run(self, fn):
        try:
            self.box["r"] = fn()
        except BaseException as e:
            self.box["exc"] = e
        self.ev.set()

    def wait(self, timeout):
        if not self.ev.wait(timeout):
            return "blocked", None
        if "exc" in self.box:
            return "error", self.box["exc"]
        return "done", self.box["r"]


def gen_concurrent(ctx):
    sc = []
    for fail in (True, False):
        for second in ("ack", "iq_ping_from_server"):
            sc.append({"cause": "concurrent", "first_fails": fail, "second": second, "pre": 0, "reconnect": False,
                       "dir": "up", "occ": 0, "op": ["recv", "ack"], "layer": TOP})
    return sc


def run_concurrent(ctx, model, scn, seed):
    from .. import c12rig
    rig = c12rig.Rig(ctx.scratch, seed=seed)
    probs, diffs, observed = [], [], []
    ins = Instr(rig)
    try:
        a_bytes, a_id = rig.recv_frame("ack")
        b_bytes, b_id = rig.recv_frame(scn["second"])
        entered, go = threading.Event(), threading.Event()
        rig.top.block_ids[a_id] = (entered, go, scn["first_fails"])
        top0 = len(rig.top.seen_ids)

        def snap(phase, st, r):
            locks = rig.lock_table()
            observed.append({"phase": phase, "state": st, "outcome": (r or {}).get("outcome") if st == "done" else st,
                             "exc": (r or {}).get("exc") if st == "done" else None,
                             "wire_frames": (r or {}).get("wire_frames", 0) if st == "done" else 0,
                             "held": sorted(k for k, v in locks.items() if v)})
        ins.begin_op()
        j0 = Job(lambda: rig.feed(a_bytes))
        if not entered.wait(20.0):
            probs.append("frame A never reached the application callback")
            go.set()
            return probs, diffs, observed
        snap("A inside the application callback", "paused", None)
        j1 = Job(lambda: rig.feed(b_bytes))
        st1, r1 = j1.wait(0.4)
        snap("B handed in while A is being delivered", st1, r1)
        go.set()
        st0, r0 = j0.wait(20.0)
        snap("A's callback %s" % ("raises" if scn["first_fails"] else "returns"), st0, r0)
        if st1 != "done":
            st1, r1 = j1.wait(8.0)
        snap("B's read completes", st1, r1)
        log = [list(x) for x in ins.log]
        # ---- oracle on the implementation
        want0 = "raise" if scn["first_fails"] else "ok"
        if st0 != "done" or r0["outcome"] != want0:
            probs.append("read A: %s %s, expected outcome %s" % (st0, r0 and r0.get("outcome"), want0))
        if st1 != "done":
            probs.append("read B never finished: a later incoming frame blocks forever")
        elif r1["outcome"] != "ok":
            probs.append("read B raised %s although nothing failed in it" % r1.get("exc"))
        time.sleep(0.05)
        got = rig.top.seen_ids[top0:]
        if scn["second"] == "ack":
            if got != [a_id, b_id]:
                probs.append("application saw %s; frame B (%s) handed in during A's failing delivery must be delivered "
                             "exactly once after it" % (got, b_id))
        else:
            n_pong = sum(o["wire_frames"] for o in observed)
            if got != [a_id] or n_pong != 1:
                probs.append("server ping handed in during A's delivery: %d pong(s) on the wire, application saw %s"
                             % (n_pong, got))
        held = sorted(k for k, v in rig.lock_table().items() if v)
        if held:
            probs.append("locks stay held afterwards: %s" % held)
        if rig.noise._incoming_segments_queue.qsize():
            probs.append("%d segment(s) left in the noise layer's incoming queue" % rig.noise._incoming_segments_queue.qsize())
        w = Worker()
        stf, rf = w.run(lambda: rig.op_recv("ack"), TIMEOUT)
        w.stop()
        if stf != "done" or rf["outcome"] != "ok" or len(rf["top"]) != 1:
            probs.append("follow-up incoming frame not processed normally: %s %s" % (stf, rf))
        # ---- model (phases)
        if model is not None:
            kind_b = KIND_PING if scn["second"] == "iq_ping_from_server" else KIND_DEFAULT
            ops = [[0, U(0), KIND_DEFAULT, []], [1, U(0), kind_b, []]]
            phases = [[0, 1, U(TOP)], [1, 0, 0], [0, 2 if scn["first_fails"] else 0, 0], [1, 0, 0]]
            r = model.call("run_c12_phases", [build_table(True, True), 2, ops, phases])
            if isinstance(r, tuple):
                diffs.append("model run failed: %r" % (r,))
            else:
                m_out = [{0: "ok", 1: "raise", 2: "blocked", 3: "fuel", 4: "paused"}[ph[0]] for ph in r]
                i_out = ["paused", observed[1]["outcome"], observed[2]["outcome"], observed[3]["outcome"]]
                if m_out != i_out:
                    diffs.append("per phase: model %s, implementation %s" % (m_out, i_out))
                # phase 2 (A's delivery ends) is not a quiescent point: thread 1 is released the moment A lets go of the
                # flush lock and runs on while the snapshot is taken - locks are compared where both threads are at rest
                m_locks = [sorted(k for k, v in lockrow_to_table(ph[1]).items() if v) for i, ph in enumerate(r) if i != 2]
                i_locks = [o["held"] for i, o in enumerate(observed) if i != 2]
                if m_locks != i_locks:
                    diffs.append("locks held per phase: model %s, implementation %s" % (m_locks, i_locks))
                m_log = sorted(json.dumps(list(e)) for ph in r for e in (node_to_entry(x) for x in ph[2]) if e is not None)
                if m_log != sorted(json.dumps(e) for e in log):
                    diffs.append("layers entered (both reads): model %s, implementation %s" % (m_log, sorted(json.dumps(e) for e in log)))
    finally:
        try:
            go.set()
        except Exception:
            pass
        try:
            rig.close()
        except Exception:
            pass
    return probs, diffs, observed


# ---------------------------------------------------------------- a send while the handshake is still running
# "session not ready" is one of the failure causes the property names.  State = handshake (client hello written,
# server hello not yet received): the send must fail at its caller at once (MachineError from the noise layer),
# hold nothing, and leave the stack usable whether the handshake then completes, fails, or is cut off.
def gen_hs_send(ctx):
    sc = []
    # (a connection cut off while the handshake worker is still waiting is C04's open finding, not generated here)
    for how in ("completes", "fails_then_reconnect"):
        for sends in (1, 2):
            sc.append({"cause": "handshake_send", "handshake": how, "sends": sends, "pre": 0, "reconnect": False,
                       "dir": "down", "occ": 0, "op": ["send", "presence"], "layer": 2})
    return sc


def run_hs_send(ctx, model, scn, seed):
    from .. import c12rig
    rig = c12rig.Rig(ctx.scratch, seed=seed)
    ins = Instr(rig)
    workers = [Worker(), Worker()]
    executed, obs, probs = [], [], []

    def do(thread, op, failspec=None, role="op"):
        w = workers[thread]
        if w.stuck:
            return None
        ins.begin_op()
        fn = (lambda: rig.op_send(op[1])) if op[0] == "send" else (lambda: rig.op_recv(op[1]))
        st, r = w.run(fn, TIMEOUT)
        if st == "done":
            out = {"outcome": r["outcome"], "exc": r["exc"], "wire_frames": r["wire_frames"],
                   "wire_error": r["wire_error"], "top": len(r["top"])}
        else:
            out = {"outcome": "blocked" if st == "blocked" else "harness_error", "exc": None if st == "blocked" else repr(r),
                   "wire_frames": 0, "wire_error": None, "top": 0}
        out.update({"locks": rig.lock_table(), "log": [list(x) for x in ins.log_of(w.t.ident)], "role": role,
                    "thread": thread, "op": list(op)})
        executed.append([thread, S(TOP) if op[0] == "send" else U(0), model_kind(op), list(failspec) if failspec else []])
        obs.append(out)
        return out
    try:
        rig.disconnect()
        st, r = workers[1].run(lambda: rig._connect(stop_before_server_hello=True), 8.0)
        if st != "done":
            return ["harness: connect up to the client hello did not finish: %s %r" % (st, r)], [], []
        state = rig.noise._wa_noiseprotocol.state
        if state != "handshake":
            return ["harness: protocol state %r after the client hello, expected handshake" % state], [], []
        for i in range(scn["sends"]):
            do(i % 2, ("send", "presence"), failspec=(S(2), 0, 1), role="fault")
        if scn["handshake"] == "completes":
            st, r = workers[1].run(lambda: rig._connect_finish(), 8.0)
        elif scn["handshake"] == "fails_then_reconnect":
            st, r = workers[1].run(lambda: rig._connect_finish(corrupt=True), 8.0)
            if st == "done":
                st, r = workers[1].run(lambda: rig.reconnect(drop_stale_segments=True), 8.0)
        if st != "done":
            probs.append("the handshake / reconnect after the failed send did not finish (%s %r): a send made while "
                         "the session was not ready keeps the stack from coming up" % (st, r))
            if st == "blocked":
                workers[1] = Worker()
        for thread, op in FOLLOWUPS:
            do(thread, op, role="followup")
    finally:
        for w in workers:
            w.stop()
        try:
            rig.close()
        except Exception:
            pass
    oscn = dict(scn, cause="not_transport_down")
    probs += oracle(oscn, obs, {"reconnect": "done"})
    pred = model_predict(model, build_table(True, True), executed) if model else None
    diffs = compare(obs, pred) if model else []
    return probs, diffs, short_obs(obs)


# ---------------------------------------------------------------- failures handled INSIDE a layer (end-to-end)
# The real axolotl layers over the real AxolotlManager on both ends (harness/c12e2e.py): the peer contact is a
# second axolotl identity, the session is set up through get-keys iq / key bundle / pkmsg / msg.  A message that
# cannot be decrypted (damaged ciphertext, bad MAC, duplicate, no session, unknown one-time key) is a failure that the
# receive layer handles itself: the caller of the read sees nothing, a retry receipt / delivery receipt / get-keys iq
# goes down.  C12 still applies to it: no lock may stay held (the layer locks, and any lock object reachable from the
# layers and from the manager) and later operations of EVERY thread are processed normally -- a message to the contact
# with the session runs manager.encrypt, an incoming message runs manager.decrypt_*.  Symmetric case: an encrypt that
# fails on the sending thread (the store hands out an empty session record once), then a decrypt on the other thread.
#
# Model: the same lock chain.  On a tree whose manager has no lock of its own the handled failure is an incoming
# stanza that the axolotl layer answers downward (kind KIND_AXO_DOWN, as the iq layer answers a server ping) and the
# table is the one of the other families, run by run_c12.  When the tree has a lock-like attribute on the manager that
# is taken while the manager's cipher methods run (found at run time, c12e2e.E2ERig.inner_site) the table gets the
# INNER SITE of coq/C12/C12Inner.v: node 1 = the lock site (re-entrant if the object is), node 0 = the cipher work;
# every other node moves up by two; the axolotl layer's send / receive enter the site before they hand on, the
# receive node has a handler for the handled kinds, and the failure is placed at the entry of node 0 (run_c12i).
KIND_AXO_DOWN, KIND_ENC_UP, KIND_MSG_ENC, KIND_KEYS, KIND_ENC_HANDLED = 3, 4, 5, 6, 7
AXO = LAYERS.index("axolotl_parallel")
HANDLED = {   # incoming kind -> (what the layer sends down as its documented reaction, the manager-level failure)
    "enc_damaged": ("receipt:retry", "InvalidMessage (ciphertext byte flipped)"),
    "enc_bad_mac": ("receipt:retry", "InvalidMessage (MAC byte flipped)"),
    "enc_duplicate": ("receipt:None", "DuplicateMessage (the previous message once more)"),
    "enc_nosession": ("iq:get", "NoSession (message from a contact without a session)"),
    "enc_bad_prekey_id": ("receipt:retry", "InvalidKeyId (pkmsg naming a one-time key the store never had)"),
}
E2E_PRE = [(1, ("send", "msg_session")), (0, ("recv", "enc_ok")), (1, ("send", "presence"))]
E2E_FOLLOWUPS = [(1, ("send", "msg_session")), (1, ("recv", "enc_ok")), (0, ("send", "presence")),
                 (1, ("recv", "ack")), (0, ("send", "msg_session"))]
E2E_FOLLOWUPS_ENCFAIL = [(1, ("recv", "enc_ok")), (1, ("send", "msg_session")), (0, ("recv", "enc_ok")),
                         (0, ("send", "msg_session")), (1, ("send", "presence"))]


class E2ETable(object):
    """node numbering and table with (inner is not None) or without the inner site"""

    def __init__(self, inner=None, ror_inner=True, ror_down=True, ror_flush=True):
        self.inner = inner
        self.off = 2 if inner else 0
        rows = build_table(ror_down, ror_flush)
        off = self.off

        def sh(l):
            return [y + off for y in l]
        rows = [[r[0], r[1], sh(r[2]), [[k, sh(c)] for k, c in r[3]]] for r in rows]
        s6, t6, u6, u7 = S(AXO), T(AXO), U(AXO), U(AXO + 1)
        self.catch, self.reent = [], []
        if inner:
            rows = [[0, 1, [], []], [1, 1 if ror_inner else 0, [0], []]] + rows
            rows[s6 + off][3] += [[KIND_MSG_ENC, [1, t6 + off]]]
            rows[u6 + off][3] += [[KIND_ENC_UP, [1, u7 + off]], [KIND_KEYS, [1, t6 + off, u7 + off]],
                                  [KIND_ENC_HANDLED, [1]], [KIND_AXO_DOWN, [t6 + off]]]
            self.catch = [[u6 + off, KIND_ENC_HANDLED, [t6 + off]]]
            self.reent = [1] if inner.get("reentrant") else []
        else:
            for k in (KIND_AXO_DOWN, KIND_ENC_HANDLED):
                rows[u6][3] += [[k, [t6]]]
            rows[u6][3] += [[KIND_KEYS, [t6, u7]]]
        # the key bundle is an iq result: the send sublayer consumes it (session, encrypt, message down), the receive
        # sublayer passes every iq on upward, where the iq layer drops a result nobody there asked for
        rows[u7 + off][3] += [[KIND_KEYS, []]]
        self.rows = rows
        self.lock_name = ("manager.%s" % inner["attr"]) if inner else None

    def entry(self, op):
        return (S(TOP) if op[0] == "send" else U(0)) + self.off

    def kind(self, op):
        k = op[1]
        if k == "msg_session_first":
            return KIND_DEFAULT                 # no session yet: a get-keys iq goes down, no cipher work
        if k == "msg_session":
            return KIND_MSG_ENC if self.inner else KIND_DEFAULT
        if k == "enc_ok":
            return KIND_ENC_UP if self.inner else KIND_DEFAULT
        if k == "keys_result":
            return KIND_KEYS
        if k in HANDLED:
            return KIND_ENC_HANDLED
        return model_kind(op)

    def failspec(self, scn_cause, op):
        if scn_cause == "handled" and self.inner:
            return [0, 0, 0]                     # the cipher work raises, under the inner lock
        if scn_cause == "encrypt_fails":
            return [0, 0, 0] if self.inner else [S(AXO), 0, 1]
        return []

    def locks_of_row(self, row):
        t = lockrow_to_table(row[self.off:])
        if self.inner:
            t[self.lock_name] = bool(row[1])
        return t

    def entry_of_node(self, x):
        return None if x < self.off else node_to_entry(x - self.off)

    def predict(self, model, executed):
        if self.inner:
            r = model.call("run_c12i", [self.rows, self.reent, self.catch, 2, executed])
        else:
            r = model.call("run_c12", [self.rows, 2, executed])
        if isinstance(r, tuple):
            return None
        wf, ror_all, rows = r
        out = []
        for row in rows:
            out.append({"outcome": OUTCOME.get(row[0], "?"), "locks": self.locks_of_row(row[1]),
                        "log": [list(e) for e in (self.entry_of_node(x) for x in row[2]) if e is not None]})
        return {"wf": bool(wf), "ror_all": bool(ror_all), "ops": out}


def gen_e2e(ctx):
    quick = ctx.tier == "quick"
    sc = []

    def add(cause, kind, pre, reconnect):
        sc.append({"cause": cause, "kind": kind, "pre": pre, "reconnect": reconnect, "layer": AXO,
                   "dir": "up" if cause == "handled" else "down", "occ": 0,
                   "op": ["recv", kind] if cause == "handled" else ["send", "msg_session"]})
    for kind in HANDLED:
        often = kind in ("enc_damaged", "enc_duplicate")
        for pre in ((0, 1, 2) if (often or not quick) else (1,)):
            add("handled", kind, pre, False)
    for pre in (0, 1, 2) if not quick else (0, 2):
        add("encrypt_fails", "msg_session", pre, False)
    for kind in ("enc_damaged", "enc_duplicate") if quick else HANDLED:
        add("handled", kind, 1, True)
    add("encrypt_fails", "msg_session", 1, True)
    return sc


def run_e2e(ctx, model, scn, seed):
    """-> (tab, executed, obs, notes) for one scenario of the handled-failure family"""
    from .. import c12e2e
    rig = c12e2e.E2ERig(ctx.scratch, seed=seed)
    ins = Instr(rig)
    workers = [Worker(), Worker()]
    executed, obs, notes = [], [], {"fired": 0, "known": [], "inner": None}
    state = {"blocked": False}

    def do(thread, op, role="op", model_op=None):
        w = workers[thread]
        if w.stuck:
            return None
        ins.begin_op()
        fn = (lambda: rig.op_send(op[1])) if op[0] == "send" else (lambda: rig.op_recv(op[1]))
        if state["blocked"]:
            # the stack is already wedged (reported): do not spend the grace period again on every further operation
            box, ev = {}, threading.Event()
            w.q.put((fn, box, ev))
            if ev.wait(TIMEOUT):
                st, r = ("error", box["exc"]) if "exc" in box else ("done", box["r"])
            else:
                w.stuck = True
                st, r = "blocked", None
        else:
            st, r = w.run(fn, TIMEOUT)
        if st == "done":
            out = {"outcome": r["outcome"], "exc": r["exc"], "wire_frames": r.get("wire_frames", 0),
                   "wire_error": r.get("wire_error"), "top": len(r.get("top", [])), "top_what": r.get("top", []),
                   "wire_types": r.get("wire_types", []), "e2e": r.get("e2e", [])}
        elif st == "blocked":
            state["blocked"] = True
            out = {"outcome": "blocked", "exc": None, "wire_frames": 0, "wire_error": None, "top": 0, "top_what": [],
                   "wire_types": [], "e2e": []}
        else:
            out = {"outcome": "harness_error", "exc": repr(r), "wire_frames": 0, "wire_error": None, "top": 0,
                   "top_what": [], "wire_types": [], "e2e": []}
        out["locks"] = rig.lock_table()
        out["probe"] = rig.probe_locks()
        out["log"] = [list(x) for x in ins.log_of(w.t.ident)]
        out["role"] = role
        out["thread"] = thread
        out["op"] = list(op)
        out["text"] = rig.sent_texts[-1] if (op == ("send", "msg_session") and rig.sent_texts) else None
        out["model_op"] = list(model_op or op)
        obs.append(out)
        return out
    try:
        # session set-up through the real path: application thread = 1, network thread = 0
        do(1, ("send", "msg_session"), role="setup", model_op=("send", "msg_session_first"))
        if rig.pending_keys_iq is None:
            raise c12e2e.RigError("set-up: the first message did not put a get-keys iq on the wire: %r" % short_obs(obs))
        do(0, ("recv", "keys_result"), role="setup")
        do(0, ("recv", "enc_ok"), role="setup")
        for thread, op in E2E_PRE[:scn["pre"]]:
            do(thread, op, role="pre")
        if scn["cause"] == "handled":
            r = do(0, ("recv", scn["kind"]), role="handled")
            if r is not None and HANDLED[scn["kind"]][0] in r["wire_types"]:
                notes["fired"] += 1
            followups = E2E_FOLLOWUPS
        else:
            rig.arm_encrypt_failure()
            r = do(0, ("send", "msg_session"), role="fault")
            if r is not None and r["outcome"] == "raise":
                notes["fired"] += 1
            followups = E2E_FOLLOWUPS_ENCFAIL
        if scn["reconnect"]:
            st, r = workers[1].run(lambda: rig.reconnect(), 8.0)
            notes["reconnect"] = st if st != "error" else "error:%r" % (r,)
            if st == "blocked":
                workers[1] = Worker()
        for thread, op in followups:
            do(thread, tuple(op), role="followup")
        notes["inner"] = rig.inner_site()
    finally:
        for w in workers:
            w.stop()
        try:
            rig.close()
        except Exception:
            pass
    tab = E2ETable(notes["inner"])
    for o in obs:
        mop = tuple(o["model_op"])
        fs = tab.failspec(scn["cause"], mop) if o["role"] in ("handled", "fault") else []
        executed.append([o["thread"], tab.entry(mop), tab.kind(mop), fs])
        if tab.inner:
            o["locks"][tab.lock_name] = tab.lock_name in o["probe"]
    return tab, executed, obs, notes


def oracle_e2e(scn, obs, notes):
    probs = []
    for i, o in enumerate(obs):
        what = "op %d (%s %s, %s, thread %d)" % (i, o["op"][0], o["op"][1], o["role"], o["thread"])
        held = held_e2e(o)
        if o["outcome"] == "blocked":
            probs.append("%s did not finish within %.1fs: it blocks; locks held: %s" % (what, TIMEOUT, held))
            continue
        if held:
            probs.append("after %s, outcome %s, locks stay held (a probe thread cannot take them): %s"
                         % (what, o["outcome"], held))
        if o["role"] == "fault":
            if o["outcome"] != "raise":
                probs.append("%s: the failing encrypt was not reported to the caller (outcome %s)" % (what, o["outcome"]))
            continue
        if o["outcome"] != "ok":
            probs.append("%s raised %s at its caller" % (what, o["exc"]))
            continue
        kind = o["op"][1]
        if o["role"] == "handled":
            want = HANDLED[kind][0]
            if o["wire_types"] != [want] or o["top"] != 0 or o["wire_error"]:
                probs.append("%s: %s is handled by the axolotl receive layer with exactly one %s going down and nothing "
                             "for the application; observed wire=%s application=%s" % (what, HANDLED[kind][1], want,
                                                                                       o["wire_types"], o["top_what"]))
        elif kind == "msg_session" and o["role"] != "setup":
            good = [e for e in o["e2e"] if e[0] == "ok" and e[2] == o["text"]]
            if o["wire_frames"] != 1 or o["wire_error"] or len(good) != 1:
                probs.append("%s not processed normally: expected one message frame the peer contact can decrypt to %r; "
                             "wire=%s peer=%s wire_error=%s" % (what, o["text"], o["wire_types"], o["e2e"], o["wire_error"]))
        elif kind == "enc_ok":
            if o["top"] != 1 or not o["top_what"][0].startswith("message:") or o["wire_error"]:
                probs.append("%s not processed normally: the decrypted message must reach the application once; "
                             "application=%s wire=%s" % (what, o["top_what"], o["wire_types"]))
        elif kind == "keys_result":
            if not [e for e in o["e2e"] if e[0] == "ok"]:
                probs.append("%s: no decryptable message followed the key bundle; wire=%s peer=%s"
                             % (what, o["wire_types"], o["e2e"]))
        elif kind in ("presence", "iq_ping", "ack"):
            want_wire = 1 if o["op"][0] == "send" else 0
            want_top = 1 if o["op"] == ["recv", "ack"] else 0
            if o["wire_error"] or o["wire_frames"] != want_wire or o["top"] != want_top:
                probs.append("%s not processed normally: wire_frames=%s wire_error=%s top=%s"
                             % (what, o["wire_frames"], o["wire_error"], o["top"]))
    if scn["reconnect"] and notes.get("reconnect") != "done":
        probs.append("reconnect after the failure: %s" % notes.get("reconnect"))
    return probs


def held_e2e(o):
    """names of the locks held after an operation: the layer table plus whatever else the probe thread cannot take"""
    probe = [k[:-5] if (k.endswith(".lock") and k[:-5] in LAYERS) else k for k in o["probe"]]
    return sorted(set([k for k, v in o["locks"].items() if v] + probe))


def short_obs_e2e(obs):
    return [{"op": o["op"], "role": o["role"], "thread": o["thread"], "outcome": o["outcome"], "exc": o["exc"],
             "held": held_e2e(o),
             "wire": o["wire_types"], "peer_decrypted": [e[0] for e in o["e2e"]], "application": o["top_what"]}
            for o in obs]


def check_e2e(ctx, model, scn, seed):
    tab, executed, obs, notes = run_e2e(ctx, model, scn, seed)
    probs = oracle_e2e(scn, obs, notes)
    diffs, leaky = [], None
    if model:
        pred = tab.predict(model, executed)
        diffs = compare(obs, pred)
        if pred is not None and not (pred["wf"] and pred["ror_all"]):
            diffs.append("the table built for this tree does not satisfy the hypotheses of the theorems (wf=%s ror=%s)"
                         % (pred["wf"], pred["ror_all"]))
        if tab.inner is None and pred is not None:
            # no inner site: the generalised semantics must agree with C12Chain's (inner_conservative_*, extracted)
            r = model.call("run_c12i", [tab.rows, [], [], 2, executed])
            r0 = model.call("run_c12", [tab.rows, 2, executed])
            if r != r0:
                diffs.append("run_c12i without handlers / re-entrant locks differs from run_c12 on this history")
        if (probs or diffs) and tab.inner:
            lt = E2ETable(tab.inner, ror_inner=False)
            lp = lt.predict(model, executed)
            if lp is not None and not [d for d in compare(obs, lp) if "layers entered" not in d]:
                leaky = ("observed lock tables and outcomes equal the model with release_on_raise=false at the inner "
                         "lock site %s (%s; acquire / work / release without try-finally around work that can raise: "
                         "C12_inner_leaky_refuted)" % (tab.lock_name,
                                                       "re-entrant" if tab.reent else "not re-entrant"))
    return tab, executed, obs, notes, probs, diffs, leaky


# ---------------------------------------------------------------- comparison
OUTCOME = {0: "ok", 1: "raise", 2: "blocked", 3: "model_fuel"}


def model_predict(model, table, executed):
    r = model.call("run_c12", [table, 2, executed])
    if isinstance(r, tuple):
        return None
    wf, ror_all, rows = r
    out = []
    for row in rows:
        out.append({"outcome": OUTCOME.get(row[0], "?"), "locks": lockrow_to_table(row[1]),
                    "log": [list(e) for e in (node_to_entry(x) for x in row[2]) if e is not None]})
    return {"wf": bool(wf), "ror_all": bool(ror_all), "ops": out}


def oracle(scn, obs, notes):
    """Direct statement of C12 on the implementation.  Returns a list of problems."""
    probs = []
    for i, o in enumerate(obs):
        held = sorted(k for k, v in o["locks"].items() if v)
        if o["outcome"] == "blocked":
            probs.append("op %d (%s %s, %s) did not finish within %.1fs; locks held: %s"
                         % (i, o["op"][0], o["op"][1], o["role"], TIMEOUT, held))
            continue
        if held:
            probs.append("after op %d (%s %s, %s, outcome %s) locks stay held: %s"
                         % (i, o["op"][0], o["op"][1], o["role"], o["outcome"], held))
        if o["role"] == "fault":
            if o["outcome"] != "raise":
                probs.append("op %d: the injected failure was not reported to the caller (outcome %s)"
                             % (i, o["outcome"]))
            elif scn["cause"] in REAL and o["exc"] != REAL[scn["cause"]][3]:
                probs.append("op %d: expected %s at the caller, got %s" % (i, REAL[scn["cause"]][3], o["exc"]))
        elif o["outcome"] != "ok" and o["role"] == "lost":
            pass      # a send on a connection the network layer knows is gone may be dropped or refused
        elif o["outcome"] != "ok":
            probs.append("op %d (%s %s, %s) raised %s although no failure was injected"
                         % (i, o["op"][0], o["op"][1], o["role"], o["exc"]))
        else:
            # processed normally: a send puts exactly one decryptable frame on the wire, an incoming ack
            # reaches the application, an incoming server ping is answered with one frame
            want_wire = 1 if (o["op"][0] == "send" or o["op"][1] == "iq_ping_from_server") else 0
            want_top = 1 if o["op"] in (["recv", "ack"], ["recv", "pong"]) else 0
            if o["role"] == "lost":
                continue      # the write that lost the connection: returned, nothing held; the frame itself is gone
            if o["wire_error"] or o["wire_frames"] != want_wire or o["top"] != want_top:
                probs.append("op %d (%s %s, %s) not processed normally: wire_frames=%s wire_error=%s top=%s"
                             % (i, o["op"][0], o["op"][1], o["role"], o["wire_frames"], o["wire_error"], o["top"]))
            elif o.get("wire_match") is False:
                probs.append("op %d (%s %s, %s) not processed normally: the frame the peer decrypts is not the "
                             "stanza's encoding (got %s.., want %s..)"
                             % (i, o["op"][0], o["op"][1], o["role"], o["wire_got"][:60], o["wire_want"][:60]))
    if scn["reconnect"] and notes.get("reconnect") != "done":
        probs.append("reconnect after the failure: %s" % notes.get("reconnect"))
    return probs


def compare(obs, pred):
    diffs = []
    if pred is None:
        return ["model run failed"]
    if len(pred["ops"]) != len(obs):
        return ["model returned %d ops for %d" % (len(pred["ops"]), len(obs))]
    for i, (o, p) in enumerate(zip(obs, pred["ops"])):
        if o["outcome"] != p["outcome"]:
            diffs.append("op %d outcome impl=%s model=%s" % (i, o["outcome"], p["outcome"]))
        if o["locks"] != p["locks"]:
            diffs.append("op %d locks impl=%s model=%s" % (
                i, sorted(k for k, v in o["locks"].items() if v), sorted(k for k, v in p["locks"].items() if v)))
        if o["log"] != p["log"] and o["outcome"] != "blocked":
            diffs.append("op %d layers entered impl=%s model=%s" % (i, o["log"], p["log"]))
    return diffs


def check_scenario(ctx, model, scn, seed):
    executed, obs, notes = run_impl(ctx, scn, seed)
    probs = oracle(scn, obs, notes)
    pred = model_predict(model, build_table(True, True), executed) if model else None
    diffs = compare(obs, pred) if model else []
    leaky = None
    if (probs or diffs) and model:
        for rd, rf, what in ((False, True, "YowLayer.toLower"), (True, False, "YowNoiseLayer._flush_incoming_buffer"),
                             (False, False, "YowLayer.toLower and YowNoiseLayer._flush_incoming_buffer")):
            lp = model_predict(model, build_table(rd, rf), executed)
            if lp is not None and not [d for d in compare(obs, lp) if "layers entered" not in d]:
                leaky = "observed lock tables and outcomes equal the model with release_on_raise=false at %s " \
                        "(acquire/release without try/finally: C12_leaky_refuted)" % what
                break
    return executed, obs, notes, probs, diffs, leaky


def short_obs(obs):
    return [{"op": o["op"], "role": o["role"], "thread": o["thread"], "outcome": o["outcome"], "exc": o["exc"],
             "held": sorted(k for k, v in o["locks"].items() if v), "wire_frames": o["wire_frames"],
             "wire_error": o["wire_error"], "top": o["top"]} for o in obs]


def shrink(ctx, model, scn, seed):
    """Shorten the operation sequence while the oracle still fails."""
    best = scn
    for pre in range(0, scn["pre"]):
        cand = dict(scn, pre=pre)
        try:
            _, _, _, probs, _, _ = check_scenario(ctx, model, cand, seed)
        except Exception:
            continue
        if probs:
            best = cand
            break
    return best


def run(ctx):
    ctx.prove()
    exe = ctx.build_model("C12")
    model = modelrun.Model(exe) if exe else None
    scenarios = gen_scenarios(ctx)
    coalesced = gen_coalesced(ctx)
    corpus_dir = os.path.join(os.path.dirname(os.path.dirname(os.path.dirname(os.path.abspath(__file__)))),
                              "corpus", "C12")
    if os.path.isdir(corpus_dir):
        for fn in sorted(os.listdir(corpus_dir)):
            if fn.endswith(".json"):
                scenarios.insert(0, json.load(open(os.path.join(corpus_dir, fn)))["scenario"])
    distinct, evaluations, n_oracle, n_corr, ops_total = set(), 0, 0, 0, 0
    by_cause, unfired = {}, []
    table_ok = None
    for idx, scn in enumerate(scenarios):
        if n_oracle >= 6 or n_corr >= 6:
            ctx.notes.append("stopped after %d scenarios: enough violations to fail the check" % idx)
            break
        try:
            executed, obs, notes, probs, diffs, leaky = check_scenario(ctx, model, scn, idx)
        except Exception as e:
            ctx.violation("harness:rig_failed", {"scenario": scn, "error": "%s: %s" % (e.__class__.__name__, e)},
                          found_input=False)
            n_corr += 1
            continue
        evaluations += 1
        ops_total += len(obs)
        by_cause[scn["cause"]] = by_cause.get(scn["cause"], 0) + 1
        if notes["fired"]:
            distinct.add(json.dumps([scn["cause"], scn.get("layer"), scn["dir"], scn["occ"], scn["op"], scn["pre"],
                                     scn["reconnect"], scn.get("faults")], sort_keys=True))
        else:
            unfired.append([scn["cause"], scn.get("layer"), scn["dir"], scn["op"]])
        for k in notes["known"]:
            ctx.violation("oracle:cipher_stream_desync", {"scenario": scn, "observed": short_obs(obs)}, key=k)
        if probs:
            n_oracle += 1
            small = shrink(ctx, model, scn, idx) if scn["pre"] > 0 else scn
            if small is not scn:
                executed, obs, notes, probs2, diffs, leaky = check_scenario(ctx, model, small, idx)
                probs = probs2 or probs
            ctx.violation("oracle:stack_wedged_after_failure",
                          {"scenario": small, "seed": idx, "problems": probs, "observed": short_obs(obs),
                           "classification": leaky, "model_diffs": diffs[:6]})
        elif diffs:
            n_corr += 1
            ctx.violation("correspondence:C12.chain", {"scenario": scn, "seed": idx, "diffs": diffs[:8],
                                                        "observed": short_obs(obs)}, found_input=False)
        if idx % 37 == 0:
            ctx.add_sample({"scenario": scn, "ops": short_obs(obs)[:8]})
    n_e2e, inner_sites = 0, set()
    for idx, scn in enumerate(gen_e2e(ctx)):
        if n_oracle >= 6 or n_corr >= 6:
            break
        try:
            tab, executed, obs, notes, probs, diffs, leaky = check_e2e(ctx, model, scn, 3000 + idx)
        except Exception as e:
            ctx.violation("harness:rig_failed", {"scenario": scn, "error": "%s: %s" % (e.__class__.__name__, e)},
                          found_input=False)
            n_corr += 1
            continue
        n_e2e += 1
        evaluations += 1
        ops_total += len(obs)
        by_cause[scn["cause"]] = by_cause.get(scn["cause"], 0) + 1
        inner_sites.add(tab.lock_name)
        if notes["fired"]:
            distinct.add(json.dumps([scn["cause"], scn["kind"], scn["pre"], scn["reconnect"]]))
        else:
            unfired.append([scn["cause"], scn["kind"], scn["dir"], scn["op"]])
        if probs:
            n_oracle += 1
            small = scn
            for pre in range(0, scn["pre"]):
                try:
                    res = check_e2e(ctx, model, dict(scn, pre=pre), 3000 + idx)
                except Exception:
                    continue
                if res[4]:
                    small, (tab, executed, obs, notes, probs, diffs, leaky) = dict(scn, pre=pre), res
                    break
            ctx.violation("oracle:stack_wedged_after_handled_failure",
                          {"scenario": small, "seed": 3000 + idx, "problems": probs, "observed": short_obs_e2e(obs),
                           "inner_lock_site": tab.inner, "classification": leaky, "model_diffs": diffs[:6]})
        elif diffs:
            n_corr += 1
            ctx.violation("correspondence:C12.inner_site", {"scenario": scn, "seed": 3000 + idx, "diffs": diffs[:8],
                                                            "inner_lock_site": tab.inner,
                                                            "observed": short_obs_e2e(obs)}, found_input=False)
        if idx in (0, 7):
            ctx.add_sample({"scenario": scn, "inner_lock_site": tab.inner, "ops": short_obs_e2e(obs)[:9]}, limit=12)
    ctx.coverage["handled_failure_cases"] = n_e2e
    ctx.coverage["inner_lock_sites_found"] = sorted(x for x in inner_sites if x)
    n_coal, n_coal_fail = 0, 0
    for idx, scn in enumerate(coalesced):
        if n_oracle >= 6 or n_corr >= 6:
            break
        try:
            probs, diffs, observed = run_coalesced(ctx, model, scn, idx)
        except Exception as e:
            ctx.violation("harness:rig_failed", {"scenario": scn, "error": "%s: %s" % (e.__class__.__name__, e)},
                          found_input=False)
            n_corr += 1
            continue
        n_coal += 1
        evaluations += 1
        ops_total += len(observed)
        by_cause["coalesced"] = by_cause.get("coalesced", 0) + 1
        if any(o["outcome"] == "raise" for o in observed):
            n_coal_fail += 1
            distinct.add(json.dumps(["coalesced", scn["frames"], scn["cut"], scn.get("cutseed")]))
        if probs:
            n_oracle += 1
            ctx.violation("oracle:incoming_frames_lost_after_failure",
                          {"scenario": scn, "seed": idx, "problems": probs, "observed": observed, "model_diffs": diffs})
        elif diffs:
            n_corr += 1
            ctx.violation("correspondence:C12.segments_exc", {"scenario": scn, "seed": idx, "diffs": diffs,
                                                              "observed": observed}, found_input=False)
        if idx % 17 == 3:
            ctx.add_sample({"scenario": scn, "reads": observed[:6]}, limit=8)
    n_conc = 0
    for idx, scn in enumerate(gen_concurrent(ctx)):
        try:
            probs, diffs, observed = run_concurrent(ctx, model, scn, 1000 + idx)
        except Exception as e:
            ctx.violation("harness:rig_failed", {"scenario": scn, "error": "%s: %s" % (e.__class__.__name__, e)},
                          found_input=False)
            n_corr += 1
            continue
        n_conc += 1
        evaluations += 1
        ops_total += 2
        by_cause["concurrent"] = by_cause.get("concurrent", 0) + 1
        distinct.add(json.dumps(["concurrent", scn["first_fails"], scn["second"]]))
        if probs:
            n_oracle += 1
            ctx.violation("oracle:incoming_frame_stuck_behind_failed_delivery",
                          {"scenario": scn, "seed": 1000 + idx, "problems": probs, "observed": observed,
                           "model_diffs": diffs})
        elif diffs:
            n_corr += 1
            ctx.violation("correspondence:C12.concurrent_reads", {"scenario": scn, "seed": 1000 + idx, "diffs": diffs,
                                                                  "observed": observed}, found_input=False)
        if idx == 0:
            ctx.add_sample({"scenario": scn, "phases": observed}, limit=9)
    n_hs = 0
    for idx, scn in enumerate(gen_hs_send(ctx)):
        if n_oracle >= 6 or n_corr >= 6:
            break
        try:
            probs, diffs, observed = run_hs_send(ctx, model, scn, 2000 + idx)
        except Exception as e:
            ctx.violation("harness:rig_failed", {"scenario": scn, "error": "%s: %s" % (e.__class__.__name__, e)},
                          found_input=False)
            n_corr += 1
            continue
        n_hs += 1
        evaluations += 1
        ops_total += len(observed)
        by_cause["handshake_send"] = by_cause.get("handshake_send", 0) + 1
        distinct.add(json.dumps(["handshake_send", scn["handshake"], scn["sends"]]))
        if probs:
            n_oracle += 1
            ctx.violation("oracle:send_during_handshake_wedges_the_stack",
                          {"scenario": scn, "seed": 2000 + idx, "problems": probs, "observed": observed,
                           "model_diffs": diffs[:6]})
        elif diffs:
            n_corr += 1
            ctx.violation("correspondence:C12.handshake_send", {"scenario": scn, "seed": 2000 + idx, "diffs": diffs[:8],
                                                                "observed": observed}, found_input=False)
        if idx == 1:
            ctx.add_sample({"scenario": scn, "ops": observed}, limit=10)
    ctx.coverage["send_during_handshake_cases"] = n_hs
    ctx.coverage["concurrent_read_cases"] = n_conc
    ctx.coverage["coalesced_cases"] = n_coal
    ctx.coverage["coalesced_cases_with_a_raising_read"] = n_coal_fail
    if model:
        r = model.call("run_c12", [build_table(True, True), 2, []])
        table_ok = (not isinstance(r, tuple)) and bool(r[0]) and bool(r[1])
        if not table_ok:
            ctx.tie_broken_without_input("model:table_not_wellformed", repr(r)[:200])
        model.close()
        ctx.ties["correspondence"] = "ok" if (n_corr == 0 and n_oracle == 0) else "broken"
    if unfired:
        ctx.notes.append("fault never reached (layer not entered by that op): %s" % unfired[:10])
    if not ctx.proof_ok and not ctx.violations:
        ctx.tie_broken_without_input("theorem:" + ctx.failing_theorem(), ctx.ties.get("proof"))
    if model is None and not ctx.violations:
        ctx.tie_broken_without_input("model-build:C12", ctx.ties.get("model-build:C12"))
    ctx.coverage["evaluations"] = evaluations
    ctx.coverage["distinct_nontrivial"] = len(distinct)
    ctx.coverage["operations_compared"] = ops_total
    ctx.coverage["scenarios_by_cause"] = by_cause
    ctx.coverage["faults_not_reached"] = len(unfired)
    ctx.coverage["table_satisfies_theorem_hypotheses"] = table_ok
    ctx.coverage["exhaustive"] = False
    return ctx.finish(
        rule="a case = (number of successful operations before the fault, failing operation, failure site = layer x "
             "direction x occurrence or a real cause, reconnect or not) followed by 4 follow-up operations on two "
             "threads; every layer of the default stack x both directions x positions {0,2} (quick) / {0..4} "
             "(thorough), downward faults also inside the answer to an incoming server ping, 8 real causes, "
             "reconnect variants, thorough adds random histories with 2-4 faults; non-trivial = distinct case in "
             "which the fault actually fired (exception raised inside the stack); family 'handled': session with a "
             "real peer identity, positions 0..2, a message the receive layer cannot decrypt (5 kinds) handled on the "
             "network thread or an encrypt failing on the sending thread, optional reconnect, then 5 follow-ups on both "
             "threads that run manager.encrypt / decrypt (non-trivial = the documented reaction / the exception was seen)",
        assumptions_text=ASSUME)


def replay(ctx, data):
    case = data["case"]
    scn = case["scenario"]
    exe = ctx.build_model("C12")
    model = modelrun.Model(exe) if exe else None
    if scn.get("cause") in ("handled", "encrypt_fails"):
        tab, executed, obs, notes, probs, diffs, leaky = check_e2e(ctx, model, scn, case.get("seed", 0))
        if model:
            model.close()
        print("scenario:", json.dumps(scn))
        print("inner lock site of the manager:", json.dumps(tab.inner))
        for o in short_obs_e2e(obs):
            print("observed:", json.dumps(o))
        print("expected: a failure the axolotl layer handles itself returns normally with its documented reaction on the "
              "wire; a failing encrypt raises at its caller; after every operation no lock is held (layer locks and every "
              "lock object reachable from the layers and the manager, asked from a probe thread); every follow-up of "
              "both threads is processed normally (C12_inner_locks_free_after / C12_inner_progress)")
        for p in probs:
            print("problem:", p)
        for d in diffs[:8]:
            print("model-diff:", d)
        if leaky:
            print("classification:", leaky)
        if probs or (diffs and data.get("what_no_longer_checks", "").startswith("correspondence")):
            print("VIOLATION property=C12 replay=(replayed)")
            return 1
        return 0
    if scn.get("cause") in ("coalesced", "concurrent", "handshake_send"):
        fn = {"coalesced": run_coalesced, "concurrent": run_concurrent, "handshake_send": run_hs_send}[scn["cause"]]
        probs, diffs, observed = fn(ctx, model, scn, case.get("seed", 0))
        if model:
            model.close()
        print("scenario:", json.dumps(scn))
        for o in observed:
            print("observed:", json.dumps(o))
        print("expected (C12_incoming_survives_failure): every frame is handed upward exactly once, in order; a read "
              "whose frame fails raises at its caller and leaves the following frames in the read buffer for the "
              "next read")
        for p in probs:
            print("problem:", p)
        for d in diffs:
            print("model-diff:", d)
        if probs or diffs:
            print("VIOLATION property=C12 replay=(replayed)")
            return 1
        return 0
    executed, obs, notes, probs, diffs, leaky = check_scenario(ctx, model, scn, case.get("seed", 0))
    if model:
        model.close()
    print("scenario:", json.dumps(scn))
    for o in short_obs(obs):
        print("observed:", json.dumps(o))
    print("expected: every operation finishes, the failing one raises at the caller, no lock held after any "
          "operation, follow-ups processed normally (model with release_on_raise=true)")
    for p in probs:
        print("problem:", p)
    for d in diffs[:8]:
        print("model-diff:", d)
    if leaky:
        print("classification:", leaky)
    if notes["known"]:
        print("known:", notes["known"])
    if probs or (diffs and data.get("what_no_longer_checks", "").startswith("correspondence")) or \
            (notes["known"] and data.get("key") in notes["known"]):
        print("VIOLATION property=C12 replay=(replayed)")
        return 1
    return 0
