"""C13 — key store durability and crash atomicity.

Model: coq/C13 (+ coq/Gen/C13Programs.v regenerated from the Python source on every run).
Implementation: the five SQLite stores behind yowsup.axolotl.store.sqlite.LiteAxolotlStore on
real SQLite, driven through the real API, with `sqlite3.connect` in the store module's
namespace replaced by a proxy that snapshots database + journal at every statement / commit
boundary (crash injector, DESIGN.md 3.6).
"""
import os, shutil, json, hashlib, sqlite3 as real_sqlite3
from .. import modelrun
from ..translators import c13_store as tr
from .. import c13_manager as cm

ASSUME = [
    "modelled, not verified: SQLite itself (a commit is atomic and durable; reopening a database with a hot "
    "journal rolls the open transaction back; UNIQUE constraints; rowid order) and Python's sqlite3 implicit "
    "transactions (a transaction is opened by INSERT/UPDATE/DELETE, an IntegrityError leaves it open)",
    "records are opaque blobs to the model: (de)serialisation by python-axolotl is exercised by the API-level "
    "read-back (load(store(x)).serialize() == x.serialize()) but not modelled",
    "keys are as in real use: recipient / sender ids are decimal strings without leading zeros or ints >= 0 "
    "(INTEGER affinity would merge '049' and '49'; recipient -1 is the own identity row)",
    "tie = two extractions of the per-method SQL programs, re-run on every check: (1) a fail-closed symbolic "
    "interpreter of the store classes' source (helper methods inlined at their call sites, writes under "
    "data-dependent conditions rejected); (2) a MEASUREMENT: every public method, every constructor and every "
    "facade method run on the real classes over a tracing connection (sentinel arguments whose identity is "
    "recorded per bound parameter, SQLite's own statement trace for commits incl. those issued from C) in the state "
    "variants absent / present / conflicting row, lists of 0/1/3 elements, fresh / initialised / emptied database. "
    "When the source is recognised the syntactic programs must reproduce everything measured (coverage."
    "translator_path = 'syntactic+measured (agree)'); when it is not, the programs are built from the measurement "
    "provided all variants give one statement/commit skeleton ('measured only (...)'), else the tie is broken. In "
    "every case + differential traces: at every statement and commit boundary of every call the snapshot (db + "
    "journal) reopened by a fresh connection equals the model's durable database",
    "conversations continuing across restarts: manager-level histories (harness/c13_manager.py: two/three real "
    "AxolotlManagers on real LiteAxolotlStores, first contact, replies, groups, restarts, every exceptional path of "
    "every manager entry point) with implementation-side oracles only -- durable is live after every call (a copy "
    "of the database file holds what the live connection returns), tables unchanged by a restart, every message "
    "delivered or refused as expected; the ratchet itself is not modelled in Coq, the full stack is C03's simulator",
]

WRITE_VERBS = ("INSERT", "UPDATE", "DELETE", "REPLACE")


# ---------------------------------------------------------------- crash injector
class CursorProxy(object):
    def __init__(self, cur, conn):
        self._cur, self._conn = cur, conn

    def execute(self, sql, *a):
        self._cur.execute(sql, *a)
        self._conn._after_execute(sql)
        return self

    def __getattr__(self, name):
        return getattr(self._cur, name)

    def __iter__(self):
        return iter(self._cur)


class ConnProxy(object):
    def __init__(self, rig, path, kw):
        object.__setattr__(self, "_rig", rig)
        object.__setattr__(self, "_real", real_sqlite3.connect(path, **kw))
        # SQLite's own statement trace: every COMMIT that really runs is counted, also those issued from C or as
        # SQL text; a commit the proxy did not intercept (= no crash point taken) is reported as a broken driver
        self._real.set_trace_callback(self._on_sql)

    def _on_sql(self, text):
        up = text.lstrip().upper()
        if up.startswith("COMMIT") or up.startswith("END"):
            self._rig.c_commits += 1

    # `with conn:` -- sqlite3 commits (only if a transaction is open) or rolls back in C; done here so that the
    # commit is a crash point like any other
    def __enter__(self):
        return self

    def __exit__(self, et, ev, tb):
        if et is None:
            if self._real.in_transaction:
                self.commit()
        else:
            self._real.rollback()
            self._rig.log.append("ROLLBACK")
        return False

    def __setattr__(self, k, v):
        setattr(self._real, k, v)

    def __getattr__(self, name):
        return getattr(self._real, name)

    def cursor(self):
        return CursorProxy(self._real.cursor(), self)

    def execute(self, sql, *a):
        c = CursorProxy(self._real.cursor(), self)
        return c.execute(sql, *a)

    def _after_execute(self, sql):
        verb = sql.lstrip().split(None, 1)[0].upper()
        self._rig.log.append(verb)
        if verb in WRITE_VERBS:
            self._rig.boundary("stmt")
        elif verb.rstrip(";") in ("COMMIT", "END"):      # a commit issued as SQL text is a commit boundary too
            self._rig.py_commits += 1
            self._rig.boundary("commit")

    def commit(self):
        if self._real.in_transaction:
            self._rig.py_commits += 1
        self._real.commit()
        self._rig.log.append("COMMIT")
        self._rig.boundary("commit")


class Sqlite3Shim(object):
    """Stands in for the `sqlite3` module inside liteaxolotlstore's namespace."""

    def __init__(self, rig):
        self._rig = rig

    def connect(self, path, **kw):
        if self._rig.passthrough:
            return real_sqlite3.connect(path, **kw)
        c = ConnProxy(self._rig, path, kw)
        self._rig.conn = c
        return c

    def __getattr__(self, name):
        return getattr(real_sqlite3, name)


class Rig(object):
    """One database file, the real store on top of it, and the snapshotter."""

    def __init__(self, scratch, meta, tag):
        import yowsup.axolotl.store.sqlite.liteaxolotlstore as las
        self.las, self.meta = las, meta
        self.dir = os.path.join(scratch, "c13-%s" % tag)
        shutil.rmtree(self.dir, ignore_errors=True)
        os.makedirs(self.dir)
        self.db = os.path.join(self.dir, "axolotl.db")
        self.snapdb = os.path.join(self.dir, "snap.db")
        self.passthrough = False
        self.conn = None
        self.store = None
        self.log = []
        self.c_commits = self.py_commits = 0     # COMMITs SQLite ran / COMMITs the proxy intercepted
        self.quiet = False
        self.snaps = []          # per op: list of (kind, dump, api_view or None)
        self.api_probe = None    # callable(fresh_store) -> observation, evaluated on every snapshot
        self._saved = las.sqlite3
        las.sqlite3 = Sqlite3Shim(self)

    def close(self):
        self.las.sqlite3 = self._saved
        if self.conn is not None:
            try:
                self.conn._real.close()
            except Exception:
                pass
        self.store = None
        shutil.rmtree(self.dir, ignore_errors=True)

    # -- snapshots
    def _copy(self):
        for suf in ("", "-journal"):
            if os.path.exists(self.snapdb + suf):
                os.remove(self.snapdb + suf)
            if os.path.exists(self.db + suf):
                shutil.copyfile(self.db + suf, self.snapdb + suf)

    def dump_conn(self, c):
        out = []
        for t in self.meta["tables"]:
            cols = t["key"] + t["nonkey"]
            try:
                rows = c.execute("SELECT %s FROM %s ORDER BY rowid" % (", ".join(cols), t["name"])).fetchall()
            except real_sqlite3.OperationalError:
                rows = []
            nk = len(t["key"])
            out.append([[[tr.canon_out(v) for v in r[:nk]], [tr.canon_out(v) for v in r[nk:]]] for r in rows])
        return out

    def snapshot(self):
        """What a process started now would find: copy db + journal, reopen, dump everything."""
        self._copy()
        if not os.path.exists(self.snapdb):
            return [[] for _ in self.meta["tables"]], None
        c = real_sqlite3.connect(self.snapdb)
        c.text_factory = bytes
        try:
            d = self.dump_conn(c)
        finally:
            c.close()
        api = None
        if self.api_probe is not None:
            self._copy()
            self.passthrough = True
            try:
                fresh = self.las.LiteAxolotlStore(self.snapdb)
                api = self.api_probe(fresh)
                del fresh
            finally:
                self.passthrough = False
        return d, api

    def boundary(self, kind):
        if self.quiet:           # an op of a long history whose crash points are not sampled
            return
        d, api = self.snapshot()
        self.snaps.append((kind, d, api))

    def live_view(self):
        """The database as the running process sees it (includes anything uncommitted)."""
        return self.dump_conn(self.conn._real)

    # -- ops
    def begin(self, api_probe=None, quiet=False):
        self.snaps, self.log, self.api_probe, self.quiet = [], [], api_probe, quiet
        self.boundary("start")

    def open(self):
        if self.conn is not None:
            self.conn._real.close()      # close without commit = what process exit does
            self.conn = None
        self.store = self.las.LiteAxolotlStore(self.db)


# ---------------------------------------------------------------- real records from descriptors
def _kp(seed):
    from axolotl.ecc.djbec import DjbECPublicKey, DjbECPrivateKey
    from axolotl.ecc.eckeypair import ECKeyPair
    return ECKeyPair(DjbECPublicKey(seed[:32]), DjbECPrivateKey(seed[32:64]))


def mk_session(n):
    from axolotl.state.sessionrecord import SessionRecord
    r = SessionRecord()
    if n:
        r.getSessionState().setRemoteRegistrationId(n)
        r.getSessionState().setLocalRegistrationId(n * 7 + 1)
    return r


def mk_identity(seed):
    from axolotl.identitykey import IdentityKey
    from axolotl.ecc.djbec import DjbECPublicKey
    return IdentityKey(DjbECPublicKey(seed[:32]))


def mk_prekey(i, seed):
    from axolotl.state.prekeyrecord import PreKeyRecord
    return PreKeyRecord(i, _kp(seed))


def mk_signed(i, seed):
    from axolotl.state.signedprekeyrecord import SignedPreKeyRecord
    return SignedPreKeyRecord(i, 1000 + i, _kp(seed), seed[:64])


def mk_senderkey(n, seed):
    from axolotl.groups.state.senderkeyrecord import SenderKeyRecord
    r = SenderKeyRecord()
    if n:
        r.setSenderKeyState(n, 0, seed[:32], _kp(seed))
    return r


def mk_skname(g, s):
    from axolotl.groups.senderkeyname import SenderKeyName
    from axolotl.axolotladdress import AxolotlAddress
    return SenderKeyName(g, AxolotlAddress(s, 0))


# op name -> (store class, method, python-argument builder from the JSON descriptor)
def _b(h):
    return bytes.fromhex(h)


OPS = {
    "storeSession": ("LiteSessionStore", "storeSession",
                     lambda a: {"recipientId": a["r"], "deviceId": a["d"], "sessionRecord": mk_session(a["n"])}),
    "deleteSession": ("LiteSessionStore", "deleteSession", lambda a: {"recipientId": a["r"], "deviceId": a["d"]}),
    "deleteAllSessions": ("LiteSessionStore", "deleteAllSessions", lambda a: {"recipientId": a["r"]}),
    "saveIdentity": ("LiteIdentityKeyStore", "saveIdentity",
                     lambda a: {"recipientId": a["r"], "identityKey": mk_identity(_b(a["seed"]))}),
    "storePreKey": ("LitePreKeyStore", "storePreKey",
                    lambda a: {"preKeyId": a["i"], "preKeyRecord": mk_prekey(a["i"], _b(a["seed"]))}),
    "removePreKey": ("LitePreKeyStore", "removePreKey", lambda a: {"preKeyId": a["i"]}),
    "setAsSent": ("LitePreKeyStore", "setAsSent", lambda a: {"prekeyIds": list(a["ids"])}),
    "storeSignedPreKey": ("LiteSignedPreKeyStore", "storeSignedPreKey",
                          lambda a: {"signedPreKeyId": a["i"], "signedPreKeyRecord": mk_signed(a["i"], _b(a["seed"]))}),
    "removeSignedPreKey": ("LiteSignedPreKeyStore", "removeSignedPreKey", lambda a: {"signedPreKeyId": a["i"]}),
    "storeSenderKey": ("LiteSenderKeyStore", "storeSenderKey",
                       lambda a: {"senderKeyName": mk_skname(a["g"], a["s"]),
                                  "senderKeyRecord": mk_senderkey(a["n"], _b(a["seed"]))}),
    # readers (must not write)
    "loadSession": ("LiteSessionStore", "loadSession", lambda a: {"recipientId": a["r"], "deviceId": a["d"]}),
    "containsPreKey": ("LitePreKeyStore", "containsPreKey", lambda a: {"preKeyId": a["i"]}),
    "loadUnsentPendingPreKeys": ("LitePreKeyStore", "loadUnsentPendingPreKeys", lambda a: {}),
    "loadSenderKey": ("LiteSenderKeyStore", "loadSenderKey", lambda a: {"senderKeyName": mk_skname(a["g"], a["s"])}),
    "isTrustedIdentity": ("LiteIdentityKeyStore", "isTrustedIdentity",
                          lambda a: {"recipientId": a["r"], "identityKey": mk_identity(_b(a["seed"]))}),
}


def method_meta(meta, cls, name):
    for m in meta["methods"]:
        if m["class"] == cls and m["name"] == name:
            return m
    return None


def bound_method(meta, store, cls, name):
    """Prefer the public LiteAxolotlStore method delegating to cls.name; else the sub-store."""
    for fname, f in meta["facade"]["methods"].items():
        if f["class"] == cls and f["method"] == name:
            return getattr(store, fname)
    for attr, c in meta["facade"]["attrs"].items():
        if c == cls:
            return getattr(getattr(store, attr), name)
    raise KeyError(cls)


def init_arg_values(meta, regid, keypair):
    """Model arguments of the guarded initialisation.  The values it generated are read back through the public
    API (registration id, identity key pair); which of them a model argument is computed from is decided by
    which one its accessor chain and column affinity apply to -- not by the names of locals in the source."""
    args = meta["init"]["args"]
    roots = {}
    for r in sorted(set(a["root"] for a in args)):
        mine = [a for a in args if a["root"] == r]
        for cand in (regid, keypair):
            try:
                for a in mine:
                    chain_value({r: cand}, a)
            except Exception:
                continue
            roots[r] = cand
            break
        else:
            raise ValueError("generated value %s is neither the registration id nor the identity key pair" % r)
    return [chain_value(roots, a) for a in args]


def chain_value(root_values, a):
    v = root_values[a["root"]]
    for c in a["chain"]:
        v = getattr(v, c)()
    return tr.canon(v, a["affinity"])


# ---------------------------------------------------------------- the independent spec (plain dicts)
class Shadow(object):
    """What the store API is supposed to do, written directly (no SQL, no transactions)."""

    def __init__(self):
        self.sessions, self.identities, self.prekeys, self.signed, self.sender = {}, {}, {}, {}, {}
        self.local = None

    def copy(self):
        s = Shadow()
        for k in ("sessions", "identities", "prekeys", "signed", "sender"):
            setattr(s, k, dict(getattr(self, k)))
        s.local = self.local
        return s

    def apply(self, name, py):
        """returns 'raise' when the call is expected to raise IntegrityError (and change nothing)"""
        if name == "storeSession":
            r = int(py["recipientId"])
            if r in self.sessions and self.sessions[r][0] != py["deviceId"]:
                return "raise"
            self.sessions[r] = (py["deviceId"], py["sessionRecord"].serialize())
        elif name == "deleteSession":
            r = int(py["recipientId"])
            if r in self.sessions and self.sessions[r][0] == py["deviceId"]:
                del self.sessions[r]
        elif name == "deleteAllSessions":
            self.sessions.pop(int(py["recipientId"]), None)
        elif name == "saveIdentity":
            self.identities[int(py["recipientId"])] = py["identityKey"].getPublicKey().serialize()
        elif name == "storePreKey":
            if py["preKeyId"] in self.prekeys:
                return "raise"
            self.prekeys[py["preKeyId"]] = (None, py["preKeyRecord"].serialize())
        elif name == "removePreKey":
            self.prekeys.pop(py["preKeyId"], None)
        elif name == "setAsSent":
            for i in py["prekeyIds"]:
                if i in self.prekeys:
                    self.prekeys[i] = (1, self.prekeys[i][1])
        elif name == "storeSignedPreKey":
            if py["signedPreKeyId"] in self.signed:
                return "raise"
            self.signed[py["signedPreKeyId"]] = py["signedPreKeyRecord"].serialize()
        elif name == "removeSignedPreKey":
            self.signed.pop(py["signedPreKeyId"], None)
        elif name == "storeSenderKey":
            n = py["senderKeyName"]
            self.sender[(n.getGroupId(), int(n.getSender().getName()))] = py["senderKeyRecord"].serialize()
        return None

    def as_dump(self, meta):
        """Same shape as Rig.dump_conn but as per-table dicts key -> row (order ignored); columns
        the specification does not mention are NULL."""
        c = tr.canon_out
        rows = {"identities": [], "prekeys": [], "signed_prekeys": [], "sessions": [], "sender_keys": []}
        if self.local is not None:
            rows["identities"].append({"recipient_id": -1, "registration_id": self.local[0],
                                       "public_key": self.local[1], "private_key": self.local[2]})
        for r, pub in self.identities.items():
            rows["identities"].append({"recipient_id": r, "public_key": pub})
        for i, (f, b) in self.prekeys.items():
            rows["prekeys"].append({"prekey_id": i, "sent_to_server": f, "record": b})
        for i, b in self.signed.items():
            rows["signed_prekeys"].append({"prekey_id": i, "record": b})
        for r, (d, b) in self.sessions.items():
            rows["sessions"].append({"recipient_id": r, "device_id": d, "record": b})
        for (g, s), b in self.sender.items():
            rows["sender_keys"].append({"group_id": g, "sender_id": s, "record": b})
        out = []
        for t in meta["tables"]:
            out.append({tuple(c(r.get(k)) for k in t["key"]): tuple(c(r.get(k)) for k in t["nonkey"])
                        for r in rows.get(t["name"], [])})
        return out

    def read(self, name, py):
        """expected result of a reader call (canonical)"""
        if name == "loadSession":
            e = self.sessions.get(int(py["recipientId"]))
            return e[1] if e and e[0] == py["deviceId"] else mk_session(0).serialize()
        if name == "containsPreKey":
            return py["preKeyId"] in self.prekeys
        if name == "loadUnsentPendingPreKeys":
            return sorted(b for (f, b) in self.prekeys.values() if not f)
        if name == "loadSenderKey":
            n = py["senderKeyName"]
            return self.sender.get((n.getGroupId(), int(n.getSender().getName())), b"")
        if name == "isTrustedIdentity":
            p = self.identities.get(int(py["recipientId"]))
            return p is None or p == py["identityKey"].getPublicKey().serialize()


def canon_read(name, res):
    if name in ("loadSession", "loadSenderKey"):
        return res.serialize()
    if name == "loadUnsentPendingPreKeys":
        return sorted(r.serialize() for r in res)
    return res


def dump_to_dicts(d):
    return [{tuple(k): tuple(r) for k, r in t} for t in d]


def api_readback(store, sh):
    """Read everything the spec says is stored back through the public API of a fresh store."""
    bad = []
    for r, (d, blob) in sh.sessions.items():
        if not store.containsSession(str(r), d) or store.loadSession(str(r), d).serialize() != blob:
            bad.append(("session", r))
        if store.getSubDeviceSessions(str(r)) != [d]:
            bad.append(("subdevices", r))
    for r, pub in sh.identities.items():
        if not store.isTrustedIdentity(str(r), mk_identity(pub[1:])):
            bad.append(("identity", r))
        if store.isTrustedIdentity(str(r), mk_identity(bytes([pub[1] ^ 1]) + pub[2:33])):
            bad.append(("identity-other-key-trusted", r))
    for i, (f, blob) in sh.prekeys.items():
        if not store.containsPreKey(i) or store.loadPreKey(i).serialize() != blob:
            bad.append(("prekey", i))
    if sorted(x.serialize() for x in store.loadPreKeys()) != sorted(b for _, b in sh.prekeys.values()):
        bad.append(("prekeys-all", None))
    if sorted(x.serialize() for x in store.preKeyStore.loadUnsentPendingPreKeys()) != \
            sorted(b for f, b in sh.prekeys.values() if not f):
        bad.append(("prekeys-unsent", None))
    for i, blob in sh.signed.items():
        if not store.containsSignedPreKey(i) or store.loadSignedPreKey(i).serialize() != blob:
            bad.append(("signed", i))
    if sorted(x.serialize() for x in store.loadSignedPreKeys()) != sorted(sh.signed.values()):
        bad.append(("signed-all", None))
    for (g, s), blob in sh.sender.items():
        if store.loadSenderKey(mk_skname(g, str(s))).serialize() != blob:
            bad.append(("senderkey", (g, s)))
    if sh.local is not None:
        kp = store.getIdentityKeyPair()
        if (store.getLocalRegistrationId(), kp.getPublicKey().getPublicKey().serialize(),
                kp.getPrivateKey().serialize()) != sh.local:
            bad.append(("own-identity", None))
    return bad


# ---------------------------------------------------------------- one sequence on the implementation
class Outcome(object):
    def __init__(self):
        self.model_ops = []      # sx ops for the model
        self.traces = []         # per op: list of dumps (start + every boundary)
        self.problems = []       # (oracle name, detail dict)
        self.nontrivial = False
        self.kinds = {}


def run_impl(ctx, meta, ops, tag="s"):
    rig = Rig(ctx.scratch, meta, tag)
    out = Outcome()
    sh = Shadow()
    try:
        for idx, op in enumerate(ops):
            name, a = op["op"], op.get("args", {})
            before = sh.copy()
            if name == "open":
                rig.begin()
                rig.open()
                st = rig.store
                kp = st.getIdentityKeyPair()
                if kp is None or st.getLocalRegistrationId() is None:
                    out.problems.append(("oracle:readback", {
                        "op": idx, "what": "a store that was just opened has no own identity key pair / registration id"}))
                    break
                try:
                    margs = [] if meta.get("layout_only") else init_arg_values(meta, st.getLocalRegistrationId(), kp)
                except Exception as e:
                    out.problems.append(("driver", {"op": idx, "error": "init args: %r" % (e,)}))
                    break
                if sh.local is None:
                    sh.local = (st.getLocalRegistrationId(), kp.getPublicKey().getPublicKey().serialize(),
                                kp.getPrivateKey().serialize())
                out.model_ops.append([1, margs])
                raised = None
            else:
                cls, mname, build = OPS[name]
                mm = method_meta(meta, cls, mname)
                if mm is None:
                    out.problems.append(("driver", {"op": idx, "error": "method %s.%s not in the source" % (cls, mname)}))
                    break
                py = build(a)
                try:
                    f = bound_method(meta, rig.store, cls, mname)
                    scal = [chain_value(py, x) for x in mm["args"]]
                    loop = [tr.canon(v, mm["loop_affinity"]) for v in py[mm["loop"]]] if mm["loop"] else []
                    if len(mm["params"]) != len(py) and not _defaults_cover(f, py):
                        raise ValueError("%s.%s takes %r, the driver passes %r" % (cls, mname, mm["params"], sorted(py)))
                except Exception as e:
                    out.problems.append(("driver", {"op": idx, "error": "args: %r" % (e,)}))
                    break
                out.model_ops.append([0, mm["id"], scal, loop])
                expect = sh.apply(name, py)
                touched = op_keys(name, py)
                cands = [p for p in (before.identities.get(int(py["recipientId"])),
                                     sh.identities.get(int(py["recipientId"]))) if p] if name == "saveIdentity" else []

                def probe(fresh, _t=touched, _c=cands):
                    return [api_read_key(fresh, t, k, _c) for (t, k) in _t]
                quiet = bool(op.get("q"))
                rig.begin(api_probe=probe if (touched and not quiet) else None, quiet=quiet)
                raised = None
                try:
                    res = f(*[py[p] for p in mm["params"]])
                except real_sqlite3.IntegrityError:
                    raised = "raise"
                    res = None
                if raised != expect:
                    out.problems.append(("oracle:api-semantics", {
                        "op": idx, "what": "call %s: expected %s, observed %s" % (
                            name, expect or "normal return", raised or "normal return")}))
                if name in ("loadSession", "containsPreKey", "loadUnsentPendingPreKeys", "loadSenderKey",
                            "isTrustedIdentity"):
                    got, exp = canon_read(name, res), sh.read(name, py)
                    if got != exp:
                        out.problems.append(("oracle:readback", {"op": idx, "what": "%s returned %r, expected %r" % (
                            name, _short(got), _short(exp))}))
                if quiet:
                    # long history: this call's crash points are not sampled; the specification is kept up to date
                    # and contents are compared again at the next sampled call
                    out.traces.append(None)
                    if rig.conn._real.in_transaction:
                        out.problems.append(("oracle:durable", {
                            "op": idx, "what": "the call returned with a write transaction open: what it wrote is lost "
                                               "when the process dies now"}))
                    if rig.c_commits != rig.py_commits:
                        out.problems.append(("driver", {"op": idx, "error": "a commit is issued in a way the proxy does not see"}))
                    if out.problems:
                        break
                    continue
                # API-level atomicity on the touched records, seen through a FRESH store at every boundary
                if touched:
                    b_api = [api_expect(before, t, k, cands) for (t, k) in touched]
                    a_api = [api_expect(sh, t, k, cands) for (t, k) in touched]
                    for bi, (kind, d, api) in enumerate(rig.snaps):
                        for j, (t, k) in enumerate(touched):
                            if api is not None and api[j] != b_api[j] and api[j] != a_api[j]:
                                out.problems.append(("oracle:atomic", {
                                    "op": idx, "boundary": bi, "record": [t, str(k)], "via": "fresh store API",
                                    "before": _short(b_api[j]), "after": _short(a_api[j]),
                                    "after_crash": _short(api[j])}))
            dumps = [d for (_, d, _) in rig.snaps]
            out.traces.append(dumps)
            if rig.c_commits != rig.py_commits:
                out.problems.append(("driver", {"op": idx, "error": "SQLite ran %d COMMITs, the crash injector intercepted "
                                                "%d: a commit is issued in a way the proxy does not see" % (rig.c_commits, rig.py_commits)}))
                break
            # --- oracle: atomic, per record, on raw table contents
            first, last = dump_to_dicts(dumps[0]), dump_to_dicts(dumps[-1])
            for bi, d in enumerate(dumps):
                dd = dump_to_dicts(d)
                for ti in range(len(dd)):
                    for k in set(first[ti]) | set(last[ti]) | set(dd[ti]):
                        v = dd[ti].get(k)
                        if v != first[ti].get(k) and v != last[ti].get(k):
                            out.problems.append(("oracle:atomic", {
                                "op": idx, "boundary": bi, "record": [meta["tables"][ti]["name"], _short(k)],
                                "via": "table dump", "before": _short(first[ti].get(k)),
                                "after": _short(last[ti].get(k)), "after_crash": _short(v)}))
            # --- oracle: durable (nothing pending at the call boundary; contents = spec)
            live = rig.live_view()
            if live != dumps[-1]:
                out.problems.append(("oracle:durable", {
                    "op": idx, "what": "after the call returned, a restart would lose uncommitted changes",
                    "process_sees": _short(live), "restart_sees": _short(dumps[-1])}))
            if last != sh.as_dump(meta):
                out.problems.append(("oracle:api-semantics", {
                    "op": idx, "what": "store contents differ from the plain-map specification",
                    "store": _short(last), "spec": _short(sh.as_dump(meta))}))
            if name != "open" and len(dumps) > 1:
                out.kinds[name] = out.kinds.get(name, 0) + 1
                if first != last and any(first[t].get(k) is not None for t in range(len(first)) for k in first[t]
                                         if first[t].get(k) != last[t].get(k)):
                    out.nontrivial = True
            if out.problems:
                break
        # --- read everything back through a fresh store (close + reopen)
        if not out.problems and rig.store is not None:
            rig._copy()
            rig.passthrough = True
            try:
                fresh = rig.las.LiteAxolotlStore(rig.snapdb)
                bad = api_readback(fresh, sh)
                del fresh
            finally:
                rig.passthrough = False
            if bad:
                out.problems.append(("oracle:readback", {"op": len(ops) - 1,
                                     "what": "a fresh store does not return what was stored", "records": _short(bad)}))
    finally:
        rig.close()
    return out


def _defaults_cover(f, py):
    """the method takes the arguments the driver passes, by name, and every other parameter has a default"""
    import inspect
    try:
        ps = inspect.signature(f).parameters
    except (TypeError, ValueError):
        return False
    return all(k in ps for k in py) and all(q.default is not inspect.Parameter.empty or
                                            q.kind in (q.VAR_POSITIONAL, q.VAR_KEYWORD)
                                            for k, q in ps.items() if k not in py)


def op_keys(name, py):
    if name in ("storeSession", "deleteSession", "deleteAllSessions"):
        return [("session", (py["recipientId"], py.get("deviceId", 1)))]
    if name == "saveIdentity":
        return [("identity", py["recipientId"])]
    if name == "storeSenderKey":
        return [("senderkey", (py["senderKeyName"].getGroupId(), py["senderKeyName"].getSender().getName()))]
    return []


def api_read_key(store, t, k, cands=()):
    if t == "session":
        return store.loadSession(k[0], k[1]).serialize() if store.containsSession(k[0], k[1]) else None
    if t == "identity":
        # the pinned key is observable through the API only as "which keys are trusted"
        return tuple(store.isTrustedIdentity(k, mk_identity(c[1:])) for c in cands)
    if t == "senderkey":
        b = store.loadSenderKey(mk_skname(k[0], k[1])).serialize()
        return b or None


def api_expect(sh, t, k, cands=()):
    if t == "session":
        e = sh.sessions.get(int(k[0]))
        return e[1] if e and e[0] == k[1] else None
    if t == "identity":
        p = sh.identities.get(int(k))
        return tuple(p is None or p == c for c in cands)
    if t == "senderkey":
        return sh.sender.get((k[0], int(k[1]))) or None


def _short(x, n=300):
    if isinstance(x, (bytes, bytearray)):
        return bytes(x).hex()[:40]
    s = repr(x)
    return s if len(s) <= n else s[:n] + "..."


# ---------------------------------------------------------------- generators
RECIP = ["4911", "4922", "15550001"]
GROUPS = ["4911-1500000000@g.us", "g2@g.us"]


# Values are drawn from a small pool per table, so that storing the SAME bytes again -- after a delete, after a
# delete-all, after a replace with another value and back, across a reopen -- is frequent.
SEEDS = [bytes(range(i, i + 64)).hex() for i in (0, 1, 2)]


ODD_ID_SEEDS = ["0102030405", "aa", bytes(range(7, 38)).hex()]     # 5, 1 and 31 byte "public keys"


def gen_op(rng):
    k = rng.random()
    seed = rng.choice(SEEDS)
    r = rng.choice(RECIP)
    d = rng.choice([1, 1, 1, 1, 2])
    i = rng.randint(1, 5)
    if k < .22:
        return {"op": "storeSession", "args": {"r": r, "d": d, "n": rng.choice([0, 1, 2, 3])}}
    if k < .28:
        return {"op": "deleteSession", "args": {"r": r, "d": d}}
    if k < .31:
        return {"op": "deleteAllSessions", "args": {"r": r}}
    if k < .45:
        # an identity key is whatever bytes the peer sent (Curve.decodePoint does not length-check): also short ones
        return {"op": "saveIdentity", "args": {"r": r, "seed": rng.choice(ODD_ID_SEEDS) if rng.random() < .12 else seed}}
    if k < .57:
        return {"op": "storePreKey", "args": {"i": i, "seed": seed}}
    if k < .62:
        return {"op": "removePreKey", "args": {"i": i}}
    if k < .68:
        return {"op": "setAsSent", "args": {"ids": [rng.randint(1, 5) for _ in range(rng.randint(0, 4))]}}
    if k < .74:
        return {"op": "storeSignedPreKey", "args": {"i": rng.randint(0, 2), "seed": seed}}
    if k < .77:
        return {"op": "removeSignedPreKey", "args": {"i": rng.randint(0, 2)}}
    if k < .87:
        return {"op": "storeSenderKey", "args": {"g": rng.choice(GROUPS), "s": rng.choice(RECIP),
                                                 "n": rng.choice([0, 1, 2]), "seed": seed}}
    if k < .92:
        return {"op": "open"}
    return rng.choice([
        {"op": "loadSession", "args": {"r": r, "d": d}},
        {"op": "containsPreKey", "args": {"i": i}},
        {"op": "loadUnsentPendingPreKeys", "args": {}},
        {"op": "loadSenderKey", "args": {"g": rng.choice(GROUPS), "s": rng.choice(RECIP)}},
        {"op": "isTrustedIdentity", "args": {"r": r, "seed": seed}},
    ])


def systematic():
    """every writer once in every precondition that changes its branch: absent / present / (other device)"""
    s = bytes(range(64)).hex()
    s2 = bytes(range(1, 65)).hex()
    O = {"op": "open"}
    return [
        [O, {"op": "storeSession", "args": {"r": "4911", "d": 1, "n": 1}},
         {"op": "storeSession", "args": {"r": "4911", "d": 1, "n": 2}}, O,
         {"op": "storeSession", "args": {"r": "4911", "d": 2, "n": 3}},
         {"op": "deleteSession", "args": {"r": "4911", "d": 2}},
         {"op": "storeSession", "args": {"r": "4911", "d": 1, "n": 4}},
         {"op": "deleteSession", "args": {"r": "4911", "d": 1}},
         {"op": "storeSession", "args": {"r": "4922", "d": 1, "n": 0}},
         {"op": "deleteAllSessions", "args": {"r": "4922"}}],
        [O, {"op": "saveIdentity", "args": {"r": "4911", "seed": s}},
         {"op": "saveIdentity", "args": {"r": "4911", "seed": s2}},
         {"op": "saveIdentity", "args": {"r": "4911", "seed": s2}}, O,
         {"op": "isTrustedIdentity", "args": {"r": "4911", "seed": s}},
         {"op": "isTrustedIdentity", "args": {"r": "4911", "seed": s2}}],
        [O, {"op": "storePreKey", "args": {"i": 1, "seed": s}}, {"op": "storePreKey", "args": {"i": 2, "seed": s2}},
         {"op": "storePreKey", "args": {"i": 1, "seed": s2}}, {"op": "setAsSent", "args": {"ids": [1, 2, 3]}},
         {"op": "loadUnsentPendingPreKeys", "args": {}}, {"op": "removePreKey", "args": {"i": 1}},
         {"op": "removePreKey", "args": {"i": 1}}, {"op": "setAsSent", "args": {"ids": []}}, O],
        [O, {"op": "storeSignedPreKey", "args": {"i": 0, "seed": s}},
         {"op": "storeSignedPreKey", "args": {"i": 0, "seed": s2}},
         {"op": "storeSignedPreKey", "args": {"i": 1, "seed": s2}},
         {"op": "removeSignedPreKey", "args": {"i": 0}}, O],
        [O, {"op": "storeSenderKey", "args": {"g": "g2@g.us", "s": "4911", "n": 1, "seed": s}},
         {"op": "storeSenderKey", "args": {"g": "g2@g.us", "s": "4911", "n": 2, "seed": s2}},
         {"op": "storeSenderKey", "args": {"g": "g2@g.us", "s": "4922", "n": 0, "seed": s}},
         {"op": "loadSenderKey", "args": {"g": "g2@g.us", "s": "4911"}}, O, O],
    ]


def directed():
    """Per table: store v; <every way the API has to remove it>; store the SAME v again; [reopen]; read -- and
    store v; store w; store v; [reopen]; read.  (A store that remembers what it wrote outside the database may skip
    the second write of v.)  Readers are checked in-process, everything is read back through a fresh store."""
    O = {"op": "open"}
    s, s2 = SEEDS[0], SEEDS[1]
    out = []

    def both(seq, readers):
        out.append([O] + seq + readers)
        out.append([O] + seq + [O] + readers)
    ss = lambda n, r="4911", d=1: {"op": "storeSession", "args": {"r": r, "d": d, "n": n}}
    ls = [{"op": "loadSession", "args": {"r": "4911", "d": 1}}]
    for rm in ({"op": "deleteSession", "args": {"r": "4911", "d": 1}}, {"op": "deleteAllSessions", "args": {"r": "4911"}}):
        both([ss(1), rm, ss(1)], ls)
        both([ss(1), ss(2), rm, ss(2)], ls)
    both([ss(1), ss(2), ss(1)], ls)
    both([ss(0), ss(0)], ls)
    si = lambda seed: {"op": "saveIdentity", "args": {"r": "4911", "seed": seed}}
    ti = [{"op": "isTrustedIdentity", "args": {"r": "4911", "seed": s}}, {"op": "isTrustedIdentity", "args": {"r": "4911", "seed": s2}}]
    both([si(s), si(s2), si(s)], ti)
    both([si(s), si(s)], ti)
    for odd in ODD_ID_SEEDS:
        tio = ti + [{"op": "isTrustedIdentity", "args": {"r": "4911", "seed": odd}}]
        both([si(s), si(odd), ss(1)], tio)
        both([si(odd), si(s), ss(1)], tio)
        both([si(s), si(odd), si(s2), ss(1, "4922")], tio)
    sp = lambda i, seed: {"op": "storePreKey", "args": {"i": i, "seed": seed}}
    rp = {"op": "removePreKey", "args": {"i": 1}}
    rd = [{"op": "containsPreKey", "args": {"i": 1}}, {"op": "loadUnsentPendingPreKeys", "args": {}}]
    both([sp(1, s), rp, sp(1, s)], rd)
    both([sp(1, s), {"op": "setAsSent", "args": {"ids": [1]}}, rp, sp(1, s)], rd)
    both([sp(1, s), rp, sp(1, s2), rp, sp(1, s)], rd)
    sg = lambda i, seed: {"op": "storeSignedPreKey", "args": {"i": i, "seed": seed}}
    rg = {"op": "removeSignedPreKey", "args": {"i": 0}}
    both([sg(0, s), rg, sg(0, s)], [])
    both([sg(0, s), rg, sg(0, s2), rg, sg(0, s)], [])
    sk = lambda n, seed: {"op": "storeSenderKey", "args": {"g": "g2@g.us", "s": "4911", "n": n, "seed": seed}}
    lk = [{"op": "loadSenderKey", "args": {"g": "g2@g.us", "s": "4911"}}]
    both([sk(1, s), sk(2, s2), sk(1, s)], lk)
    both([sk(1, s), sk(1, s)], lk)
    return out


FAMILIES = {
    # name -> (store class, i-th repetition of "replace the record" as API calls)
    "sessions": ("LiteSessionStore", lambda i: [{"op": "storeSession", "args": {"r": "4911", "d": 1, "n": i % 3 + 1}}]),
    "sessions+deleteSession": ("LiteSessionStore", lambda i: [
        {"op": "storeSession", "args": {"r": "4911", "d": 1, "n": i % 3 + 1}}, {"op": "deleteSession", "args": {"r": "4911", "d": 1}}]),
    "sessions+deleteAllSessions": ("LiteSessionStore", lambda i: [
        {"op": "storeSession", "args": {"r": "4911", "d": 1, "n": i % 3 + 1}}, {"op": "deleteAllSessions", "args": {"r": "4911"}}]),
    "identities": ("LiteIdentityKeyStore", lambda i: [{"op": "saveIdentity", "args": {"r": "4911", "seed": SEEDS[i % 3]}}]),
    "prekeys": ("LitePreKeyStore", lambda i: [{"op": "removePreKey", "args": {"i": 1}},
                                              {"op": "storePreKey", "args": {"i": 1, "seed": SEEDS[i % 3]}},
                                              {"op": "setAsSent", "args": {"ids": [1]}}]),
    "signed_prekeys": ("LiteSignedPreKeyStore", lambda i: [{"op": "removeSignedPreKey", "args": {"i": 0}},
                                                           {"op": "storeSignedPreKey", "args": {"i": 0, "seed": SEEDS[i % 3]}}]),
    "sender_keys": ("LiteSenderKeyStore", lambda i: [{"op": "storeSenderKey", "args": {
        "g": "g2@g.us", "s": "4911", "n": i % 2 + 1, "seed": SEEDS[i % 3]}}]),
}
LONG_RUN = ("sessions", "identities", "prekeys", "signed_prekeys", "sender_keys")


def long_history(family, reps, sampled):
    """ONE store instance, `reps` repetitions of the family's replacing calls; crash points (every statement and
    commit boundary) are taken for the repetitions in `sampled` only, the others just run ("q")."""
    ops = [{"op": "open"}]
    for i in range(1, reps + 1):
        for o in FAMILIES[family][1](i):
            ops.append(o if i in sampled else dict(o, q=1))
    return ops


def long_sequences(tier, state):
    """(a) for every integer constant k a class with state outside the database compares against: k+2 repetitions
    of every mutating call family of that class, crash points at repetitions k-1 .. k+2; (b) always: N replacing
    stores per table with crash points around 1, 50, 64, 100, 128 (thorough: also 256, 500, 512, 1000, 1024) and N,
    so that periodic maintenance is hit even when no constant is recognised."""
    out, info = [], {"constants": [], "families": list(LONG_RUN)}
    cap = 5000 if tier == "quick" else 100000
    done = set()
    for f in state or []:
        fams = [n for n, (c, _) in FAMILIES.items() if c == f["class"]] or list(FAMILIES)
        for k in f["constants"]:
            if 2 <= k <= cap:
                for fam in fams:
                    if (fam, k) not in done:
                        done.add((fam, k))
                        out.append(("long:%s:threshold %d" % (fam, k), long_history(fam, k + 2, {1, k - 1, k, k + 1, k + 2})))
                if k not in info["constants"]:
                    info["constants"].append(k)
    n = 130 if tier == "quick" else 1100
    marks = [50, 64, 100, 128] + ([256, 500, 512, 1000, 1024] if tier != "quick" else [])
    sampled = {1, 2, n - 1, n} | set(x for m in marks for x in (m - 1, m, m + 1) if x <= n)
    info["N"], info["sampled_repetitions"] = n, sorted(sampled)
    for fam in LONG_RUN:
        out.append(("long:%s:N=%d" % (fam, n), long_history(fam, n, sampled)))
    return out, info


def gen_sequences(ctx, state=None):
    rng = ctx.rng
    seqs = []
    cdir = os.path.join(os.path.dirname(os.path.dirname(os.path.dirname(os.path.abspath(__file__)))), "corpus", "C13")
    if os.path.isdir(cdir):
        for fn in sorted(os.listdir(cdir)):
            if fn.endswith(".json"):
                seqs.append(("corpus", json.load(open(os.path.join(cdir, fn)))["ops"]))
    for s in systematic():
        seqs.append(("systematic", s))
    for s in directed():
        seqs.append(("directed", s))
    longs, info = long_sequences(ctx.tier, state)
    ctx.coverage["long_histories"] = dict(info, histories=len(longs), calls=sum(len(o) for _, o in longs))
    seqs += longs
    n = 250 if ctx.tier == "quick" else 6000
    for _ in range(n):
        ln = rng.choice([3, 6, 10, 16])
        seqs.append(("random", [{"op": "open"}] + [gen_op(rng) for _ in range(ln)]))
    return seqs


# ---------------------------------------------------------------- check
def compare_with_model(model, out):
    """-> None if the model's durable database equals the snapshot at every boundary of every op"""
    res = model.call("run_trace", out.model_ops)
    if isinstance(res, tuple):
        return {"error": "model: %s" % (res,)}
    for i, real in enumerate(out.traces):
        if real is None:          # call of a long history without sampled crash points
            continue
        if i >= len(res):
            return {"op": i, "what": "model produced no trace"}
        mod = res[i]
        real_c = [[[[list(k), list(r)] for k, r in t] for t in d] for d in real]
        mod_c = [[[[list(e[0]), list(e[1])] for e in t] for t in d] for d in mod]
        if real_c != mod_c:
            j = next((j for j in range(min(len(real_c), len(mod_c))) if real_c[j] != mod_c[j]), None)
            return {"op": i, "boundaries_impl": len(real_c), "boundaries_model": len(mod_c), "first_diff_boundary": j,
                    "impl": _short(real_c[j] if j is not None else None, 500),
                    "model": _short(mod_c[j] if j is not None else None, 500)}
    return None


def shrink(ctx, meta, ops, pred):
    """drop ops (never the first open) while pred(ops) still holds"""
    cur = list(ops)
    changed = True
    budget = 60
    while changed and budget > 0:
        changed = False
        for i in range(len(cur) - 1, 0, -1):
            cand = cur[:i] + cur[i + 1:]
            budget -= 1
            try:
                if pred(cand):
                    cur, changed = cand, True
            except Exception:
                pass
            if budget <= 0:
                break
    return cur


def manager_histories(ctx):
    """harness/c13_manager.py: two/three real AxolotlManagers on real LiteAxolotlStores; directed histories over every
    exceptional path of every manager entry point, then seeded random ones.  Independent of the extraction."""
    hs = [("manager-directed", h) for h in cm.directed()]
    n = 40 if ctx.tier == "quick" else 600
    hs += [("manager-random", cm.random_history(ctx.rng, ctx.rng.choice([8, 14, 20]))) for _ in range(n)]
    st = {"histories": 0, "ops_executed": 0, "ops_skipped_by_the_model": 0, "manager_and_store_calls": 0,
          "durable_is_live_checks": 0, "failing": 0}
    for origin, ops in hs:
        try:
            probs, s = cm.run_history(ctx.scratch, ops)
        except Exception as e:
            ctx.violation("oracle:store-raised", {"mops": ops, "error": repr(e)[:300], "origin": origin})
            st["failing"] += 1
            if st["failing"] >= 2:
                break
            continue
        st["histories"] += 1
        st["ops_executed"] += s["executed"]
        st["ops_skipped_by_the_model"] += len(ops) - s["executed"]
        st["manager_and_store_calls"] += s["calls"]
        st["durable_is_live_checks"] += s["checks"]
        if probs:
            name = probs[0][0]
            cur, budget = list(ops), 40
            changed = True
            while changed and budget > 0:            # shrink: drop ops while the same oracle still fails
                changed = False
                for i in range(len(cur) - 1, -1, -1):
                    cand = cur[:i] + cur[i + 1:]
                    budget -= 1
                    try:
                        p2, _ = cm.run_history(ctx.scratch, cand, "k")
                    except Exception:
                        p2 = []
                    if any(n_ == name for n_, _ in p2):
                        cur, changed = cand, True
                    if budget <= 0:
                        break
            try:
                p2, _ = cm.run_history(ctx.scratch, cur, "k")
            except Exception:
                p2 = []
            det = next((d for n_, d in p2 if n_ == name), probs[0][1])
            ctx.violation(name, {"mops": cur, "detail": det, "origin": origin,
                                 "parties": "real AxolotlManager on real LiteAxolotlStore, one SQLite file each"})
            st["failing"] += 1
            if st["failing"] >= 2:
                break
    return st


def run(ctx):
    meta = measured_layout = None
    state = []
    try:
        meta = tr.regenerate(scratch=ctx.scratch)
        ex = meta["extraction"]
    except tr.Unrecognised as e:
        ex = getattr(e, "extraction", None) or {"path": "none (%s)" % e}
        measured_layout = getattr(e, "layout", None)
        state = getattr(e, "state", None) or []
        if state:
            ctx.coverage["state_outside_db"] = ex.get("state_outside_db", [])
        ctx.ties["translator:c13_store"] = "broken: %s" % e
    # which extraction produced coq/Gen/C13Programs.v, and what the measurement said about the syntactic one
    ctx.coverage["translator_path"] = ex["path"]
    ctx.coverage["extraction"] = {
        "compared": ex.get("compared", 0), "agree": ex.get("agree", 0), "inconclusive": ex.get("inconclusive", []),
        "disagree": len(ex.get("disagreements", [])), "syntactic_error": ex.get("syntactic_error"),
        "measure_error": ex.get("measure_error"), "measured_error": ex.get("measured_error"),
        "what": "connection mode, schema read back from SQLite, facade delegations, every public method x state "
                "variants {absent, present, conflicting} (lists: 0/1/3 elements), constructors x {fresh, again, "
                "emptied, second fresh}: measured programs (statement, key/assigned columns with the identity of every "
                "bound parameter, commits incl. those issued from C) vs the syntactic programs"}
    if meta is not None:
        if ex["path"].startswith("syntactic+measured (agree)") or ex["path"].startswith("measured only"):
            ctx.ties["translator:c13_store"] = "ok: " + ex["path"][:300]
        else:
            ctx.ties["translator:c13_store"] = "broken: %s %s" % (ex["path"], json.dumps(ex.get("disagreements", [])[:3])[:600])
        if ex["path"].startswith("measured only"):
            ctx.notes.append("coq/Gen/C13Programs.v generated from the MEASURED programs: " + ex["path"])
    ctx.prove()
    exe = ctx.build_model("C13") if meta else None
    model = modelrun.Model(exe) if exe else None
    if meta is None:
        # the programs could not be extracted: ALWAYS still search for a failing history on the real store (directed
        # histories first, then the random ones) against the plain-map oracle.  Layout (tables, facade, parameter
        # order) = what was measured on this very tree, else the last known one.
        meta = measured_layout
        if meta is None:
            try:
                meta = json.load(open(os.path.join(os.path.dirname(tr.GEN_JSON), "C13Programs.last.json")))
            except Exception:
                meta = None
        ctx.coverage["search_layout"] = ("measured on this tree" if measured_layout is not None else
                                         "last successful extraction" if meta is not None else "none")
    else:
        with open(os.path.join(os.path.dirname(tr.GEN_JSON), "C13Programs.last.json"), "w") as f:
            json.dump(meta, f, default=lambda b: b.hex() if isinstance(b, bytes) else str(b))
    evaluations = boundaries = 0
    distinct = set()
    kinds = {}
    corr_bad = oracle_hits = 0
    deferred = []
    if meta is not None:
        seqs = gen_sequences(ctx, state)
        for si, (origin, ops) in enumerate(seqs):
            try:
                out = run_impl(ctx, meta, ops, "s")
            except Exception as e:     # the store itself blew up in an unexpected way
                ctx.violation("oracle:store-raised", {"ops": ops, "error": repr(e)[:300]})
                continue
            evaluations += 1
            boundaries += sum(len(t) for t in out.traces if t is not None)
            for k, v in out.kinds.items():
                kinds[k] = kinds.get(k, 0) + v
            h = hashlib.sha1(json.dumps(ops, sort_keys=True).encode()).hexdigest()
            if out.nontrivial:
                distinct.add(h)
            found = False
            for name, detail in out.problems:
                if name == "driver":
                    ctx.tie_broken_without_input("driver:C13", detail)
                    continue
                found = True

                def pred(cand, _n=name):
                    return any(n == _n for n, _ in run_impl(ctx, meta, cand, "k").problems)
                if isinstance(detail, dict) and isinstance(detail.get("op"), int):
                    ops = ops[:detail["op"] + 1]            # nothing after the failing call matters
                small = shrink(ctx, meta, ops, pred) if len(ops) <= 40 else ops
                o2 = run_impl(ctx, meta, small, "k")
                det = next((d for n, d in o2.problems if n == name), detail)
                ctx.violation(name, {"ops": small, "detail": det, "origin": origin})
                break
            if model is not None and not any(n == "driver" for n, _ in out.problems):
                diff = compare_with_model(model, out)
                if diff is not None:
                    corr_bad += 1
                # reported twice at most and never ends the search: the implementation-side oracles
                # keep running on every remaining sequence
                if diff is not None and corr_bad <= 2:

                    def pred2(cand):
                        o = run_impl(ctx, meta, cand, "k")
                        return compare_with_model(model, o) is not None
                    small = shrink(ctx, meta, ops, pred2)
                    o2 = run_impl(ctx, meta, small, "k")
                    fi = bool(o2.problems) or found
                    rec = ("correspondence:C13.trace",
                           {"ops": small, "detail": compare_with_model(model, o2) or diff, "origin": origin}, fi)
                    if fi:
                        ctx.violation(rec[0], rec[1], found_input=True)
                    else:
                        # a model/implementation difference WITHOUT a failing history is reported after the search,
                        # so that the first VIOLATION line carries a failing history when one exists
                        deferred.append(rec)
            if si % 61 == 0 and out.traces:
                ctx.add_sample({"origin": origin, "ops": [o["op"] for o in ops][:12],
                                "boundaries": [len(t) for t in out.traces if t is not None][:12]})
            if found:
                oracle_hits += 1
            if oracle_hits >= 3:
                break
        if model is not None:
            ok = model.call("run_store_ok", [])
            ctx.coverage["store_ok_computed_by_extracted_model"] = bool(ok)
            model.close()
            ctx.ties["correspondence"] = "ok" if corr_bad == 0 else "broken"
    # ---- manager level (whatever the extraction said): conversations continue across restarts; durable is live
    mstats = manager_histories(ctx)
    ctx.coverage["manager_histories"] = mstats
    evaluations += mstats["histories"]
    for name_, case_, fi_ in deferred:
        ctx.violation(name_, case_, found_input=fi_)
    for k in ("translator:c13_store",):
        if not ctx.ties.get(k, "ok").startswith("ok") and not ctx.violations:
            ctx.tie_broken_without_input(k, ctx.ties[k])
    if not ctx.proof_ok and not ctx.violations:
        ctx.tie_broken_without_input("theorem:" + ctx.failing_theorem(), ctx.ties.get("proof"))
    if meta is not None and model is None and not ctx.violations:
        ctx.tie_broken_without_input("model-build:C13", ctx.ties.get("model-build:C13"))
    ctx.coverage["evaluations"] = evaluations
    ctx.coverage["crash_points_checked"] = boundaries
    ctx.coverage["distinct_nontrivial"] = len(distinct)
    ctx.coverage["writer_calls_by_method"] = kinds
    if meta is not None:
        ctx.coverage["methods_translated"] = len(meta["methods"])
        ctx.coverage["methods_writing"] = sorted("%s.%s" % (m["class"], m["name"]) for m in meta["methods"] if m["writes"])
        ctx.coverage["translator_notes"] = meta.get("notes", [])
        driven = set((c, m) for (c, m, _) in OPS.values())
        ctx.coverage["writers_without_driver"] = sorted(
            "%s.%s" % (m["class"], m["name"]) for m in meta["methods"]
            if m["writes"] and (m["class"], m["name"]) not in driven and m.get("public", True))
        ctx.coverage["private_helpers_inlined_only"] = sorted(
            "%s.%s" % (x["class"], x["name"]) for x in meta.get("skipped", []))
    return ctx.finish(
        rule="a case = one sequence of store API calls and restarts (corpus, 5 systematic sequences covering every "
             "writer in every precondition, then seeded random sequences of 3-16 calls over a small key universe so "
             "that replaces, duplicate inserts and device mismatches are frequent); every statement/commit boundary "
             "of every call is a crash point (crash_points_checked); non-trivial = distinct sequences in which some "
             "call changed or removed an already existing record",
        assumptions_text=ASSUME)


def replay(ctx, data):
    case = data["case"]
    if "mops" in case:
        probs, st = cm.run_history(ctx.scratch, case["mops"], "r")
        for i, o in enumerate(case["mops"]):
            print("op %d %s" % (i, json.dumps(o)))
        for n, d in probs:
            print("observed:", n, json.dumps(d, default=str)[:1200])
        print("expected: after every manager call a copy of the database file holds what the live connection returns; "
              "after every restart all tables are unchanged; every message is delivered or refused as the protocol says")
        if probs:
            print("VIOLATION property=C13 replay=(replayed)")
            return 1
        return 0
    if "ops" not in case:
        print("nothing to replay on the implementation:", json.dumps(case)[:600])
        return 1
    try:
        meta = tr.regenerate(scratch=ctx.scratch)
    except tr.Unrecognised as e:
        meta = getattr(e, "layout", None) or \
            json.load(open(os.path.join(os.path.dirname(tr.GEN_JSON), "C13Programs.last.json")))
    out = run_impl(ctx, meta, case["ops"], "r")
    for i, (o, t) in enumerate(zip(case["ops"], out.traces)):
        if t is not None:
            print("op %d %s: %d crash points" % (i, o["op"], len(t)))
    for n, d in out.problems:
        print("observed:", n, json.dumps(d, default=str)[:800])
    print("expected: every record equals its value before or after the call at every crash point; nothing "
          "pending after a call; contents equal the plain-map specification")
    if out.problems:
        print("VIOLATION property=C13 replay=(replayed)")
        return 1
    return 0
