"""C17 - contact identity keys are pinned.  Model: coq/C17 (one account as an input-enabled machine);
implementation: 2-3 real yowsup accounts in the world simulator (harness/worldsim.py)."""
import json
from .. import modelrun
from .. import worldsim as ws
from .. import c17kill
from .. import c17fault

PHONES = ["1000001", "1000002", "1000003"]

ASSUME = [
    "modelled, not verified: python-axolotl 0.2.2 SessionBuilder/SessionCipher as the abstract ratchet of "
    "coq/C17/C17Model.v (trust check before, saveIdentity after building a session; states named by base key; "
    "duplicate = message number already decrypted); SQLite's transaction semantics (a commit on the shared "
    "connection makes every earlier write durable; closing a connection rolls an open transaction back) - exercised "
    "for real: restart = the old stack is dropped, its store connection CLOSED WITHOUT COMMIT as at process exit, a "
    "new stack opens the same profile directory; kill = the process dies at a statement / commit boundary of the "
    "store (harness/c17kill.py: SQLite's statement trace on the library's own connection; database file + rollback "
    "journal copied at the boundary, everything the still running interpreter emits afterwards dropped, the copy - "
    "hot journal rolled back by opening it - becomes the new process's store); X25519/AES/HMAC strength",
    "tie model<->code: every history is run on 2-3 real stacks (control/send/receive axolotl layers, protocol "
    "layers, real python-axolotl and SQLite) against the server double; each account's real inputs are abstracted "
    "and replayed through the extracted model; outputs at bottom and top, the COMMITTED identities table and the "
    "COMMITTED session list (base key, identity it was built for; both read through a connection of the harness's "
    "own, i.e. what a new process would find) are compared with the model's committed tables after every input",
    "harness/worldsim.py: server double, recorder (maps ciphertext bytes to the symbolic term of the encryption "
    "that produced them) and the declared third-party shim for python-axolotl 0.2.2's AES padding defect",
    "theorems quantify over ALL input sequences of one account (arbitrary contacts, arbitrary server), which "
    "contains every history of (publish, reinstall, message either way, identity-change notification, restart, kill "
    "at a write boundary) for any number of accounts",
    "kills: the model's durable states of an input are the state before it and one per commit (ghost log); the real "
    "store is killed only inside inputs about contacts that are already pinned (python-axolotl stores the session "
    "and saves the identity in two transactions: killed between them at FIRST contact a session exists for an "
    "identity that is not remembered - Coq witness C17_no_encrypt_to_stranger_with_kill_refuted; no pin exists yet "
    "that could be lost, cross-store atomicity is C13's); outputs a killed process emitted before the boundary are "
    "compared as none (true for every input but a key answer that releases several parked messages)",
]


# ---------------------------------------------------------------------------------------------------
# running one history on the implementation
# ---------------------------------------------------------------------------------------------------
def text_entity(mid, body, to):
    from yowsup.layers.protocol_messages.protocolentities import TextMessageProtocolEntity
    from yowsup.layers.protocol_messages.protocolentities.attributes.attributes_message_meta import \
        MessageMetaAttributes
    return TextMessageProtocolEntity(body, MessageMetaAttributes(id="m%d" % mid, recipient=to))


def run_history(ctx, case):
    """case: {"n", "autotrust": [bool], "ops": [...], "schedule": [[...] per op] or None, "pad_seed"}"""
    import random
    n = case["n"]
    w = ws.World(ctx.scratch, PHONES[:n], autotrust=dict(enumerate(case["autotrust"])), prekeys=case.get("prekeys", 14),
                 pad_rng=random.Random(case.get("pad_seed", 1)))
    sched_in = case.get("schedule")
    sched_out = []
    rng = random.Random(case.get("sched_seed", 0))
    mid = 0
    bodies = {}
    killer = None           # armed by a "kill" op for the duration of the NEXT op
    w.pin_probe = []        # findings of the direct store probe (cases with "pinprobe")
    probe_state = {}
    try:
        for k, op in enumerate(case["ops"]):
            if killer is not None and killer.age >= 1:
                killer.disarm()
                killer = None
            if killer is not None:
                killer.age += 1
            if op[0] == "kill":             # account op[1] dies at the op[2]-th store write boundary of the next op
                if killer is not None:
                    killer.disarm()
                killer = c17kill.Killer(w, w.accounts[op[1]], op[2], ctx.scratch)
                killer.age = 0
                if not killer.arm():
                    killer = None
            elif op[0] == "fault":          # read_fault(account op[1], k = op[2], n = op[3]) during the next op
                if killer is not None:
                    killer.disarm()
                killer = c17fault.ReadFault(w, w.accounts[op[1]], op[2], op[3])
                killer.age = 0
                if not killer.arm():
                    killer = None
            elif op[0] == "send":
                mid += 1
                body = "body-%d-%s" % (mid, op[3] if len(op) > 3 else "x")
                bodies[mid] = (op[1], op[2], body)
                w.accounts[op[1]].app_send(text_entity(mid, body, w.accounts[op[2]].jid))
            elif op[0] == "reinstall":
                w.accounts[op[1]].reinstall()
            elif op[0] == "clone":          # account op[1] reinstalls carrying the identity key pair of account op[2]
                w.accounts[op[1]].reinstall(clone_of=w.accounts[op[2]])
            elif op[0] == "restart":
                w.accounts[op[1]].restart()
            elif op[0] == "notify":         # server -> account op[1]: "op[2] has a new identity" (encrypt notification)
                w.notify_identity(op[1], op[2])
            elif op[0] == "hidekeys":       # from now on the key directory answers get-keys for account op[1] without an
                w.hidden_keys[w.accounts[op[1]].jid] = op[2]        # identity (shape op[2], see worldsim.World.hidden_keys)
            elif op[0] == "showkeys":       # ... and from now on with what the account published again
                w.hidden_keys.pop(w.accounts[op[1]].jid, None)
            elif op[0] == "corrupt":        # the server damages the oldest pending message delivery (one MAC bit), if any
                mp = w.messages_pending()
                if mp:
                    w.corrupt(mp[0])
            elif op[0] == "dup":            # server duplicates the oldest pending message delivery, if any
                mp = w.messages_pending()
                if mp:
                    w.duplicate(mp[0])
            if sched_in is not None:
                # replay of a recorded schedule: exactly the recorded deliveries (a held burst recorded none)
                used = []
                if k < len(sched_in):
                    for i in sched_in[k]:
                        if not w.pending:
                            break
                        i = min(i, len(w.pending) - 1)
                        used.append(i)
                        w.deliver(i)
                else:
                    used = w.drain()
                sched_out.append(used)
            elif (op[0] == "send" and len(op) > 4 and op[4] == "hold") or (op[0] == "notify" and "hold" in op[3:]) \
                    or op[0] in ("kill", "fault"):
                sched_out.append([])        # burst: leave the stanzas queued until the next op
            else:
                sched_out.append(w.drain(lambda m: rng.randrange(m) if case.get("reorder") else 0))
            if case.get("pinprobe"):
                pin_probe(w, case, k, op, probe_state)
        if w.pending:
            sched_out.append(w.drain())
    finally:
        if killer is not None:
            killer.disarm()
        w.close()
    return w, w.observer, bodies, sched_out


def pin_probe(w, case, k, op, st):
    """The property read back through the account's OWN store object (the one its manager decides with), after every
    op from case["pinprobe"] = [account, contact, first op index] on: with auto-trust off the key remembered for the
    contact at that point is still the trusted one (isTrustedIdentity(old) is True) and the contact's current
    identity, when it is another one, is not (isTrustedIdentity(new) is False)."""
    ai, ci, k0 = case["pinprobe"]
    if k < k0 or not w.pending == []:
        return
    a, c = w.accounts[ai], w.accounts[ci]
    if a.stack is None or c.stack is None:
        return
    from axolotl.identitykey import IdentityKey
    from axolotl.ecc.djbec import DjbECPublicKey
    if "old" not in st:
        st["old"] = a.identities_table().get(c.phone)
        if st["old"] is None:
            w.pin_probe.append(("pin_probe", "account %d stores no key for %d after op #%d %r: the history does not "
                                "pin the contact" % (ai, ci, k, op)))
        return
    if st["old"] is None or case["autotrust"][ai]:
        return
    store = a.manager._store
    old, new = st["old"], c.own_identity()
    if not store.isTrustedIdentity(c.phone, IdentityKey(DjbECPublicKey(old[1:]))):
        w.pin_probe.append(("pin_probe", "account %d, auto-trust off: after op #%d %r the key remembered for %d is no "
                            "longer the trusted one (isTrustedIdentity(remembered key) is False)" % (ai, k, op, ci)))
    if new != old and store.isTrustedIdentity(c.phone, IdentityKey(DjbECPublicKey(new[1:]))):
        w.pin_probe.append(("pin_probe", "account %d, auto-trust off: after op #%d %r the store answers 'trusted' for "
                            "the NEW identity of %d (remembered key %s)" %
                            (ai, k, op, ci, "still stored" if a.identities_table().get(c.phone) == old else
                             "gone from the identities table" if a.identities_table().get(c.phone) is None else
                             "replaced")))


# ---------------------------------------------------------------------------------------------------
# abstraction of one account's real trace to the model alphabet
# ---------------------------------------------------------------------------------------------------
def payload_of_term(rec, t):
    pay = t.get("pay")
    if not pay:
        return 0
    for m, info in rec.payloads.items():
        if info["raw"] == pay.get("raw"):
            return m
    return 0


def abstract_account(rec, idx, bodies):
    """-> (inputs sx list, expected outputs per input, ids_after per input, sess_after per input, problems)"""
    ins, outs, ids, sess, problems, descr = [], [], [], [], [], []
    cur = None
    noident = []
    for ev in rec.events[idx]:
        if ev["dir"] == "in":
            tag = ev["tag"]
            x = None
            noident = []
            if tag == "send":
                x = [0, ev["peer"], ev["id"]]
            elif tag == "keys":
                # a <user> node without <identity> is, to getKeysFor, a jid missing from the answer (model: lookup = None)
                x = [1, ev["iq"], [[u["jid"], u["ident"], u.get("sid", 0)] for u in ev["users"] if u["ident"]]]
                noident = [u["jid"] for u in ev["users"] if not u["ident"]]
            elif tag == "message":
                if len(ev["encs"]) != 1 or ev["encs"][0].get("unknown") or ev["encs"][0]["kind"] == "skmsg":
                    problems.append("unexpected message shape %r" % (ev["encs"],))
                    t = {"kind": "msg", "sid": 0, "n": 0}
                else:
                    t = ev["encs"][0]
                x = [2, ev["peer"], ev["id"], [0 if t["kind"] == "pkmsg" else 1, t.get("sid", 0), t.get("n", 0),
                                               t.get("pident", 0), bool(t.get("pkok", True)),
                                               bool(t.get("corrupt")), payload_of_term(rec, t)]]
            elif tag == "receipt":
                x = [3, ev["peer"], ev["id"], ev["rtype"] == "retry"]
            elif tag == "restart":
                x = [4]
            elif tag == "reinstall":
                x = [5]
            elif tag == "notify-identity":
                x = [6, ev["peer"], ev["id"]]
            if x is None:
                cur = None
                continue
            if ev.get("aborted"):
                if x[0] in (0, 1, 2):
                    x = [8, x]                          # aborted: the identities table could not be read
                    tag = "read-fault"
                else:
                    problems.append("aborted inside an input of kind %r" % (x[0],))
            elif ev.get("killed") is not None:
                if x[0] in (0, 1, 2):
                    x = [7, int(ev["killed"]), x]      # killed while handling x, after that many commits
                    tag = "kill"
                else:
                    problems.append("killed inside an input of kind %r" % (x[0],))
            ins.append(x)
            cur = []
            outs.append(cur)
            ids.append(ev.get("ids_after", {}))
            sess.append(ev.get("sess_after", {}))
            descr.append(tag)
        else:
            o = None
            tag = ev["tag"]
            if tag == "getkeys":
                o = [0, ev["iq"], ev["jids"][0] if len(ev["jids"]) == 1 else 9998]
            elif tag == "message":
                if ev["plain"] or not ev["encs"]:
                    o = [2, ev["peer"], ev["id"]]
                else:
                    t = ev["encs"][0]
                    o = [1, ev["peer"], ev["id"], 0 if t["kind"] == "pkmsg" else 1, t.get("sid", 0), t.get("n", 0),
                         t.get("ident", 0)]
                    if len(ev["encs"]) != 1:
                        problems.append("several enc children in a 1:1 stanza")
            elif tag == "receipt":
                o = [4, ev["peer"], ev["id"], ev["count"]] if ev["rtype"] == "retry" else [3, ev["peer"], ev["id"]]
            elif tag == "err":
                # the log line about a <user> node with missing parts is not an output of the model
                o = [5, ev["peer"]] if not (ev.get("error") == "MissingParametersException" and ev["peer"] in noident) \
                    else None
            elif tag == "deliver":
                body = ev["obj"].getBody() if hasattr(ev["obj"], "getBody") else None
                pay = 0
                for m, (_, _, b) in bodies.items():
                    if b == body:
                        pay = m
                o = [6, ev["peer"], ev["id"], pay]
            elif tag == "topreceipt":
                o = [7, ev["peer"], ev["id"], ev["rtype"] == "retry"]
            elif tag == "other" and ev.get("cls") == "notification" and ev.get("ntype") == "encrypt":
                o = [8, ev["peer"], ev["id"]]
            if o is None:
                continue
            if cur is None:
                problems.append("output %r after an input the model does not know" % (o,))
            else:
                cur.append(o)
    return ins, outs, ids, sess, problems, descr


def model_view(res):
    """model answer for one input -> (outputs, committed ids dict, committed sess dict)"""
    outs = [[int(v) if not isinstance(v, list) else v for v in o] for o in res[0]]
    ids = dict((c, k) for c, k in res[1])
    sess = dict((c, [tuple(s) for s in sts]) for c, sts in res[2])
    return outs, ids, sess


# ---------------------------------------------------------------------------------------------------
# property oracle, directly on the observed behaviour (independent of the model)
# ---------------------------------------------------------------------------------------------------
def oracle(case, rec, bodies):
    """-> list of (name, detail) violations of the property text on the real run.

    `pinned` is what the account has to be remembering (contact -> key), kept by the oracle itself: the first key
    the committed identities table showed for the contact, or - when the table does not show one - the identity the
    account built its current session with that contact for (a session built for an identity proves the account saw
    and accepted that identity).  With auto-trust off an entry never changes; with auto-trust on it follows the
    table.  Only the account's own reinstall clears it.  A restart must not lose any of it."""
    bad = []
    n = case["n"]
    for idx in range(n):
        auto = case["autotrust"][idx]
        pinned = {}
        stored = set()      # contacts the COMMITTED identities table has shown a key for (since the own reinstall)
        evs = rec.events[idx]
        asked_by = {}       # key request number -> tag of the input during which the account made it
        i = 0
        while i < len(evs):
            ev = evs[i]
            if ev["dir"] != "in":
                i += 1
                continue
            j = i + 1
            outs = []
            while j < len(evs) and evs[j]["dir"] == "out":
                outs.append(evs[j])
                j += 1
            if ev["tag"] == "reinstall":
                pinned = {}
                stored = set()
            killed = ev.get("killed") is not None      # the process died inside this input; a new one took over
            if ev["tag"] in ("reinstall", "restart") or killed:
                asked_by = {}       # the new process knows nothing of the old one's requests: their answers are ignored
            for o in outs:
                if o["tag"] == "getkeys":
                    asked_by[o["iq"]] = ev["tag"]
            after = ev.get("ids_after")
            sess_after = ev.get("sess_after") or {}
            msg_out = [o for o in outs if o["tag"] == "message"]
            delivered = [o for o in outs if o["tag"] == "deliver"]
            # 1. the remembered key stays in place (auto-trust off)
            if after is not None:
                for c, k in pinned.items():
                    if not auto and after.get(c) is not None and after.get(c) != k:
                        bad.append(("pin_changed", "account %d: key of %d was %d, now %r after %s" %
                                    (idx, c, k, after.get(c), ev["tag"])))
                # 5. the pin survives the end of the process: what the new process finds holds every remembered key
                if ev["tag"] == "restart" or killed:
                    for c, k in sorted(pinned.items()):
                        if after.get(c) is None:
                            bad.append(("not_remembered", "account %d: after the %s no key is stored for %d "
                                        "(identity %d had been remembered%s)" %
                                        (idx, "kill at store write boundary %s while handling %s of %r" %
                                         (ev.get("kill_boundary"), ev["tag"], ev.get("peer", ev.get("users") and
                                                                                   [u["jid"] for u in ev["users"]]))
                                         if killed else "restart", c, k,
                                         "; the session built for it is still there" if sess_after.get(c) else "")))
                    if after != pinned and not killed:
                        bad.append(("pin_lost_on_restart", "account %d: %r -> %r" % (idx, pinned, after)))
            # 0'. a key that WAS in the committed table does not disappear from it (whatever is saved for other contacts)
            if after is not None and ev["tag"] != "reinstall":
                for c in sorted(stored):
                    if c not in after:
                        bad.append(("not_remembered", "account %d: the stored key of %d (identity %r) is gone from the "
                                    "identities table after %s%s" %
                                    (idx, c, pinned.get(c), ev["tag"],
                                     " of %r" % ev.get("peer") if ev.get("peer") is not None else "")))
                stored = set(c for c in stored if c in after)
            # 0. the first key seen is remembered: whoever we encrypt for / are shown a message from has a stored key
            if killed:
                msg_out, delivered, outs = [], [], []
            if after is not None:
                for o in msg_out:
                    if not o["plain"] and after.get(o["peer"]) is None:
                        bad.append(("not_remembered", "account %d encrypted for %d but stores no key for it" %
                                    (idx, o["peer"])))
                for o in delivered:
                    if after.get(o["peer"]) is None:
                        bad.append(("not_remembered", "account %d was shown a message of %d but stores no key for "
                                    "it" % (idx, o["peer"])))
            # 2. nothing is encrypted for an identity other than the remembered one (auto-trust off)
            for o in msg_out:
                if o["plain"]:
                    bad.append(("plaintext_out", "account %d sent message %d unencrypted" % (idx, o["id"])))
                for t in o["encs"]:
                    pk = pinned.get(o["peer"]) if (not auto and o["peer"] in pinned) else \
                        (after if after is not None else pinned).get(o["peer"])
                    if not auto and t.get("ident") != pk:
                        bad.append(("encrypt_to_stranger", "account %d -> %d: session built for identity %r, "
                                    "pinned %r" % (idx, o["peer"], t.get("ident"), pk)))
            # 3. a different identity is refused (auto-trust off) / 4. replaces the old one (auto-trust on)
            if ev["tag"] == "keys" and not killed:
                for u in ev["users"]:
                    old = pinned.get(u["jid"])
                    if not u["ident"]:
                        continue        # answer without an identity: nothing is presented, nothing to refuse
                    if old is not None and old != u["ident"]:
                        if not auto:
                            errs = [o for o in outs if o["tag"] == "err" and o["peer"] == u["jid"]]
                            # the per-jid error is due when the keys were fetched for a message to send (application
                            # send, retry receipt); a fetch made for a notification or for a parked incoming message
                            # reports to nobody, an answer to a request of an earlier process is ignored
                            due = asked_by.get(ev["iq"]) in ("send", "receipt") and not ev.get("aborted")
                            if msg_out or (due and not errs):
                                bad.append(("bundle_not_refused", "account %d: bundle of %d with identity %d "
                                            "(pinned %d): %d message stanza(s) sent, %d error(s) reported" %
                                            (idx, u["jid"], u["ident"], old, len(msg_out), len(errs))))
                            cur = sess_after.get(u["jid"]) or []
                            if cur and cur[0][1] == u["ident"]:
                                bad.append(("bundle_not_refused", "account %d: bundle of %d with identity %d "
                                            "(pinned %d): a session was built for it" %
                                            (idx, u["jid"], u["ident"], old)))
                        elif after is not None and after.get(u["jid"]) != u["ident"] and not ev.get("aborted"):
                            bad.append(("autotrust_did_not_replace", "account %d: bundle of %d" % (idx, u["jid"])))
            if ev["tag"] == "message" and not killed and ev["encs"] and ev["encs"][0].get("kind") == "pkmsg":
                t = ev["encs"][0]
                old = pinned.get(ev["peer"])
                if old is not None and t.get("pident") and old != t["pident"]:
                    if not auto:
                        if [o for o in outs if o["tag"] not in ("other",)]:
                            bad.append(("first_message_not_ignored", "account %d: pkmsg from %d with identity %d "
                                        "(pinned %d) produced %r" % (idx, ev["peer"], t["pident"], old,
                                                                     [o["tag"] for o in outs])))
                    elif not t.get("corrupt") and not ev.get("aborted"):
                        if after is not None and after.get(ev["peer"]) != t["pident"]:
                            bad.append(("autotrust_did_not_replace", "account %d: pkmsg of %d" % (idx, ev["peer"])))
                        if not delivered and t.get("pkok", True) and not t.get("dupseen"):
                            pass    # delivery is checked by the scripted histories (needs the number to be fresh)
            if after is not None:
                stored.update(after.keys())
                for c, k in after.items():
                    if auto or c not in pinned:
                        pinned[c] = k
                for c, sts in sess_after.items():
                    if sts and sts[0][1] and c not in pinned:
                        pinned[c] = sts[0][1]
            i = j
    return bad


def expect_resumed(case, rec, bodies):
    """scripted histories name messages that must (not) reach the peer's application."""
    bad = []
    for mid, must in case.get("expect", {}).items():
        mid = int(mid)
        frm, to, body = bodies[mid]
        got = [e for e in rec.events[to] if e["tag"] == "deliver" and e["id"] == mid and
               getattr(e["obj"], "getBody", lambda: None)() == body]
        if must and len(got) != 1:
            bad.append(("not_resumed", "message %d (%d->%d) delivered %d times, expected once" %
                        (mid, frm, to, len(got))))
        if not must and got:
            bad.append(("delivered_despite_refusal", "message %d (%d->%d) was delivered" % (mid, frm, to)))
    return bad


# ---------------------------------------------------------------------------------------------------
# cases
# ---------------------------------------------------------------------------------------------------
def kill_cases():
    """Directed, always run: a contact is pinned (identity I1); an operation that calls into the identity store for it
    again is killed at each of its store write boundaries in turn (a boundary number beyond the last = no kill);
    the new process takes over; the contact reinstalls (I2) and comes back by bundle and by first message."""
    cs = []
    for auto in (False, True):
        for j in range(7):
            # the contact's bundle is fetched and processed AGAIN (identity-change notification, same identity):
            # storeSession DELETE/INSERT/COMMIT, saveIdentity DELETE/INSERT/COMMIT = boundaries 0..5
            cs.append({"name": "kill-refetch-%s-%d" % (auto, j), "n": 2, "autotrust": [auto, False],
                       "ops": [["send", 0, 1], ["send", 1, 0], ["kill", 0, j], ["notify", 0, 1], ["reinstall", 1],
                               ["send", 0, 1], ["send", 1, 0]],
                       "expect": {"1": True, "2": True, "3": auto, "4": auto}})
            # a second prekey message of the pinned contact: saveIdentity D/I/C, storeSession D/I/C = 0..5
            cs.append({"name": "kill-pkmsg-%s-%d" % (auto, j), "n": 2, "autotrust": [auto, False],
                       "ops": [["send", 1, 0], ["kill", 0, j], ["send", 1, 0], ["reinstall", 1], ["send", 1, 0],
                               ["send", 0, 1]],
                       "expect": {"1": True, "3": auto, "4": auto}})
        for j in range(10):
            # our message is damaged on its way (the server double flips a MAC bit), the contact answers with a retry
            # receipt, the bundle is fetched again to serve it (storeSession, saveIdentity = boundaries 0..5) and the
            # message re-encrypted under the new session (storeSession = 6..8)
            cs.append({"name": "kill-retry-refetch-%s-%d" % (auto, j), "n": 2, "autotrust": [auto, False],
                       "ops": [["send", 0, 1], ["send", 1, 0], ["send", 0, 1, "x", "hold"], ["kill", 0, j],
                               ["corrupt"], ["reinstall", 1], ["send", 0, 1], ["send", 1, 0]],
                       "expect": {"1": True, "2": True, "4": auto, "5": auto}})
    return cs


def fault_cases():
    """Directed, always run: a pinned contact reinstalls (other identity); the operation that brings its new identity
    to the account runs while the account's lookups on the identities table fail (the k-th and the n-1 following of
    the operation raise 'database is locked'); afterwards, table readable again, the same identity comes once more by
    the same way, the account restarts, and the contact's first message arrives.  A storage fault during the trust
    decision must never turn into trust.  With auto-trust on (k = 1: nothing written before the faulted lookup) the new
    key comes in only afterwards, by the documented path."""
    cs = []
    for auto in (False, True):
        for k in ((1, 2) if not auto else (1,)):
            for n in ((1, 2, 3, 4, 10) if k == 1 else (1, 3)):
                f = ["fault", 0, k, n]
                tag = "%s-k%d-n%d" % (auto, k, n)
                # bundle fetched again after an identity-change notification
                cs.append({"name": "fault-notify-" + tag, "n": 2, "autotrust": [auto, False],
                           "ops": [["send", 0, 1], ["send", 1, 0], ["reinstall", 1], f, ["notify", 0, 1],
                                   ["notify", 0, 1], ["restart", 0], ["send", 1, 0]]})
                # bundle fetched to serve the reinstalled contact's retry receipt
                cs.append({"name": "fault-retry-" + tag, "n": 2, "autotrust": [auto, False],
                           "ops": [["send", 0, 1], ["send", 1, 0], ["reinstall", 1], f, ["send", 0, 1],
                                   ["send", 0, 1], ["restart", 0], ["send", 1, 0]]})
                # explicit first send: pin without a session (a first message saved the identity and then failed)
                cs.append({"name": "fault-first-send-" + tag, "n": 2, "autotrust": [auto, False],
                           "ops": [["send", 1, 0, "x", "hold"], ["reinstall", 0], ["reinstall", 1], f,
                                   ["send", 0, 1, "x"], ["send", 0, 1, "x"], ["restart", 0], ["send", 1, 0, "x"]]})
                # the reinstalled contact's first message
                cs.append({"name": "fault-pkmsg-" + tag, "n": 2, "autotrust": [auto, False],
                           "ops": [["send", 0, 1], ["send", 1, 0], ["reinstall", 1], f, ["send", 1, 0],
                                   ["send", 1, 0], ["restart", 0], ["send", 0, 1]]})
    return cs


def unpin_cases():
    """Directed, always run: contact 1 is pinned at account 0; 1 reinstalls (new identity) and - the window before the
    new installation's keys are visible - the key directory answers a fetch of 0 for 1 WITHOUT an identity: jid left
    out of <list/> ("empty"), <user jid/> without children ("bare"), <user> with everything but <identity>
    ("stripped").  The fetch is triggered in each way a fetch for a pinned contact can be: identity-change
    notification; retry receipt of the new installation; application send while 0 holds the pin but no session.
    Then the new keys become visible, optionally 0 restarts, and the new identity comes by first message and by bundle.
    Only answer shapes the unchanged code digests are used: "empty" makes the send layer's callback raise
    NotImplementedError (no error, no success jid), so it is used with the notification only; after a send-layer fetch
    answered without identity the contact is on that layer's skipEncJids (messages to it leave UNENCRYPTED until the
    process ends - outside this property's text), so 0 sends again only after a restart in those histories."""
    cs = []
    for auto in (False, True):
        for trig in ("notify", "retry", "first-send"):
            for shape in (("empty", "bare", "stripped") if trig == "notify" else ("bare", "stripped")):
                for follow in ("pkmsg", "send"):
                    for restart in (False, True):
                        own_send_ok = trig == "notify" or restart
                        if follow == "send" and not own_send_ok:
                            continue
                        if shape == "stripped" and trig != "notify" and not (follow == "pkmsg" and restart):
                            continue
                        hide, show = ["hidekeys", 1, shape], ["showkeys", 1]
                        if trig == "notify":
                            ops = [["send", 0, 1], ["send", 1, 0], hide, ["reinstall", 1], ["notify", 0, 1], show]
                            exp, mid, k0 = {"1": True, "2": True}, 2, 1
                        elif trig == "retry":
                            ops = [["send", 0, 1], ["send", 1, 0], hide, ["reinstall", 1], ["send", 0, 1], show]
                            exp, mid, k0 = {"1": True, "2": True, "3": False}, 3, 1
                        else:
                            ops = [["send", 1, 0, "x", "hold"], ["reinstall", 0], hide, ["reinstall", 1],
                                   ["send", 0, 1, "x"], show]
                            exp, mid, k0 = {"1": False, "2": False}, 2, 1
                        if restart:
                            ops.append(["restart", 0])
                        tail = [["send", 1, 0, "x"]] + ([["send", 0, 1, "x"]] if own_send_ok else []) \
                            if follow == "pkmsg" else [["send", 0, 1, "x"], ["send", 1, 0, "x"]]
                        for t in tail:
                            mid += 1
                            exp[str(mid)] = auto
                        cs.append({"name": "unpin-%s-%s-%s-%s-%s" % (trig, shape, follow, "restart" if restart else
                                                                   "norestart", auto),
                                   "n": 2, "autotrust": [auto, False], "ops": ops + tail, "expect": exp,
                                   "pinprobe": [0, 1, k0], "family": "unpin"})
    return cs


def scripted_cases():
    cs = fault_cases() + kill_cases() + unpin_cases()
    for auto in (False, True):
        # --- the pin must be durable whichever path saved it (seeded defect C17-2: saveIdentity without commit) ---
        # (a) the identity is first learnt from the bundle fetched after an identity-change notification (nothing is
        # encrypted afterwards); the process ends right after it; the contact reinstalls; our message (old session)
        # is answered by a retry and the bundle shows the new identity; then the reinstalled contact writes first
        cs.append({"name": "notify-restart-reinstall-%s" % auto, "n": 2, "autotrust": [auto, False],
                   "ops": [["notify", 0, 1], ["restart", 0], ["reinstall", 1], ["send", 0, 1], ["send", 1, 0]],
                   "expect": {"1": auto, "2": auto}})
        # (b) the no-session receive path: 1 reinstalled, a message of 0 under the old session is parked, 0's bundle
        # fetched (0 pinned), the parked message fails to decrypt; 1 restarts; 0 reinstalls and writes first; 1 writes
        cs.append({"name": "nosession-restart-reinstall-%s" % auto, "n": 2, "autotrust": [False, auto],
                   "ops": [["send", 0, 1], ["send", 1, 0], ["reinstall", 1], ["send", 0, 1], ["restart", 1],
                           ["reinstall", 0], ["send", 0, 1], ["send", 1, 0]],
                   "expect": {"1": True, "2": True, "3": False, "4": auto, "5": auto}})
        # (c) a first message saves the identity and then fails to verify (built from the bundle of 1's earlier
        # install); 1 restarts; 0 reinstalls and writes first
        cs.append({"name": "stale-first-message-restart-reinstall-%s" % auto, "n": 2, "autotrust": [False, auto],
                   "ops": [["send", 0, 1, "x", "hold"], ["reinstall", 1], ["restart", 1], ["reinstall", 0],
                           ["send", 0, 1, "x"]],
                   "expect": {"1": False, "2": auto}})
    for auto in (False, True):
        # --- two contacts with the SAME identity key (seeded defect C17-4: saving a key for one contact drops the row
        # of every other contact holding that key).  0 = A (observed), 1 = B, 2 = C.
        # B pinned (key K); C appears as a clone of B's identity (same K) and A sets up a session with it (bundle);
        # A restarts; B reinstalls (K'): the bundle fetched to serve B's retry and B's first message must be refused
        cs.append({"name": "shared-key-original-changes-%s" % auto, "n": 3, "autotrust": [auto, False, False],
                   "ops": [["send", 0, 1], ["send", 1, 0], ["clone", 2, 1], ["send", 0, 2], ["send", 2, 0],
                           ["restart", 0], ["reinstall", 1], ["send", 0, 1], ["send", 1, 0]],
                   "expect": {"1": True, "2": True, "3": True, "4": True, "5": auto, "6": auto}})
        # the same with C learnt from its first message and no restart; B's first message comes before A's send
        cs.append({"name": "shared-key-learnt-by-first-message-%s" % auto, "n": 3, "autotrust": [auto, False, False],
                   "ops": [["send", 0, 1], ["send", 1, 0], ["clone", 2, 1], ["send", 2, 0], ["reinstall", 1],
                           ["send", 1, 0], ["send", 0, 1]],
                   "expect": {"1": True, "2": True, "3": True, "4": auto, "5": auto}})
        # mirrored: the clone C is pinned first, then B shows up with the same key; later C changes its identity
        cs.append({"name": "shared-key-clone-pinned-first-%s" % auto, "n": 3, "autotrust": [auto, False, False],
                   "ops": [["clone", 2, 1], ["send", 0, 2], ["send", 2, 0], ["send", 0, 1], ["send", 1, 0],
                           ["restart", 0], ["reinstall", 2], ["send", 0, 2], ["send", 2, 0]],
                   "expect": {"1": True, "2": True, "3": True, "4": True, "5": auto, "6": auto}})
    for auto in (False, True):
        # the anchor scenario: talk, B reinstalls, A sends, B sends, A restarts, A sends again
        cs.append({"name": "reinstall-autotrust-%s" % auto, "n": 2, "autotrust": [auto, False],
                   "ops": [["send", 0, 1], ["send", 1, 0], ["reinstall", 1], ["send", 0, 1], ["send", 1, 0],
                           ["restart", 0], ["send", 0, 1], ["send", 1, 0]],
                   "expect": {"1": True, "2": True, "3": auto, "4": auto, "5": auto, "6": auto}})
        # B reinstalls before A has a session but after A pinned B through an incoming first message
        cs.append({"name": "pinned-by-incoming-%s" % auto, "n": 2, "autotrust": [auto, False],
                   "ops": [["send", 1, 0], ["reinstall", 1], ["send", 1, 0], ["restart", 0], ["send", 1, 0],
                           ["send", 0, 1]],
                   "expect": {"1": True, "2": auto, "3": auto}})
        # three accounts, the restart happens between the reinstall and the first contact with the new identity
        cs.append({"name": "three-%s" % auto, "n": 3, "autotrust": [auto, auto, False],
                   "ops": [["send", 0, 2], ["send", 1, 2], ["send", 2, 0], ["send", 2, 1], ["reinstall", 2],
                           ["restart", 0], ["send", 0, 2], ["send", 2, 1], ["send", 1, 2], ["send", 1, 0]],
                   "expect": {"1": True, "2": True, "3": True, "4": True, "5": auto, "6": auto, "7": auto, "8": True}})
    # notification while a session exists and the key is known: same identity -> session refreshed, nothing sent;
    # after the contact's reinstall -> refused silently (auto-trust off), the old key stays, restart in between
    cs.append({"name": "notify-known-contact", "n": 2, "autotrust": [False, False],
               "ops": [["send", 0, 1], ["send", 1, 0], ["notify", 0, 1], ["send", 0, 1], ["reinstall", 1],
                       ["notify", 0, 1], ["restart", 0], ["notify", 0, 1, "hold"], ["restart", 0], ["send", 0, 1]],
               "expect": {"1": True, "2": True, "3": True, "4": False}})
    # a different identity shown by a bundle that was fetched for a PARKED incoming message (nobody to report to) and by
    # an answer to a request the process before the restart had made (ignored): nothing may happen, no error is due
    cs.append({"name": "parked-fetch-different-identity", "n": 2, "autotrust": [False, False],
               "ops": [["send", 0, 1, "x"], ["reinstall", 0], ["send", 1, 0, "x", "hold"], ["send", 0, 1, "x", "hold"],
                       ["reinstall", 1]]})
    cs.append({"name": "answer-to-forgotten-request", "n": 2, "autotrust": [False, False],
               "ops": [["send", 0, 1, "x", "hold"], ["reinstall", 1], ["reinstall", 0], ["send", 1, 0, "x", "hold"],
                       ["restart", 1]]})
    # regression for fixes/C17-autotrust-rebuild-session.patch: account 1 (auto-trust) holds a pin for 0 but no session
    # (a stale first message saved the identity, then failed to verify); 0 reinstalls; 1 sends: the bundle shows a
    # new identity -> trusted -> the session must be built, else sendToContact raises out of the stack
    cs.append({"name": "autotrust-bundle-without-session", "n": 2, "autotrust": [False, True],
               "ops": [["send", 0, 1, "x", "hold"], ["reinstall", 1], ["reinstall", 0], ["send", 1, 0, "x"],
                       ["send", 0, 1, "x"]],
               "expect": {"1": False, "2": True, "3": True}})
    # a reinstalled account answers messages encrypted for its old identity with retries only
    cs.append({"name": "dup-and-burst", "n": 2, "autotrust": [False, False],
               "ops": [["send", 0, 1, "x", "hold"], ["send", 0, 1, "x", "hold"], ["dup"], ["send", 1, 0],
                       ["send", 0, 1]],
               "expect": {"1": True, "2": True, "3": True, "4": True}})
    return cs


def legalise(ops, n):
    """Keep the generated history inside the property's domain: two accounts that hold the SAME identity key pair
    never talk to each other (an installation facing its own identity key is not a contact; python-axolotl cannot
    even set up such a session), and nobody is cloned while stanzas are held in the queue (a held stanza would
    otherwise reach a party that meanwhile took the sender's key)."""
    ident = list(range(n))
    fresh = n
    held = False
    out = []
    for op in ops:
        if op[0] == "clone":
            if held or ident[op[1]] == ident[op[2]]:
                continue
            ident[op[1]] = ident[op[2]]
        elif op[0] == "reinstall":
            ident[op[1]] = fresh
            fresh += 1
        elif op[0] in ("send", "notify"):
            if ident[op[1]] == ident[op[2]]:
                continue
        out.append(op)
        held = op[0] in ("send", "notify") and "hold" in op[3:]     # every op that does not hold drains the queue
    return out


def random_case(rng, tier):
    n = rng.choice([2, 2, 3])
    auto = [rng.random() < .4 for _ in range(n)]
    ops = []
    k = rng.randint(4, 10 if tier == "quick" else 14)
    for _ in range(k):
        r = rng.random()
        a = rng.randrange(n)
        b = rng.choice([x for x in range(n) if x != a])
        if r < .56:
            op = ["send", a, b, "x"]
            if rng.random() < .15:
                op.append("hold")
            ops.append(op)
        elif r < .72:
            ops.append(["reinstall", a])
        elif r < .86:
            ops.append(["restart", a])
        elif r < .95:
            op = ["notify", a, b]
            if rng.random() < .15:
                op.append("hold")
            ops.append(op)
        elif r < .975 and n == 3:
            ops.append(["clone", a, b])     # a reinstalls carrying b's identity key pair
        else:
            ops.append(["dup"])
    if rng.random() < .3:
        # a contact's identity is learnt WITHOUT an encryption following it, the process ends, the contact comes
        # back with another identity
        a = rng.randrange(n)
        c = rng.choice([x for x in range(n) if x != a])
        learn = rng.choice([[["notify", a, c]],
                            [["send", c, a, "x"], ["send", a, c, "x"], ["reinstall", a], ["send", c, a, "x"]],
                            [["send", c, a, "x", "hold"], ["reinstall", a]]])
        after = rng.choice([[["send", a, c, "x"]], [["send", c, a, "x"]], [["send", c, a, "x"], ["send", a, c, "x"]],
                            [["notify", a, c]]])
        motif = learn + [["restart", a], ["reinstall", c]] + after
        at = 0 if rng.random() < .5 else rng.randrange(len(ops) + 1)
        ops[at:at] = motif
    if n == 3 and rng.random() < .2:
        # two contacts of a hold the same identity key; then one of them changes its identity
        a, b, c = rng.sample(range(3), 3)
        meet = lambda x: rng.choice([[["send", a, x, "x"]], [["send", x, a, "x"]],
                                     [["send", a, x, "x"], ["send", x, a, "x"]], [["notify", a, x]]])
        first, second = (meet(b) + [["clone", c, b]], meet(c)) if rng.random() < .5 else \
                        ([["clone", c, b]] + meet(c), meet(b))
        changed = rng.choice([b, c])
        motif = first + second + ([["restart", a]] if rng.random() < .5 else []) + [["reinstall", changed]] + \
            rng.choice([[["send", a, changed, "x"]], [["send", changed, a, "x"]],
                        [["send", changed, a, "x"], ["send", a, changed, "x"]]])
        at = 0 if rng.random() < .5 else rng.randrange(len(ops) + 1)
        ops[at:at] = motif
    # kills: the account of the NEXT op's receiving (or sending) side dies at a random store write boundary
    k = 0
    while k < len(ops):
        if ops[k][0] in ("send", "notify") and rng.random() < .12:
            who = rng.choice([ops[k][1], ops[k][2]]) if ops[k][0] == "send" else ops[k][1]
            ops.insert(k, ["kill", who, rng.randrange(6) if rng.random() < .7 else rng.randrange(12)])
            k += 1
        k += 1
    # read faults: the next op runs while the lookups on one party's identities table fail
    k = 0
    while k < len(ops):
        if ops[k][0] in ("send", "notify") and (k == 0 or ops[k - 1][0] not in ("kill", "fault")) and rng.random() < .08:
            who = rng.choice([ops[k][1], ops[k][2]]) if ops[k][0] == "send" else ops[k][1]
            ops.insert(k, ["fault", who, 1 if auto[who] else rng.choice([1, 1, 2]), rng.choice([1, 2, 3, 4, 10])])
            k += 1
        k += 1
    ops = legalise(ops, n)
    return {"name": "random", "n": n, "autotrust": auto, "ops": ops, "reorder": rng.random() < .5,
            "sched_seed": rng.randrange(1 << 30), "pad_seed": rng.randrange(1 << 30)}


def check_case(ctx, model, case, stats):
    """-> list of (kind, name, detail)"""
    w, rec, bodies, sched = run_history(ctx, case)
    full = dict(case, schedule=sched)
    found = []
    orc = list(getattr(w, "pin_probe", [])) + oracle(case, rec, bodies) + expect_resumed(case, rec, bodies)
    for name, detail in orc:
        found.append(("oracle", name, detail))
    if case.get("family") == "unpin":
        # the directed family must really contain its shape: account 0 got a key answer for 1 without an identity
        hits = [e for e in rec.events[0] if e["dir"] == "in" and e["tag"] == "keys" and
                any(not u["ident"] and u["jid"] == 1 for u in e["users"])] if "bare" in json.dumps(case["ops"]) or \
            "stripped" in json.dumps(case["ops"]) else \
            [e for e in rec.events[0] if e["dir"] == "in" and e["tag"] == "keys" and not e["users"]]
        stats["unpin_histories"] = stats.get("unpin_histories", 0) + 1
        stats["unpin_answers_without_identity"] = stats.get("unpin_answers_without_identity", 0) + len(hits)
        if not hits:
            found.append(("correspondence", "unpin-shape-not-reached", "history %s: account 0 never received a key "
                          "answer without identity for its pinned contact" % case.get("name")))
    for idx in range(case["n"]):
        ins, outs, ids, sess, problems, descr = abstract_account(rec, idx, bodies)
        for p in problems:
            found.append(("correspondence", "abstraction", "account %d: %s" % (idx, p)))
        stats["inputs"] += len(ins)
        for d in descr:
            stats["kinds"][d] = stats["kinds"].get(d, 0) + 1
        if model is None or not ins:
            continue
        res = model.call("run_history", [case["autotrust"][idx], ins])
        if isinstance(res, tuple) or len(res) != len(ins):
            found.append(("correspondence", "model-error", repr(res)[:300]))
            continue
        for k, r in enumerate(res):
            mo, mi, ms = model_view(r)
            io = [[int(v) if isinstance(v, bool) else v for v in o] for o in outs[k]]
            mo = [[int(v) for v in o] for o in mo]
            real_sess = dict((c, [tuple(s) for s in sts]) for c, sts in sess[k].items() if sts)
            ms = dict((c, s) for c, s in ms.items() if s)
            if io != mo or ids[k] != mi or real_sess != ms:
                found.append(("correspondence", "account-step",
                              "account %d input #%d %r: impl outputs %r ids %r sess %r / model outputs %r ids %r "
                              "sess %r" % (idx, k, ins[k], io, ids[k], real_sess, mo, mi, ms)))
                break
            for o in mo:
                stats["outs"][o[0]] = stats["outs"].get(o[0], 0) + 1
    return full, found


def shrink(ctx, model, case, pred):
    """drop ops while the same kind of failure remains (cheap delta debugging)."""
    ops = list(case["ops"])
    if len(ops) > 28 or "expect" in case:
        return case
    i = 0
    budget = 40
    while i < len(ops) and budget > 0:
        cand = dict(case, ops=legalise(ops[:i] + ops[i + 1:], case["n"]))
        cand.pop("schedule", None)
        budget -= 1
        try:
            _, found = check_case(ctx, model, cand, {"inputs": 0, "kinds": {}, "outs": {}})
        except Exception:
            found = []
        if pred(found):
            ops = cand["ops"]
        else:
            i += 1
    out = dict(case, ops=ops)
    out.pop("schedule", None)
    return out


def run(ctx):
    ctx.prove()
    exe = ctx.build_model("C17")
    model = modelrun.Model(exe) if exe else None
    cases = scripted_cases()
    nrand = 150 if ctx.tier == "quick" else 2000
    for _ in range(nrand):
        cases.append(random_case(ctx.rng, ctx.tier))
    import os
    if os.environ.get("C17_ONLY"):      # development aid: only the histories whose name starts with the given prefix
        cases = [c for c in cases if c.get("name", "").startswith(os.environ["C17_ONLY"])]
    stats = {"inputs": 0, "kinds": {}, "outs": {}}
    distinct = set()
    mism = 0
    nontrivial = 0
    for ci, case in enumerate(cases):
        try:
            full, found = check_case(ctx, model, case, stats)
        except Exception as e:   # the implementation raised out of the stack: report as an oracle failure
            import traceback
            full, found = case, [("oracle", "exception", traceback.format_exc()[-1500:])]
        key = json.dumps([case["n"], case["autotrust"], case["ops"]])
        if key not in distinct:
            distinct.add(key)
            kinds = set(o[0] for o in case["ops"])
            if ("reinstall" in kinds or "clone" in kinds or "kill" in kinds or "fault" in kinds) and ("send" in kinds or "notify" in kinds):
                nontrivial += 1
        if found:
            kinds = set(k for k, _, _ in found)
            oracle_failed = "oracle" in kinds
            if "correspondence" in kinds:
                mism += 1
            small = shrink(ctx, model, case, lambda f: bool(f) and (("oracle" in set(k for k, _, _ in f)) ==
                                                                     oracle_failed))
            try:
                full2, found2 = check_case(ctx, model, small, {"inputs": 0, "kinds": {}, "outs": {}})
            except Exception:
                full2, found2 = full, found
            if not found2:
                full2, found2 = full, found
            k0, n0, d0 = found2[0]
            ctx.violation("%s:C17.%s" % (k0, n0), {"case": full2, "findings": [list(f) for f in found2][:6]},
                          found_input=("oracle" in set(k for k, _, _ in found2)))
        if (len(ctx.violations) >= 3 and any(v["found_input"] for v in ctx.violations)) or len(ctx.violations) >= 6:
            break
        if ci % 37 == 0:
            ctx.add_sample({"autotrust": case["autotrust"], "ops": case["ops"][:8]})
    if model:
        model.close()
        ctx.ties["correspondence"] = "ok" if mism == 0 else "broken"
    if not ctx.proof_ok and not ctx.violations:
        ctx.tie_broken_without_input("theorem:" + ctx.failing_theorem(), ctx.ties.get("proof"))
    if model is None and not ctx.violations:
        ctx.tie_broken_without_input("model-build:C17", ctx.ties.get("model-build:C17"))
    ctx.coverage["evaluations"] = len(cases)
    ctx.coverage["distinct_nontrivial"] = nontrivial
    ctx.coverage["account_inputs_replayed_through_model"] = stats["inputs"]
    ctx.coverage["input_kinds"] = stats["kinds"]
    ctx.coverage["model_output_kinds"] = dict((["getkeys", "enc-message", "plain-message", "receipt", "retry",
                                                "per-jid-error", "deliver", "receipt-to-app", "notification-ack"][k], v)
                                              for k, v in sorted(stats["outs"].items()))
    ctx.coverage["unpin_family"] = {
        "histories": stats.get("unpin_histories", 0),
        "key_answers_without_identity_for_a_pinned_contact": stats.get("unpin_answers_without_identity", 0),
        "what": "pinned contact reinstalls; key fetch of the pinning account (identity-change notification / retry "
                "receipt / send while pinned without session) answered with <list/> without the jid, <user jid/> "
                "bare, <user> without <identity>; keys visible again; optional restart; the new identity comes by "
                "first message and by bundle; auto-trust off and on",
        "checked_by": "correspondence with the model (its keys_result 'jid missing from the answer' branch: state "
                      "unchanged but skipEncJids; a <user> node without identity is abstracted to a missing jid, its "
                      "log-only MissingParametersException report is not a model output), the history oracle, the "
                      "delivery expectations, and a direct probe of the account's own store after every op "
                      "(isTrustedIdentity(remembered) True, isTrustedIdentity(new) False with auto-trust off)",
        "not_covered": "fetch triggered by an incoming msg-type stanza while pinned without session; the <list/> "
                       "answer on the send-layer paths (the unchanged callback raises NotImplementedError); the "
                       "account's own unencrypted sends after a send-layer fetch answered without identity "
                       "(skipEncJids) - the account sends again only after a restart in those histories"}
    ctx.coverage["exhaustive"] = False
    return ctx.finish(
        rule="case = history over 2-3 accounts (send a->b, reinstall a, restart a = end of the process with the store "
             "connection closed uncommitted, kill a j = a dies at the j-th store write boundary (statement or commit) it "
             "reaches during the next operation while handling an input about a pinned contact, and restarts over the "
             "durable state of that boundary, clone a of b = a reinstalls carrying b's identity key pair, identity-change "
             "notification about b to a, server duplicate / damaged ciphertext; per-account "
             "auto-trust flag; FIFO or seeded random server schedule, bursts held in the queue); %d scripted "
             "histories (both auto-trust settings) + seeded random ones, 3 in 10 of them with an inserted motif "
             "(identity learnt by notification / parked message / failing first message, restart, the contact "
             "reinstalls, contact again), 2 in 10 of the 3-account ones with a shared-key motif (two contacts "
             "hold the same identity key, one of them then changes it), about 1 in 8 sends/notifications preceded by a "
             "kill op; the directed kill histories (pinned contact: bundle processed again after a notification / for a "
             "retry receipt, second prekey message; killed at every boundary in turn; then the contact reinstalls; both "
             "auto-trust settings) are always run; non-trivial = distinct history with at "
             "least one reinstall or clone and one send or notification" % len(scripted_cases()),
        assumptions_text=ASSUME)


def replay(ctx, data):
    case = data["case"]["case"] if "case" in data["case"] else data["case"]
    exe = ctx.build_model("C17")
    model = modelrun.Model(exe) if exe else None
    full, found = check_case(ctx, model, case, {"inputs": 0, "kinds": {}, "outs": {}})
    if model:
        model.close()
    print("history:", json.dumps({k: case[k] for k in ("n", "autotrust", "ops")}))
    for k, n, d in found:
        print("observed %s:%s  %s" % (k, n, d[:1200]))
    if found:
        print("VIOLATION property=C17 replay=(replayed)")
        return 1
    print("no failure on this tree")
    return 0
