"""C16 — connection lifecycle.  Model: coq/C16; implementation: the real network / segments / noise /
coder / auth / iq / interface layers over a fake dispatcher (harness/c16rig.py)."""
import itertools, json
from .. import modelrun, c16rig, c16disp

ASSUME = [
    "modelled: YowNetworkLayer (state, connected, dispatcher, reason), YowAuthenticationProtocolLayer, "
    "YowNoiseLayer.on_auth/on_disconnected (protocol state only), YowInterfaceLayer (reconnect), "
    "AxolotlControlLayer's lifecycle part (passive login, set-keys upload, reboot), "
    "YowIqProtocolLayer + YowPingThread (thread, _pingQueue, registry), YowLayer/YowParallelLayer event "
    "propagation incl. detached delivery, YowStack's deferred queue; all real in the rig",
    "fake dispatcher with the contract of AsyncoreConnectionDispatcher (the default): connect() -> onConnecting(); "
    "disconnect() closes and synchronously calls onDisconnected(), also when already closed "
    "(SocketConnectionDispatcher differs: its disconnect() reports from the receive loop, later); that contract is "
    "itself checked against both shipped dispatchers under the real YowNetworkLayer over loopback sockets "
    "(harness/c16disp.py: connection attempt refused / abandoned by a disconnect request while CONNECTING / "
    "established and closed by the peer, each followed by a later connect request that must start afresh); the "
    "asyncore loop itself and the operating system's sockets are not modelled",
    "consonance's handshake worker is replaced by a stand-in that performs the same transitions "
    "(reset, start -> handshake, finish -> transport) on the real WANoiseProtocol state machine with the real "
    "WANoiseTransport over identity ciphers; handshake crypto and its worker thread belong to C04",
    "the ping thread is the real YowPingThread; time.sleep in protocol_iq.layer's namespace hands control to "
    "the driver, so one 'tick' = one interval elapsing for every ping thread; bytecode-level races are not modelled",
    "the real AxolotlControlLayer is in the rig where YowStackBuilder.getDefaultLayers puts it (above the core layers, "
    "below the protocol group) over a real YowProfile / AxolotlManager / SQLite store in the scratch directory "
    "(COUNT_GEN_PREKEYS 12 >= THRESHOLD_REGEN so that no later CONNECTED generates again; store prepared with prekeys "
    "never uploaded, or all marked sent); modelled of it: PROP_PASSIVE, _unsent_prekeys non-empty, store has unsent "
    "keys, _reboot_connection, the set-keys iq of the current connection unanswered; the axolotl send/receive pair, "
    "key-count notifications and message traffic are not in the rig (C14 / C17); of the control layer's state only the "
    "public part is compared (stack property PROP_PASSIVE, manager.load_unsent_prekeys()), the rest through behaviour",
    "the fake dispatcher completes a connect as a separate later event (dispatcher-connected), as in the property's "
    "alphabet; the control layer and the interface layer call connect() synchronously inside the delivery of "
    "DISCONNECTED, so with a dispatcher whose connect() completed synchronously the layers above could see the new "
    "CONNECTED before the old DISCONNECTED - that dispatcher behaviour is outside the model and the rig",
    "domain: application connect requests only when no DISCONNECTED announcement is still queued "
    "(finding connect-before-deferred-disconnected); disconnect requests only while connecting/connected "
    "(property text); stanzas only on an up connection with a login exchange in progress",
    "the tie model<->code is differential testing on in-domain histories (exhaustive up to a length, random beyond)",
    "the oracle's reconnect clause counts dispatchers created at events other than a connect request / call as "
    "connections opened by the stack on its own, and reads YowNetworkLayer.state (anchored state) after session-ending events",
]

# history symbols: (tag, arg) as in C16Run.dec_event
E_CONNECT_REQ, E_CONNECT_CALL, E_DISCONNECT_REQ, E_DISP_CONNECTED, E_SOCK_ERROR, E_PEER_CLOSE = 0, 1, 2, 3, 4, 5
E_SUCCESS, E_FAILURE, E_STREAM_ERROR, E_PONG, E_TICK, E_APP_SEND, E_LOOP = 6, 7, 8, 9, 10, 11, 12
E_KEYS_RESULT, E_KEYS_ERROR = 13, 14
NAMES = {0: "connect_req", 1: "connect_call", 2: "disconnect_req", 3: "disp_connected", 4: "sock_error",
         5: "peer_close", 6: "success", 7: "failure", 8: "stream_error", 9: "pong", 10: "tick",
         11: "app_send", 12: "loop", 13: "keys_result", 14: "keys_error"}
ALPHABET = [(0, 0), (1, 0), (2, 0), (3, 0), (4, 0), (5, 0), (6, 0), (7, 0), (8, 0), (8, 1), (8, 2),
            (9, 0), (9, 1), (10, 0), (11, 0), (12, 0), (13, 0), (14, 0)]

KEY_DOUBLE_CONNECT = "connect-request-while-connecting-creates-second-dispatcher"
KEY_DOWN_DISCONNECT = "disconnect-while-down-announces-disconnected-again"
KEY_EARLY_CONNECT = "connect-before-deferred-disconnected-delivered"


def rig_event(sym):
    tag, arg = sym
    if tag in (E_STREAM_ERROR, E_PONG):
        return (NAMES[tag], arg)
    return (NAMES[tag],)


def canon_impl(obs):
    """rig observations -> {observer: [items]} with exceptions mapped to one symbol"""
    out = {}
    for who, item in obs:
        it = [] if who == c16rig.OBS_EXC else list(item)
        out.setdefault(who, []).append(it)
    return out


def canon_model(obs):
    out = {}
    for o in obs:
        out.setdefault(o[0], []).append(list(o[1:]))
    return out


class Opts(object):
    def __init__(self, reconnect, passive, ping, prop_set=True, unsent=False):
        self.reconnect, self.passive, self.ping, self.prop_set = reconnect, passive, ping, prop_set
        self.unsent = unsent      # the profile's store holds one-time prekeys that were never uploaded

    def eff_reconnect(self):
        return self.reconnect if self.prop_set else True

    def cfg(self, fix_create, fix_destroy):
        return [self.eff_reconnect(), self.passive, self.ping, fix_create, fix_destroy, self.unsent]

    def as_dict(self):
        return {"reconnect": self.reconnect, "passive": self.passive, "ping": self.ping, "prop_set": self.prop_set,
                "unsent": self.unsent}

    @staticmethod
    def from_dict(d):
        return Opts(d["reconnect"], d["passive"], d["ping"], d.get("prop_set", True), d.get("unsent", False))


def impl_state(rig):
    """the state the property's anchors name + the rig's own dispatcher/queue bookkeeping; of the control layer
    only what is public: the stack property PROP_PASSIVE and whether the manager still has unsent prekeys"""
    d = rig.cur()
    phase = {"new": 0, "connecting": 1, "up": 2, "closed": 3}[d.phase] if d else 0
    orphans = sum(1 for x in rig.dispatchers[:-1] if x.phase in ("connecting", "up"))
    nz = {"init": 0, "handshake": 1, "transport": 2}.get(rig.noise_state(), 9)
    return {"ns": rig.net.state, "conn": 1 if rig.net.connected else 0, "dp": phase, "orphans": orphans,
            "nz": nz, "recon": 1 if rig.iface.reconnect else 0, "pq": len(rig.iq._pingQueue),
            "dq": rig.queue.qsize(), "psv": 1 if rig.passive_prop() else 0,
            "ud": 1 if rig.store_has_unsent() else 0,
            "kp": 1 if rig.keys_pending is not None else 0}


def model_state(st):
    return {"ns": st[0], "conn": st[1], "dp": st[2], "orphans": st[3], "nz": st[4], "recon": st[5],
            "pq": st[7], "dq": st[8], "psv": st[9], "ud": st[10], "kp": st[11]}


class Oracle(object):
    """The property stated directly on what the probes, the dispatcher and the application saw."""

    def __init__(self, opts):
        self.opts = opts
        self.mon = "idle"            # attempts as seen at P0: idle / attempt / up
        self.ann = {p: [] for p in range(4)}
        self.expect_reconnect = False   # a stream error that calls for a reconnect has not been followed up yet
        self.auto_creates = 0           # connections the stack opened on its own (not at a connect request/call)
        self.recon_errors = 0           # stream errors that call for a reconnect (not a conflict, option on)
        self.down = None                # set by an event that ends the session for good, until the next connect request
        # passive login path (axolotl control layer), from the options and the history only
        self.passive = bool(opts.passive)   # what the next login is expected to announce
        self.unsent = bool(opts.unsent)     # prekeys never confirmed by the server
        self.to_upload = False              # this connection's login still has to upload them
        self.expect_reboot = False          # the upload was confirmed: one disconnect + one reconnect, non-passive
        self.reboots = 0
        self.app_up = False                 # last announcement the application saw was CONNECTED
        self.conn_pings, self.conn_answered = [], set()   # pings written on / answered on the current connection
        self.alive = False
        self.outstanding = None
        self.next_ping = 0
        self.fail = None

    def bad(self, what):
        if self.fail is None:
            self.fail = what

    def step(self, sym, obs, rig, noise_before):
        tag, arg = sym
        mon_before = self.mon
        per = canon_impl(obs)
        probes = {p: per.get(p, []) for p in range(4)}
        disp = per.get(c16rig.OBS_DISP, [])
        app = per.get(c16rig.OBS_APP, [])
        hs = per.get(c16rig.OBS_NOISE, [])
        if per.get(c16rig.OBS_EXC) and tag != E_KEYS_ERROR:
            # (the control layer's reaction to an error reply is to raise "Sent keys were not accepted")
            self.bad("an exception escaped at %s" % NAMES[tag])
        # --- a DISCONNECTED delivered by the loop reaches every layer, the application included
        if tag == E_LOOP and any(it[0] == c16rig.EV_DISCONNECTED for it in probes[1]):
            missing = [p for p in (2, 3) if not any(it[0] == c16rig.EV_DISCONNECTED for it in probes[p])]
            if missing:
                self.bad("DISCONNECTED was delivered up to the axolotl control layer but not to %s: the layers above "
                         "were never told that the connection went down"
                         % " and ".join({2: "the protocol layers (auth, iq)", 3: "the application"}[p]
                                        for p in missing))
        for who, item in obs:
            if who == 3 and item[0] == c16rig.EV_CONNECTED:
                if self.app_up:
                    self.bad("the application saw CONNECTED twice with no DISCONNECTED in between")
                self.app_up = True
            elif who == 3 and item[0] == c16rig.EV_DISCONNECTED:
                self.app_up = False
        # --- announcements: attempts at P0, same sequence (delayed by the queue) above
        for who, item in obs:
            if who == c16rig.OBS_DISP and item[0] == c16rig.D_CREATE:
                if self.mon != "idle":
                    self.bad("a dispatcher was created while another connection was %s" % self.mon)
                self.mon = "attempt"
            elif who == 0 and item[0] == c16rig.EV_CONNECTED:
                if self.mon != "attempt":
                    self.bad("CONNECTED announced while %s" % self.mon)
                self.mon = "up"
            elif who == 0 and item[0] == c16rig.EV_DISCONNECTED:
                if self.mon == "idle":
                    self.bad("DISCONNECTED announced although no connection was up or being established")
                self.mon = "idle"
            if who in (0, 1, 2, 3) and item[0] in (c16rig.EV_CONNECTED, c16rig.EV_DISCONNECTED):
                self.ann[who].append(tuple(item))
        pending = rig.queue.qsize()
        for p in (1, 2, 3):
            if self.ann[p] != self.ann[0][:len(self.ann[p])] or len(self.ann[0]) - len(self.ann[p]) != pending:
                self.bad("announcements at P%d are not those at P0 delayed by the %d queued ones" % (p, pending))
        # --- nothing written to a connection that is down
        if rig.down_writes:
            self.bad("data written to a dispatcher that is not connected: %r" % (rig.down_writes[:2],))
        # --- connect announced once, one login attempt, fresh noise state
        n_conn = [sum(1 for it in probes[p] if it[0] == c16rig.EV_CONNECTED) for p in range(4)]
        n_auth = [sum(1 for it in probes[p] if it[0] == c16rig.EV_AUTH) for p in range(3)]
        n_authed = [sum(1 for it in probes[p] if it[0] == c16rig.EV_AUTHED) for p in range(3)]
        if tag == E_DISP_CONNECTED:
            if self.unsent:
                # prekeys that were never confirmed: the login is passive and has to upload them
                self.passive, self.to_upload = True, True
            self.conn_pings, self.conn_answered = [], set()
        pas = 1 if self.passive else 0
        if tag == E_DISP_CONNECTED:
            if n_conn != [1] * 4:
                self.bad("CONNECTED seen %r times at P0..P3 for one connection" % (n_conn,))
            flags = sorted(set(it[1] for p in range(3) for it in probes[p] if it[0] == c16rig.EV_AUTH))
            if n_auth != [1] * 3 or hs != [[pas]] or flags != [pas]:
                self.bad("login attempts for one connection: auth events %r (passive flags %r), handshakes %r, "
                         "expected one %s login" % (n_auth, flags, hs, "passive" if pas else "active"))
            if noise_before != "init":
                self.bad("login started with noise state %r" % noise_before)
            if [it for it in disp if it[0] == c16rig.D_WRITE] != [[c16rig.D_WRITE, c16rig.W_HEADER, 0, 1]]:
                self.bad("login did not start with exactly the protocol header on the wire")
        elif any(n_conn) or any(n_auth) or hs:
            self.bad("CONNECTED / auth / handshake without a dispatcher-connected event")
        # --- authenticated announced once per success
        key_writes = [it for it in disp if it[0] == c16rig.D_WRITE and it[1] == c16rig.W_KEYS]
        if tag == E_SUCCESS:
            if n_authed != [1] * 3 or app != [[c16rig.A_SUCCESS, 0]]:
                self.bad("success: authed events %r, entities %r" % (n_authed, app))
            want = 1 if (self.passive and self.to_upload) else 0
            if len(key_writes) != want or any(it[3] != 1 for it in key_writes):
                self.bad("success on a %s login with prekeys %s: %d set-keys upload(s) written"
                         % ("passive" if self.passive else "active",
                            "waiting" if self.to_upload else "not waiting", len(key_writes)))
            self.to_upload = False
            if not self.alive and self.opts.ping:
                self.alive, self.outstanding = True, None
        else:
            if any(n_authed):
                self.bad("authed announced without a success")
            if key_writes:
                self.bad("a set-keys upload was written at %s" % NAMES[tag])
        if tag == E_KEYS_RESULT:
            # the server accepted the keys: the control layer closes the passive connection and reconnects
            if [c16rig.D_DISCONNECT] not in disp or not any(it[0] == c16rig.EV_DISCONNECTED for it in probes[0]):
                self.bad("the confirmed prekey upload did not close the passive connection")
            if app:
                self.bad("the reply to the set-keys iq reached the application: %r" % (app,))
            self.unsent, self.expect_reboot = False, True
            self.reboots += 1
        # --- failure / stream error delivered and closes
        if tag in (E_FAILURE, E_STREAM_ERROR):
            want = [c16rig.A_FAILURE, 0] if tag == E_FAILURE else [c16rig.A_STREAMERROR, arg]
            if app != [want]:
                self.bad("%s not delivered to the application exactly once: %r" % (NAMES[tag], app))
            d = rig.cur()
            if d.phase != "closed" or [c16rig.D_DISCONNECT] not in disp or \
                    not any(it[0] == c16rig.EV_DISCONNECTED for it in probes[0]):
                self.bad("%s did not close the connection" % NAMES[tag])
            if tag == E_STREAM_ERROR:
                self.expect_reconnect = self.opts.eff_reconnect() and c16rig.KINDS[arg] != "conflict"
                if self.expect_reconnect:
                    self.recon_errors += 1
        # --- automatic reconnect: once per stream error that calls for it, for no other reason, and a
        #     session that ended without such a stream error stays down until the application asks
        n_created = sum(1 for it in disp if it == [c16rig.D_CREATE])
        created = n_created > 0
        if tag in (E_CONNECT_REQ, E_CONNECT_CALL):
            self.down = None
        else:
            self.auto_creates += n_created
        if tag in (E_DISCONNECT_REQ, E_FAILURE) or (tag == E_STREAM_ERROR and not self.expect_reconnect) or \
                (tag in (E_SOCK_ERROR, E_PEER_CLOSE) and mon_before != "idle"):
            self.down = NAMES[tag] + (" while the connection was being established" if mon_before == "attempt"
                                      else "")
        if tag == E_LOOP:
            if any(it[0] == c16rig.EV_DISCONNECTED for it in probes[3]):
                want = self.expect_reconnect or self.expect_reboot
                if created != want:
                    self.bad("automatic reconnect %s: the DISCONNECTED that reached the application %s a stream "
                             "error calling for a reconnect or a confirmed prekey upload, and the stack opened %d "
                             "connection(s) on its own"
                             % ("missing" if want else "unexpected",
                                "followed" if want else "did not follow", n_created))
                if self.expect_reboot:
                    self.passive = False       # the reboot exists to log in again with passive off
                self.expect_reconnect = self.expect_reboot = False
        elif created and tag not in (E_CONNECT_REQ, E_CONNECT_CALL):
            self.bad("a connection was opened at %s" % NAMES[tag])
        n_pending = (1 if self.expect_reconnect else 0) + (1 if self.expect_reboot else 0)
        if self.auto_creates + n_pending != self.recon_errors + self.reboots:
            self.bad("the stack has opened %d connection(s) on its own (%d more pending) after %d stream error(s) "
                     "that call for a reconnect and %d confirmed prekey upload(s)"
                     % (self.auto_creates, n_pending, self.recon_errors, self.reboots))
        if self.down is not None:
            if rig.net.state != 0 or self.mon != "idle" or created:
                self.bad("after %s the stack must stay DISCONNECTED until the application asks for a connection, "
                         "but after %s the network layer is in state %r%s"
                         % (self.down, NAMES[tag], rig.net.state,
                            " and a connection was opened" if created else ""))
        # --- keep-alive
        timeout = any(it == [c16rig.EV_DISCONNECT, c16rig.R_PING] for it in probes[3])
        # ... per connection, from what was on the wire: the keep-alive may close a connection that is up only
        # when a ping written on THAT connection (at an earlier tick) is still unanswered
        if timeout and mon_before == "up":
            open_pings = [i for i in self.conn_pings if i not in self.conn_answered]
            if not open_pings:
                self.bad("keep-alive closed a connection although every ping written on it was answered "
                         "(pings on this connection: %r, answered: %r)"
                         % (self.conn_pings, sorted(self.conn_answered)))
        for it in disp:
            if it[0] == c16rig.D_WRITE and it[1] == c16rig.W_PING and it[3] == 1:
                self.conn_pings.append(it[2])
        if tag == E_PONG and [c16rig.A_PONG, arg] in app:
            self.conn_answered.add(arg)
        if tag == E_TICK and self.alive:
            if (self.outstanding is not None) != timeout:
                self.bad("keep-alive: ping outstanding=%r but timeout disconnect=%r" % (self.outstanding, timeout))
            if not timeout:
                self.outstanding = self.next_ping
            self.next_ping += 1
        elif timeout:
            self.bad("keep-alive disconnect without an unanswered ping")
        if tag == E_PONG and self.outstanding == arg and [c16rig.A_PONG, arg] in app:
            self.outstanding = None
        if any(it[0] in (c16rig.EV_DISCONNECT, c16rig.EV_DISCONNECTED) for it in probes[2]):
            self.alive, self.outstanding = False, None


def run_impl(mods, opts, hist, check_oracle=True):
    """run a history on the real layers; returns (steps, oracle_failure) with steps =
    [(enabled, canonical obs, state)]"""
    rig = c16rig.Rig(mods, reconnect_opt=opts.reconnect, passive=opts.passive, ping=opts.ping,
                     reconnect_prop_set=opts.prop_set, unsent=opts.unsent)
    orc = Oracle(opts)
    steps = []
    try:
        for sym in hist:
            nb = rig.noise_state()
            en, obs = rig.step(rig_event(tuple(sym)))
            if check_oracle and en:
                orc.step(tuple(sym), obs, rig, nb)
            steps.append((en, canon_impl(obs), impl_state(rig)))
    finally:
        run_impl.last_writes = list(rig.write_log)
        run_impl.last_down_writes = list(rig.down_writes)
        rig.close()
    return steps, orc.fail


def compare(model_steps, impl_steps, strict=True):
    """first difference between the model's kept steps and the implementation run, or None"""
    for k, (ms, (en, iobs, ist)) in enumerate(zip(model_steps, impl_steps)):
        if not en and strict:
            return {"step": k, "what": "the environment could not perform the event (model says enabled)"}
        mobs = canon_model(ms[1])
        if mobs != iobs:
            who = sorted(set(mobs) | set(iobs))
            diff = {str(w): {"model": mobs.get(w, []), "impl": iobs.get(w, [])} for w in who
                    if mobs.get(w, []) != iobs.get(w, [])}
            return {"step": k, "what": "observations differ", "diff": diff}
        mst = model_state(ms[2])
        if mst != ist:
            return {"step": k, "what": "state differs", "model": mst, "impl": ist}
    return None


def detect_fixes(mods):
    """which of the two network-layer guards does the code under test have? (behavioural probes)"""
    o = Opts(True, False, True)
    s1, _ = run_impl(mods, o, [(0, 0), (0, 0)], check_oracle=False)
    s2, _ = run_impl(mods, o, [(0, 0), (3, 0), (1, 0)], check_oracle=False)
    created = lambda st: [c16rig.D_CREATE] in st[1].get(c16rig.OBS_DISP, [])
    fix_create = (not created(s1[1])) and (not created(s2[2]))
    partial_create = created(s1[1]) != created(s2[2])
    s3, _ = run_impl(mods, o, [(0, 0), (3, 0), (5, 0), (2, 0)], check_oracle=False)
    fix_destroy = [c16rig.D_DISCONNECT] not in s3[3][1].get(c16rig.OBS_DISP, [])
    return fix_create, fix_destroy, partial_create


WITNESS = {
    KEY_DOUBLE_CONNECT: [(0, 0), (0, 0), (3, 0), (5, 0), (12, 0)],
    KEY_DOWN_DISCONNECT: [(0, 0), (3, 0), (6, 0), (10, 0), (5, 0), (10, 0), (12, 0), (12, 0)],
    KEY_EARLY_CONNECT: [(0, 0), (3, 0), (5, 0), (0, 0), (3, 0), (12, 0)],
}


def hist_json(hist):
    return [[NAMES[t], a] for t, a in hist]


def hist_from_json(j):
    inv = {v: k for k, v in NAMES.items()}
    return [(inv[n], a) for n, a in j]


def check_history(model, mods, opts, fixes, hist, filtered=True):
    """returns (kept history, correspondence difference or None, oracle failure or None)"""
    cfg = opts.cfg(*fixes)
    if filtered:
        ms = model.call("run_filter", [cfg, [list(s) for s in hist]])
        kept = [hist[m[0]] for m in ms]
    else:
        ms = [[i, m[1], m[2]] for i, m in enumerate(model.call("run_hist", [cfg, [list(s) for s in hist]]))]
        kept = list(hist)
    impl, ofail = run_impl(mods, opts, kept)
    return kept, compare(ms, impl), ofail


def shrink(model, mods, opts, fixes, hist, pred):
    """greedy: drop events while pred(check_history(...)) stays true"""
    cur = list(hist)
    changed = True
    while changed and len(cur) > 1:
        changed = False
        for i in range(len(cur)):
            cand = cur[:i] + cur[i + 1:]
            try:
                kept, diff, ofail = check_history(model, mods, opts, fixes, cand)
            except Exception:
                continue
            if pred(diff, ofail):
                cur, changed = kept, True
                break
    return cur


def gen_random(rng, n):
    """random candidate history biased towards getting a connection up (the model filters it)"""
    h = []
    weights = [(E_CONNECT_REQ, 10), (E_CONNECT_CALL, 3), (E_DISCONNECT_REQ, 4), (E_DISP_CONNECTED, 12),
               (E_SOCK_ERROR, 3), (E_PEER_CLOSE, 4), (E_SUCCESS, 10), (E_FAILURE, 3), (E_STREAM_ERROR, 6),
               (E_PONG, 8), (E_TICK, 14), (E_APP_SEND, 5), (E_LOOP, 12), (E_KEYS_RESULT, 6), (E_KEYS_ERROR, 2)]
    tags = [t for t, _ in weights]
    ws = [w for _, w in weights]
    npings = 0
    for _ in range(n):
        t = rng.choices(tags, ws)[0]
        if t == E_STREAM_ERROR:
            h.append((t, rng.randrange(3)))
        elif t == E_PONG:
            # usually the most recent ping, sometimes an older or a never-issued one
            r = rng.random()
            i = max(0, npings - 1) if r < .6 else rng.randrange(0, npings + 2)
            h.append((t, i))
        else:
            if t == E_TICK:
                npings += 1
            h.append((t, 0))
    return h


# ways in which a connection attempt (in particular the automatic reconnect attempt) can go on
OUTCOMES = [
    [(E_SOCK_ERROR, 0), (E_LOOP, 0)],                      # socket error while CONNECTING
    [(E_PEER_CLOSE, 0), (E_LOOP, 0)],                      # peer close while CONNECTING
    [(E_DISCONNECT_REQ, 0), (E_LOOP, 0)],                  # the application gives up while CONNECTING
    [(E_SOCK_ERROR, 0), (E_PEER_CLOSE, 0), (E_TICK, 0), (E_LOOP, 0)],
    [(E_DISP_CONNECTED, 0), (E_STREAM_ERROR, 1), (E_LOOP, 0)],             # up, fails again before the login
    [(E_DISP_CONNECTED, 0), (E_SUCCESS, 0), (E_STREAM_ERROR, 2), (E_LOOP, 0)],
    [(E_DISP_CONNECTED, 0), (E_STREAM_ERROR, 0), (E_LOOP, 0)],             # conflict ends the retries
    [(E_DISP_CONNECTED, 0), (E_FAILURE, 0), (E_LOOP, 0)],
    [(E_DISP_CONNECTED, 0), (E_SUCCESS, 0), (E_PEER_CLOSE, 0), (E_LOOP, 0)],
    [(E_DISP_CONNECTED, 0), (E_SUCCESS, 0), (E_DISCONNECT_REQ, 0), (E_LOOP, 0)],
    [(E_TICK, 0)],
    [(E_CONNECT_REQ, 0)],                                  # the application asks again
]


def gen_reconnect_family(depth):
    """stream error (each kind) on a fresh / logged-in connection, the loop run that may reconnect, then every
    sequence of up to `depth` OUTCOMES, then one more session attempt by the application"""
    out = []
    for prefix in ([(E_CONNECT_REQ, 0), (E_DISP_CONNECTED, 0)],
                   [(E_CONNECT_REQ, 0), (E_DISP_CONNECTED, 0), (E_SUCCESS, 0), (E_TICK, 0)]):
        for k in range(3):
            head = prefix + [(E_STREAM_ERROR, k), (E_LOOP, 0)]
            for d in range(1, depth + 1):
                for seq in itertools.product(range(len(OUTCOMES)), repeat=d):
                    h = list(head)
                    for i in seq:
                        h += OUTCOMES[i]
                    out.append(h + [(E_LOOP, 0), (E_CONNECT_REQ, 0), (E_DISP_CONNECTED, 0), (E_SUCCESS, 0)])
    return out


def gen_passive_family(depth):
    """the passive login path: connect, connected, success (the control layer uploads the prekeys), then up to
    `depth` events while the upload is unanswered (ping ticks, pongs given or withheld, application data), then
    the answer (result -> reboot, error, or none: peer close / socket error / stream error / disconnect request /
    a second tick with the pong withheld), then the loop and what follows on the next connection (keep-alive with
    and without pongs, a second session end)"""
    mids = [[]]
    mid_syms = [(E_TICK, 0), (E_PONG, 0), (E_PONG, 1), (E_APP_SEND, 0), (E_SUCCESS, 0)]
    for d in range(1, depth + 1):
        mids += [list(x) for x in itertools.product(mid_syms, repeat=d)]
    answers = [[(E_KEYS_RESULT, 0)], [(E_KEYS_ERROR, 0)], [(E_KEYS_ERROR, 0), (E_PEER_CLOSE, 0)],
               [(E_PEER_CLOSE, 0)], [(E_SOCK_ERROR, 0)], [(E_STREAM_ERROR, 1)], [(E_STREAM_ERROR, 0)],
               [(E_DISCONNECT_REQ, 0)], [(E_FAILURE, 0)], [(E_KEYS_RESULT, 0), (E_TICK, 0)],
               [(E_KEYS_RESULT, 0), (E_SOCK_ERROR, 0), (E_TICK, 0)]]
    tails = [[(E_LOOP, 0), (E_DISP_CONNECTED, 0), (E_SUCCESS, 0), (E_TICK, 0), (E_PONG, 1), (E_PONG, 2), (E_TICK, 0),
              (E_TICK, 0), (E_LOOP, 0)],
             [(E_LOOP, 0), (E_DISP_CONNECTED, 0), (E_SUCCESS, 0), (E_TICK, 0), (E_TICK, 0), (E_LOOP, 0)],
             [(E_LOOP, 0), (E_SOCK_ERROR, 0), (E_LOOP, 0), (E_CONNECT_REQ, 0), (E_DISP_CONNECTED, 0), (E_SUCCESS, 0),
              (E_KEYS_RESULT, 0), (E_LOOP, 0), (E_DISP_CONNECTED, 0), (E_SUCCESS, 0), (E_TICK, 0)],
             [(E_TICK, 0), (E_LOOP, 0), (E_CONNECT_REQ, 0), (E_DISP_CONNECTED, 0), (E_SUCCESS, 0), (E_TICK, 0),
              (E_KEYS_RESULT, 0), (E_KEYS_ERROR, 0), (E_LOOP, 0), (E_DISP_CONNECTED, 0), (E_STREAM_ERROR, 2),
              (E_LOOP, 0), (E_DISP_CONNECTED, 0), (E_SUCCESS, 0)]]
    out = []
    head = [(E_CONNECT_REQ, 0), (E_DISP_CONNECTED, 0), (E_SUCCESS, 0)]
    for m in mids:
        for a in answers:
            for t in tails:
                out.append(head + m + a + t)
    return out


def gen_window_family():
    """data reaching the network layer while a connection is only being established: a logged-in connection
    (keep-alive running) is lost (peer close / socket error), the application (or nobody) asks for a new one
    BEFORE or AFTER the loop has delivered the old connection's DISCONNECTED, and in that window - state
    CONNECTING, fresh dispatcher not connected yet - ping ticks fire and the application sends; then the loop, a
    failing attempt, or the new connection coming up (only where the old DISCONNECTED has been delivered).
    The "before the loop" half lies in the window of the open finding connect-before-deferred-disconnected and
    is outside the theorems' domain; it is run unfiltered, against the model's unrestricted step function."""
    out = []
    T, S, L = (E_TICK, 0), (E_APP_SEND, 0), (E_LOOP, 0)
    for prefix in ([(E_CONNECT_REQ, 0), (E_DISP_CONNECTED, 0), (E_SUCCESS, 0)],
                   [(E_CONNECT_REQ, 0), (E_DISP_CONNECTED, 0), (E_SUCCESS, 0), T, (E_PONG, 0)]):
        for close in ((E_PEER_CLOSE, 0), (E_SOCK_ERROR, 0)):
            for looped in (False, True):
                for conn_ev in ((E_CONNECT_REQ, 0), (E_CONNECT_CALL, 0)):
                    for d in (1, 2):
                        for w in itertools.product([T, S], repeat=d):
                            tails = [[], [L], [(E_SOCK_ERROR, 0), L]]
                            if looped:
                                tails.append([(E_DISP_CONNECTED, 0), (E_SUCCESS, 0), T])
                            for tail in tails:
                                out.append(prefix + [close] + ([L] if looped else []) + [conn_ev] + list(w) + tail)
                    # ... and with nobody asking: sends / ticks after the close, before and after the loop
                for d in (1, 2):
                    for w in itertools.product([T, S], repeat=d):
                        out.append(prefix + [close] + ([L] if looped else []) + list(w) + [L])
    return out


def write_rule(impl):
    """no write unless the connection is up, over ALL writes (login bytes, keep-alive pings, application data,
    uploads), judged per dispatcher instance: the first step at which a dispatcher that is not up was written to"""
    for k, (en, obs, st) in enumerate(impl):
        for it in obs.get(c16rig.OBS_DISP, []):
            if it[0] == c16rig.D_WRITE and it[-1] != 1:
                return k
    if run_impl.last_down_writes:
        return len(impl) - 1
    return None


EXT_ALPHABET = [(E_LOOP, 0), (E_SOCK_ERROR, 0), (E_DISCONNECT_REQ, 0), (E_DISP_CONNECTED, 0), (E_TICK, 0),
                (E_SUCCESS, 0), (E_CONNECT_REQ, 0), (E_PEER_CLOSE, 0), (E_STREAM_ERROR, 1), (E_STREAM_ERROR, 0),
                (E_FAILURE, 0), (E_APP_SEND, 0), (E_KEYS_RESULT, 0), (E_KEYS_ERROR, 0)]


def find_failing_extension(model, mods, opts, fixes, prefix, depth=3):
    """the implementation differs from the model after `prefix` but the property's oracle has not failed yet:
    look for a continuation (inside the model's domain) on which the oracle does fail"""
    for d in range(1, depth + 1):
        cands = [list(prefix) + list(suf) for suf in itertools.product(EXT_ALPHABET, repeat=d)]
        filt = model.call_many("run_filter", [[opts.cfg(*fixes), [list(x) for x in h]] for h in cands])
        seen = set()
        for h, ms in zip(cands, filt):
            kept = [h[m[0]] for m in ms]
            if len(kept) <= len(prefix) or tuple(kept) in seen:
                continue
            seen.add(tuple(kept))
            try:
                _, ofail = run_impl(mods, opts, kept)
            except Exception:
                continue
            if ofail is not None:
                return kept
    return None


def enumerate_domain(model, cfg, maxlen):
    """all in-domain histories up to maxlen over ALPHABET (DFS, enabledness asked from the model)"""
    out = []
    frontier = [[]]
    for depth in range(maxlen):
        flags = model.call_many("run_enabled", [[cfg, [list(s) for s in h], [list(s) for s in ALPHABET]]
                                                for h in frontier])
        nxt = []
        for h, fl in zip(frontier, flags):
            for sym, ok in zip(ALPHABET, fl):
                if ok:
                    nxt.append(h + [sym])
        out.extend(nxt)
        frontier = nxt
    return out


def trivial(kept):
    """a history is non-trivial when a connection came up in it"""
    return not any(t == E_DISP_CONNECTED for t, _ in kept)


def run(ctx):
    ctx.prove()
    exe = ctx.build_model("C16")
    model = modelrun.Model(exe) if exe else None
    mods = c16rig.load_repo_mods(ctx.scratch)
    rng = ctx.rng
    fix_create, fix_destroy, partial = detect_fixes(mods)
    fixes = (fix_create, fix_destroy)
    ctx.coverage["guards_detected"] = {"createConnection_state_guard": fix_create,
                                       "destroyConnection_state_guard": fix_destroy}
    evals, distinct, nontrivial, mism = 0, set(), 0, 0
    kinds = {}
    ext_budget, ext_cache = [4], {}
    reported, n_reports = set(), [0]

    def record(kept, opts):
        nonlocal nontrivial
        key = (tuple(kept), tuple(sorted(opts.as_dict().items())))
        if key not in distinct:
            distinct.add(key)
            if not trivial(kept):
                nontrivial += 1
        for t, _ in kept:
            kinds[NAMES[t]] = kinds.get(NAMES[t], 0) + 1

    def report(kind, opts, hist, kept, diff, ofail, key=None):
        nonlocal mism
        if diff is not None:
            mism += 1
        ek = (tuple(sorted(opts.as_dict().items())), tuple(kept[:diff["step"] + 1])) if diff is not None else None
        if model is not None and key is None and diff is not None and ofail is None and \
                (ek in ext_cache or ext_budget[0] > 0):
            # the code no longer follows the model: look for a history on which the property itself fails
            if ek not in ext_cache:
                ext_budget[0] -= 1
                ext_cache[ek] = find_failing_extension(model, mods, opts, fixes, kept[:diff["step"] + 1],
                                                       depth=3 if ctx.tier == "quick" else 4)
            ext = ext_cache[ek]
            if ext is not None:
                k2, d2, o2 = check_history(model, mods, opts, fixes, ext)
                if o2 is not None:
                    kind, hist, kept, diff, ofail = kind + "+ext", ext, k2, d2, o2
        if model is not None and key is None:
            # keep a failing input of the property itself if there is one, else the model/code difference
            pred = (lambda d, o: o is not None) if ofail is not None else (lambda d, o: d is not None)
            small = shrink(model, mods, opts, fixes, kept, pred)
            k2, d2, o2 = check_history(model, mods, opts, fixes, small)
            if pred(d2, o2):
                kept, diff, ofail = k2, d2, o2
        rk = (tuple(kept), tuple(sorted(opts.as_dict().items())), ofail is not None)
        if rk in reported:
            return
        reported.add(rk)
        name = ("oracle:C16.lifecycle" if ofail is not None else "correspondence:C16.step")
        ctx.violation(name, {"kind": kind, "options": opts.as_dict(), "guards": list(fixes),
                             "history": hist_json(kept), "difference": diff, "oracle": ofail},
                      found_input=ofail is not None, key=key)

    # ---- 1. the three witnesses of the refuted lemmas, on the implementation
    o0 = Opts(True, False, True)
    for key, present in ((KEY_DOUBLE_CONNECT, not fix_create), (KEY_DOWN_DISCONNECT, not fix_destroy),
                         (KEY_EARLY_CONNECT, True)):
        hist = WITNESS[key]
        impl, ofail = run_impl(mods, o0, hist)
        evals += 1
        diff = None
        if model is not None:
            ms = [[i, m[1], m[2]] for i, m in
                  enumerate(model.call("run_hist", [o0.cfg(*fixes), [list(s) for s in hist]]))]
            diff = compare(ms, impl, strict=False)
        if key == KEY_EARLY_CONNECT:
            # the stale DISCONNECTED reaches the noise layer after the second login started
            last = impl[-1][2]
            ofail = ("connection 2 is up (state %d) but the DISCONNECTED of connection 1, delivered late, reset "
                     "its login (noise state %d) and was the last announcement the application saw"
                     % (last["ns"], last["nz"])) if (last["ns"] == 2 and last["nz"] == 0) else None
        if diff is not None:
            report("witness:" + key, o0, hist, hist, diff, ofail)
        elif ofail is not None:
            ctx.violation("oracle:C16.lifecycle", {"kind": "witness", "options": o0.as_dict(),
                          "guards": list(fixes), "history": hist_json(hist), "oracle": ofail}, key=key)
        elif present and key != KEY_EARLY_CONNECT:
            ctx.notes.append("guard missing but witness %s did not fail the oracle" % key)
    if partial:
        ctx.violation("oracle:C16.lifecycle", {"kind": "guard-probe", "oracle":
                      "connect requests are guarded on one entry point only (event vs interface call)",
                      "history": hist_json([(0, 0), (3, 0), (1, 0)]), "options": o0.as_dict(),
                      "guards": list(fixes)})

    # ---- 1b. the connecting window (partly outside the theorems' domain): no write unless the connection is up
    if model is not None:
        ow = Opts(True, False, True)
        n_win = 0
        for hist in gen_window_family():
            impl, _ = run_impl(mods, ow, hist, check_oracle=False)
            evals += 1
            n_win += 1
            bad = write_rule(impl)
            ms = [[i, m[1], m[2]] for i, m in
                  enumerate(model.call("run_hist", [ow.cfg(*fixes), [list(s) for s in hist]]))]
            diff = compare(ms, impl, strict=False)
            if bad is not None:
                small = list(hist)
                changed = True
                while changed and len(small) > 1:
                    changed = False
                    for i in range(len(small)):
                        cand = small[:i] + small[i + 1:]
                        ci, _ = run_impl(mods, ow, cand, check_oracle=False)
                        if write_rule(ci) is not None:
                            small, changed = cand, True
                            break
                ci, _ = run_impl(mods, ow, small, check_oracle=False)
                kk = write_rule(ci)
                ctx.violation("oracle:C16.no_write_unless_up",
                              {"kind": "window", "options": ow.as_dict(), "guards": list(fixes),
                               "history": hist_json(small), "oracle":
                               "at %s data was written to a dispatcher that is not connected (writes as (dispatcher, "
                               "its phase, bytes): %r): nothing may be written to a connection unless it is up"
                               % (NAMES[small[kk][0]], run_impl.last_writes),
                               "writes": [list(w) for w in run_impl.last_writes], "difference": None})
                break
            if diff is not None:
                mism += 1
                ctx.violation("correspondence:C16.step", {"kind": "window", "options": ow.as_dict(),
                              "guards": list(fixes), "history": hist_json(hist), "difference": diff,
                              "oracle": None}, found_input=False)
                break
        ctx.coverage["window_family_histories"] = n_win

    # ---- 2. in-domain histories: exhaustive to a length, then random
    all_opts = [Opts(r, p, g, s) for r in (True, False) for p in (False, True) for g in (True, False)
                for s in (True,)] + [Opts(False, False, True, False)]
    all_opts += [Opts(True, False, True, True, True), Opts(True, True, True, True, True),
                 Opts(False, False, True, True, True), Opts(True, False, False, True, True)]
    cases = []
    if model is not None:
        # reconnect bookkeeping: what happens to the automatic reconnect attempt, repeated failures, options
        fam = gen_reconnect_family(2 if ctx.tier == "quick" else 3)
        fam_opts = [Opts(True, False, True), Opts(False, False, True), Opts(False, True, False, False)]
        if ctx.tier != "quick":
            fam_opts.append(Opts(True, True, False))
        for o in fam_opts:
            cases += [("reconnect", o, h) for h in fam]
        ctx.coverage["reconnect_family_histories"] = len(cases)
        # passive login path through the axolotl control layer (prekeys never uploaded)
        pfam = gen_passive_family(1 if ctx.tier == "quick" else 2)
        pfam_opts = [Opts(True, False, True, True, True), Opts(False, True, True, True, True)]
        if ctx.tier != "quick":
            pfam_opts += [Opts(True, False, False, True, True), Opts(True, True, True, False, True)]
        n0 = len(cases)
        for o in pfam_opts:
            cases += [("passive", o, h) for h in pfam]
        ctx.coverage["passive_family_histories"] = len(cases) - n0
        n_fam = len(cases)
        exh_len = 4 if ctx.tier == "quick" else 5
        o = Opts(True, False, True)
        hs = enumerate_domain(model, o.cfg(*fixes), exh_len)
        cases += [("exh", o, h) for h in hs]
        ou = Opts(True, False, True, True, True)
        cases += [("exh", ou, h) for h in enumerate_domain(model, ou.cfg(*fixes), exh_len)]
        if ctx.tier == "thorough":
            o2 = Opts(False, True, True)
            cases += [("exh", o2, h) for h in enumerate_domain(model, o2.cfg(*fixes), 4)]
        ctx.coverage["exhaustive_len"] = exh_len
        ctx.coverage["exhaustive_histories"] = len(cases) - n_fam
        nrand = 1000 if ctx.tier == "quick" else 30000
        for i in range(nrand):
            o = rng.choice(all_opts)
            n = rng.choice([6, 10, 16, 24, 40])
            cases.append(("rand", o, gen_random(rng, n)))
        # scripted long runs: several full sessions with every way of ending one
        for o in all_opts:
            sess = []
            for end in ([(8, 1)], [(8, 0)], [(7, 0)], [(5, 0)], [(4, 0)], [(2, 0)], [(10, 0), (10, 0)],
                        [(10, 0), (9, 0), (10, 0), (9, 1), (10, 0), (10, 0)]):
                sess += [(0, 0), (3, 0), (6, 0), (11, 0)] + end + [(11, 0), (10, 0), (12, 0), (12, 0)]
            cases.append(("script", o, sess))
        filt = model.call_many("run_filter", [[o.cfg(*fixes), [list(s) for s in h]] for _, o, h in cases])
        for (kind, o, h), ms in zip(cases, filt):
            kept = [h[m[0]] for m in ms]
            key = (tuple(kept), tuple(sorted(o.as_dict().items())))
            if key in distinct and kind in ("rand", "reconnect", "passive"):
                continue
            impl, ofail = run_impl(mods, o, kept)
            evals += 1
            record(kept, o)
            diff = compare(ms, impl)
            if diff is not None or ofail is not None:
                report(kind, o, h, kept, diff, ofail)
                n_reports[0] += 1
                if len(ctx.violations) >= 5 or n_reports[0] >= 12:
                    break
            if evals % 499 == 0:
                ctx.add_sample({"options": o.as_dict(), "history": hist_json(kept)[:12],
                                "final_state": impl[-1][2] if impl else None})
        model.close()
        ctx.ties["correspondence"] = "ok" if mism == 0 else "broken"
    else:
        # no model: still run the oracle on the implementation with unfiltered random histories is not
        # meaningful (domain unknown); run the scripted sessions only
        for o in all_opts:
            h = [(0, 0), (3, 0), (6, 0), (10, 0), (9, 0), (8, 1), (12, 0), (3, 0), (6, 0), (8, 0), (12, 0)]
            impl, ofail = run_impl(mods, o, h)
            evals += 1
            if ofail is not None:
                ctx.violation("oracle:C16.lifecycle", {"kind": "script", "options": o.as_dict(),
                              "guards": list(fixes), "history": hist_json(h), "oracle": ofail})
    # the fake dispatcher's contract against the shipped dispatchers (real network layer, loopback sockets)
    evals += c16disp.check(ctx)
    if not ctx.proof_ok and not ctx.violations:
        ctx.tie_broken_without_input("theorem:" + ctx.failing_theorem(), ctx.ties.get("proof"))
    if model is None and not ctx.violations:
        ctx.tie_broken_without_input("model-build:C16", ctx.ties.get("model-build:C16"))
    ctx.coverage["evaluations"] = evals
    ctx.coverage["distinct_nontrivial"] = nontrivial
    ctx.coverage["distinct_histories"] = len(distinct)
    ctx.coverage["event_counts"] = kinds
    ctx.coverage["exhaustive"] = False
    return ctx.finish(
        rule="case = (options, in-domain event history); candidate histories are filtered by the model's own "
             "domain predicate; reconnect family (stream error of each kind, then every sequence of up to 2 quick / 3 "
             "thorough outcomes of the following connection attempts: socket error / peer close / disconnect request "
             "while CONNECTING, failing again, conflict, login failure, application reconnect; option on / off / "
             "unset), passive-login family (prekeys never uploaded: connect, connected, success = upload, up to 1 "
             "quick / 2 thorough events while it is unanswered - ticks, pongs given or withheld, data, a second "
             "success -, then result / error / no answer with peer close, socket error, stream error, disconnect "
             "request, failure, result followed by a tick, then the loop and keep-alive with and without pongs on "
             "the next connection, a failing reboot attempt, a second passive round), "
             "exhaustive over the 18-symbol alphabet up to the stated length (without and with unsent prekeys), seeded random "
             "histories of 6..40 candidate events over all option combinations, scripted multi-session runs; "
             "every step's observations (per observer: 4 probes of which P2/P3 are above the axolotl control layer, "
             "dispatcher calls incl. the set-keys upload, handshake starts, application "
             "entities, escaped exceptions) and state are compared with the extracted model; non-trivial = "
             "distinct (options, history) in which a connection came up",
        assumptions_text=ASSUME)


def replay(ctx, data):
    case = data["case"]
    if case.get("kind") == "dispatcher":
        c16rig.load_repo_mods(ctx.scratch)
        return c16disp.replay(case)
    if "history" not in case:
        print("nothing to replay:", json.dumps(case)[:400])
        return 1
    mods = c16rig.load_repo_mods(ctx.scratch)
    opts = Opts.from_dict(case["options"])
    hist = hist_from_json(case["history"])
    fixes = tuple(detect_fixes(mods)[:2])
    impl, ofail = run_impl(mods, opts, hist)
    if case.get("kind") == "window":
        ofail = None       # (partly outside the lifecycle oracle's domain: only the write rule is judged here)
    for sym, (en, obs, st) in zip(hist, impl):
        print("%-16s enabled=%s obs=%s state=%s" % (NAMES[sym[0]] + (":%d" % sym[1] if sym[0] in (8, 9) else ""),
                                                    en, obs, st))
    print("oracle on the implementation:", ofail)
    wr = write_rule(impl)
    print("writes (dispatcher, its phase at the write, bytes):", run_impl.last_writes)
    if wr is not None:
        print("no write unless the connection is up: violated at step %d (%s)" % (wr, NAMES[hist[wr][0]]))
        if case.get("kind") == "window":
            ofail = ofail or "write to a dispatcher that is not up"
    diff = None
    exe = ctx.build_model("C16")
    if exe:
        model = modelrun.Model(exe)
        ms = [[i, m[1], m[2]] for i, m in
              enumerate(model.call("run_hist", [opts.cfg(*fixes), [list(s) for s in hist]]))]
        diff = compare(ms, impl, strict=False)
        model.close()
        print("model (expected) per step:", [canon_model(m[1]) for m in ms])
        print("difference model/implementation:", diff)
    if case.get("kind") == "witness" and ofail is None:
        last = impl[-1][2]
        if last["ns"] == 2 and last["nz"] == 0:
            ofail = "late DISCONNECTED reset the login of the next connection"
    if ofail is not None or diff is not None:
        print("VIOLATION property=C16 replay=(replayed)")
        return 1
    return 0
