"""C18 — stack assembly and event propagation.

Model: coq/C18 (+ coq/Gen/C18Layers.v regenerated from the source on every run).
Implementation: yowsup.stacks.YowStack / YowStackBuilder, yowsup.layers.YowLayer / YowParallelLayer,
driven with recording layers at every position.
"""
import itertools, json, os, signal, time as _time
from .. import modelrun
from ..env import VERIF, REPO
from ..translators import c18_layers, stack_eval

CASE_TIMEOUT = 5                 # seconds; a case normally takes milliseconds

TAG0 = 1000                      # recorder tags start here; ids below are real layer classes
EV, EV2 = "c18.event", "c18.other"
KEY_GDS = "getDefaultStack: axolotl passed positionally into getDefaultLayers(groups=...)"

ASSUME = [
    "modelled: YowStack.__init__/_construct/addPostConstructLayer/getLayerInterface/send/receive/emitEvent/"
    "broadcastEvent/execDetached/loop, YowStackBuilder push/pop/pushDefaultLayers/build and the four default "
    "helpers, YowLayer.emitEvent/broadcastEvent/onEvent/toUpper/toLower, YowParallelLayer (method substitution, "
    "onEvent short-circuit, subEmitEvent/subBroadcastEvent, send/receive fan-out, getLayerInterface)",
    "layer behaviour is a parameter of every theorem (arbitrary consumer set, arbitrary one-directional data "
    "handlers); handlers that emit further events or bounce data back are outside the model",
    "tie: (a) fail-closed translator harness/translators/c18_layers.py regenerates the bodies of "
    "getCoreLayers/getProtocolLayers/getDefaultLayers/getDefaultStack and the tuple constants of "
    "stacks/__init__.py into coq/Gen/C18Layers.v, theorems re-checked against it: the ast transcription when the "
    "source is written in the recognised tuple-building fragment, cross-checked on every selection against the "
    "table of values the real helpers return (harness/translators/stack_eval.py: 16 module selections, axolotl "
    "on/off, no top layer / a class / an instance; every value is the first call of a fresh process), otherwise "
    "decision trees generated from that evaluated table; later calls in one process are compared with the "
    "first-call values (a difference is reported with the call sequence); (b) differential correspondence of the "
    "extracted model with the real classes on exhaustive small and random stack shapes",
    "evaluated-only path: the optional top layer is sampled (None, a YowLayer class, a YowLayer instance), the "
    "theorems quantify over any top layer; the transcription path covers it symbolically",
    "not modelled: threads (YowLayer.lock in toLower; see C12), the shared class-level queue being common to "
    "all YowStack objects, the 0.1 s sleep of loop(), props / profile handling, the real layers' behaviour",
]


# --------------------------------------------------------------------------------------------
# recording layers
# --------------------------------------------------------------------------------------------

class Iface(object):
    def __init__(self, val):
        self.val = val


CONS_RET = [True, 1, "stop"]
NONCONS_RET = [False, None, 0]


class World(object):
    def __init__(self):
        self.log = []
        self.consumers = set()
        self.tagof = {}          # id(instance) -> tag
        self.keep = []           # keep every object alive so ids stay unique
        self.send_tab, self.recv_tab = {}, {}

    def tag(self, inst):
        return self.tagof.get(id(inst), 0)

    def outs(self, inst, tab, d):
        codes = tab.get(self.tag(inst))
        if codes is None:
            return [d]
        return [d if a == 0 else d * 8 + a for a in codes]


def mk_class(c, info, W):
    from yowsup.layers import YowLayer, EventCallback
    ret_c, ret_n = CONS_RET[info["ret"] % 3], NONCONS_RET[info["ret"] % 3]
    iface = info["iface"]

    def seen(self, ev):
        W.log.append(W.tag(self))
        return ret_c if W.tag(self) in ev.getArg("cs") else ret_n

    def init(self):
        YowLayer.__init__(self)
        self.interface = Iface(iface) if iface is not None else None
        W.keep.append(self)

    def send(self, d):
        W.log.append((W.tag(self), d))
        for o in W.outs(self, W.send_tab, d):
            self.toLower(o)

    def receive(self, d):
        W.log.append((W.tag(self), d))
        for o in W.outs(self, W.recv_tab, d):
            self.toUpper(o)

    ns = {"__init__": init, "send": send, "receive": receive, "CID": c}
    handler = {}
    if info["kind"] in ("A", "a", "d"):
        handler["onEvent"] = seen                      # overrides YowLayer.onEvent: sees every event
    else:
        handler["on_c18"] = EventCallback(EV)(seen)    # goes through YowLayer.onEvent's name dispatch
    if info["kind"] in ("a", "b"):
        # the handler is INHERITED from a base class (as AxolotlBaseLayer's callbacks are by the three axolotl
        # layers): the layer class itself defines neither onEvent nor a callback
        base = type("RB%d" % c, (YowLayer,), handler)
        return type("R%d" % c, (base,), ns)
    if info["kind"] in ("d", "e"):
        # the layer SPECIALISES a concrete layer class that has been instantiated before it (a layer below it in
        # the stack, an earlier stack of the same process) and adds its handler there: whatever a layer class
        # remembers per class about its handlers must not leak from the base class to the subclass
        base = type("RC%d" % c, (YowLayer,), {})
        base()                                          # the base class is in use before the subclass exists
        cls = type("R%d" % c, (base,), dict(ns, **handler))
        base()
        return cls
    ns.update(handler)
    return type("R%d" % c, (YowLayer,), ns)


BAD_THINGS = [lambda: object(), lambda: 42, lambda: "layer", lambda: dict, lambda: None, lambda: []]


class Rig(object):
    """one real stack built from a case + the label of every instance"""

    def __init__(self, case):
        from yowsup.layers import YowParallelLayer
        from yowsup.stacks import YowStack
        self.case = case
        self.W = W = World()
        W.send_tab = {int(k): v for k, v in case["send_tab"].items()}
        W.recv_tab = {int(k): v for k, v in case["recv_tab"].items()}
        self.tagcls = {int(k): v for k, v in case["tagcls"].items()}
        self.classes = {int(c): mk_class(int(c), info, W) for c, info in case["classes"].items()}
        self.pre = {}
        objs = []
        for it in case["spec"]:
            k = it[0]
            if k == "C":
                objs.append(self.classes[self.tagcls[it[1]]])
            elif k == "I":
                inst = self.classes[self.tagcls[it[1]]]()
                self.pre[it[1]] = inst
                objs.append(inst)
            elif k == "T":
                objs.append(tuple(self.classes[self.tagcls[t]] for t in it[1]))
            elif k == "P":
                g = YowParallelLayer(tuple(self.classes[self.tagcls[t]] for t in it[1]))
                W.keep.append(g)
                self.pre[("P",) + tuple(it[1])] = g
                objs.append(g)
            else:
                objs.append(BAD_THINGS[it[1] % len(BAD_THINGS)]())
        arr = list(objs) if case.get("as_list") else tuple(objs)
        self.error = None
        self.stack = None
        try:
            if case["reversed"] is None:
                self.stack = YowStack(arr)
            else:
                self.stack = YowStack(arr, reversed=case["reversed"])
            for t in case["posts"]:
                inst = self.classes[self.tagcls[t]]()
                self.pre[t] = inst
                self.stack.addPostConstructLayer(inst)
        except (ValueError, IndexError) as e:
            self.error = type(e).__name__
            self.stack = None

    def describe(self, nmax=64):
        """per position: [0, cid] | [1, [cids]] read through getLayer / sublayers"""
        from yowsup.layers import YowParallelLayer
        out, insts = [], []
        for i in range(nmax):
            try:
                inst = self.stack.getLayer(i)
            except IndexError:
                break
            insts.append(inst)
            if isinstance(inst, YowParallelLayer):
                out.append([1, [getattr(s, "CID", -1) for s in inst.sublayers]])
            else:
                out.append([0, getattr(inst, "CID", -1)])
        self.insts = insts
        return out

    def label(self, slots):
        """give every instance the tag the model has at that position; returns identity problems"""
        from yowsup.layers import YowParallelLayer
        probs = []
        self.at = {}
        for i, sl in enumerate(slots):
            inst = self.insts[i]
            if sl[0] == 0:
                self.W.tagof[id(inst)] = sl[1]
                self.at[(i, None)] = inst
                if sl[1] in self.pre and self.pre[sl[1]] is not inst:
                    probs.append("instance passed for tag %d is not the instance at position %d" % (sl[1], i))
            else:
                self.at[(i, None)] = inst
                subs = inst.sublayers if isinstance(inst, YowParallelLayer) else ()
                for j, t in enumerate(sl[1]):
                    if j < len(subs):
                        self.W.tagof[id(subs[j])] = t
                        self.at[(i, j)] = subs[j]
                key = ("P",) + tuple(sl[1])
                if len(key) > 1 and key in self.pre and self.pre[key] is not inst:
                    probs.append("explicit YowParallelLayer is not the instance at position %d" % i)
        return probs

    # ---- operations
    def _event(self, name, det, cs):
        from yowsup.layers import YowLayerEvent
        cs = frozenset(cs)       # the consumer set travels with the event (deferred delivery!)
        return YowLayerEvent(name, detached=True, cs=cs) if det else YowLayerEvent(name, cs=cs)

    def run_op(self, op):
        W = self.W
        W.log = []
        k = op[0]
        try:
            if k == 0:
                _, i, m, up, det, cs = op[:6]
                name = op[6] if len(op) > 6 else EV
                layer = self.at[(i, m[0] if m else None)]
                ev = self._event(name, det, cs)
                (layer.emitEvent if up else layer.broadcastEvent)(ev)
                return [list(W.log)]
            if k == 1:
                _, up, det, cs = op[:4]
                name = op[4] if len(op) > 4 else EV
                ev = self._event(name, det, cs)
                (self.stack.emitEvent if up else self.stack.broadcastEvent)(ev)
                return [list(W.log)]
            if k == 2:
                loop_once(self.stack)
                return [list(W.log)]
            if k == 3:
                self.stack.send(op[1])
                return [[list(e) for e in W.log]]
            if k == 4:
                self.stack.receive(op[1])
                return [[list(e) for e in W.log]]
            if k == 5:
                _, i, up, d = op[:4]
                m = op[4] if len(op) > 4 else None
                layer = self.at[(i, m[0] if m else None)]
                (layer.toUpper if up else layer.toLower)(d)
                return [[list(e) for e in W.log]]
            if k == 6:
                res = self.stack.getLayerInterface(self.classes[op[1]]) if op[1] in self.classes \
                    else self.stack.getLayerInterface(type("Absent", (object,), {}))
                if len(op) > 2:   # the same question asked by a layer (through its stack reference)
                    via = self.at[(op[2][0], op[2][1])]
                    res2 = via.getLayerInterface(self.classes[op[1]]) if op[1] in self.classes else None
                    if op[1] in self.classes and res2 is not res:
                        return ["layer.getLayerInterface differs from stack.getLayerInterface"]
                return [res.val] if res is not None else []
        except (IndexError, AttributeError):
            return []            # the exceptions the model knows: empty stack, layer without a stack
        except Exception as e:   # anything else (RecursionError through cyclic wiring, ...) is a difference
            return ["exception:" + type(e).__name__]
        raise ValueError("bad op %r" % (op,))


class _StopLoop(Exception):
    pass


class _Hang(BaseException):
    pass


def _alarm(signum, frame):
    raise _Hang()


def loop_once(stack):
    """one iteration of the real YowStack.loop(): time.sleep is made to hand control back"""
    import time
    real = time.sleep

    def stop(_s):
        raise _StopLoop()
    time.sleep = stop
    try:
        stack.loop()
    except _StopLoop:
        pass
    finally:
        time.sleep = real


def drain_queue():
    from yowsup.stacks import YowStack
    q = getattr(YowStack, "_YowStack__detachedQueue", None)
    n = 0
    if q is not None:
        while True:
            try:
                q.get(False)
                n += 1
            except Exception:
                break
    return n


# --------------------------------------------------------------------------------------------
# the property, restated directly (independent of the Coq model) for the oracle
# --------------------------------------------------------------------------------------------

def to_slots(case):
    spec = case["spec"]
    rev = case["reversed"]
    if rev is None:
        rev = True
    seq = spec[::-1] if rev else spec
    out = []
    for it in seq:
        if it[0] in "CI":
            out.append([0, it[1]])
        elif it[0] in "TP":
            out.append([1, list(it[1])])
        else:
            return None
    if case["posts"]:
        if len(out) < 2:
            return None
        out += [[0, t] for t in case["posts"]]
    return out


def mem(sl):
    return [sl[1]] if sl[0] == 0 else list(sl[1])


def upto_first(cs, seq):
    out = []
    for x in seq:
        out.append(x)
        if x in cs:
            break
    return out


def visible(case, name, tags):
    """kind-B recorders hear only events named EV (YowLayer.onEvent's dispatch by name)"""
    if name == EV:
        return list(tags)
    return [t for t in tags if case["classes"][str(case["tagcls"][str(t)])]["kind"] in ("A", "a", "d")]


def oracle_event(case, slots, op, pending):
    """expected (seen now, seen when the loop runs) for an event op; None = outside the property's domain"""
    k = op[0]
    if k == 0:
        _, i, m, up, det, cs = op[:6]
        name = op[6] if len(op) > 6 else EV
        if case["posts"] and i >= len(slots) - len(case["posts"]) and det:
            return None
        path = slots[i + 1:] if up else slots[:i][::-1]
        pre = upto_first(cs, visible(case, name, mem(slots[i]))) if m else []
    else:
        _, up, det, cs = op[:4]
        name = op[4] if len(op) > 4 else EV
        if not slots or (case["posts"] and det and not up):
            return None
        path = slots if up else slots[::-1]
        first = visible(case, name, mem(path[0]))
        pre = upto_first(cs, first)
        if any(x in cs for x in first):
            return pre, None
        path = path[1:]
    cs = set(visible(case, name, cs))
    if not det or not path:
        return pre + upto_first(cs, visible(case, name, [x for s in path for x in mem(s)])), None
    first = visible(case, name, mem(path[0]))
    now = pre + upto_first(cs, first)
    if any(x in cs for x in first):
        return now, None
    return now, upto_first(cs, visible(case, name, [x for s in path[1:] for x in mem(s)]))


def oracle_data(case, path, tab, d):
    """level-wise restatement: per layer the list of data it must be entered with"""
    exp = {}
    inputs = [d]
    for sl in path:
        nxt = []
        for x in inputs:
            for m_ in mem(sl):
                codes = tab.get(str(m_), tab.get(m_))
                outs = [x] if codes is None else [x if a == 0 else x * 8 + a for a in codes]
                nxt += outs
        for m_ in mem(sl):
            exp[m_] = list(inputs)
        inputs = nxt
    return exp


def oracle_lookup(case, slots, c):
    """('val', v) when the property pins the answer, else None"""
    flat = [x for s in slots for x in mem(s)]
    tc = lambda t: case["tagcls"][str(t)]
    hits = [t for t in flat if tc(t) == c]
    if not hits:
        return ("val", None)
    first = hits[0]
    fi = case["classes"][str(c)]["iface"]
    if len(hits) == 1 or fi is not None:
        return ("val", fi)
    return None


# --------------------------------------------------------------------------------------------
# case generation
# --------------------------------------------------------------------------------------------

def new_case(rng, shape, reversed_, kinds=None, nclasses=None, dup_classes=False, posts=0, as_list=False,
             bad_at=None):
    """shape: list of widths, 0 = plain layer, w>0 = group of w members (w = -1: empty group)"""
    tag = itertools.count(TAG0 + 1)
    spec, tags = [], []
    for idx, w in enumerate(shape):
        if bad_at is not None and idx == bad_at:
            spec.append(["B", rng.randint(0, 5)])
            continue
        if w == 0:
            t = next(tag)
            tags.append(t)
            spec.append([(kinds[idx] if kinds else rng.choice("CI")), t])
        else:
            ts = [next(tag) for _ in range(max(w, 0))]
            tags += ts
            spec.append([(kinds[idx] if kinds else rng.choice("TP")), ts])
    ptags = [next(tag) for _ in range(posts)]
    alltags = tags + ptags
    ncls = nclasses or max(1, len(alltags))
    if dup_classes and len(alltags) > 1:
        ncls = rng.randint(1, max(1, len(alltags) - 1))
    classes = {str(c): {"kind": rng.choice("AABabde"), "iface": (None if rng.random() < .35 else 100 + c),
                        "ret": rng.randint(0, 2)} for c in range(1, ncls + 1)}
    if dup_classes:
        tagcls = {str(t): rng.randint(1, ncls) for t in alltags}
    else:
        tagcls = {str(t): (i % ncls) + 1 for i, t in enumerate(alltags)}
    return {"reversed": reversed_, "spec": spec, "posts": ptags, "classes": classes, "tagcls": tagcls,
            "send_tab": {}, "recv_tab": {}, "ops": [], "as_list": as_list}


def positions(slots):
    out = []
    for i, s in enumerate(slots):
        out.append((i, None))
        if s[0] == 1:
            out += [(i, [j]) for j in range(len(s[1]))]
    return out


def exhaustive_event_ops(slots):
    """every emitter position x direction x detached/normal x consumer in {none, each single layer}"""
    flat = [x for s in slots for x in mem(s)]
    ops = []
    for (i, m) in positions(slots):
        for up in (True, False):
            for det in (False, True):
                for cs in [[]] + [[t] for t in flat]:
                    ops.append([0, i, m, up, det, cs])
                    if det:
                        ops.append([2])
    for up in (True, False):
        for det in (False, True):
            for cs in [[]] + [[t] for t in flat]:
                ops.append([1, up, det, cs])
                if det:
                    ops.append([2])
    ops.append([2])
    return ops


def random_tabs(rng, case, slots):
    flat = [x for s in slots for x in mem(s)]
    for tabname in ("send_tab", "recv_tab"):
        tab = {}
        for t in flat:
            r = rng.random()
            if r < .45:
                tab[str(t)] = [0]
            elif r < .6:
                tab[str(t)] = []
            elif r < .8:
                tab[str(t)] = [rng.randint(1, 7)]
            elif r < .9:
                tab[str(t)] = [rng.randint(1, 7), 0]
            else:
                tab[str(t)] = [rng.randint(1, 7) for _ in range(rng.randint(2, 3))]
        case[tabname] = tab


def random_ops(rng, case, slots, n):
    flat = [x for s in slots for x in mem(s)]
    pos = positions(slots)
    ops, pend = [], 0

    def cons():
        r = rng.random()
        if r < .3 or not flat:
            return []
        if r < .8:
            return [rng.choice(flat)]
        return sorted(set(rng.choice(flat) for _ in range(rng.randint(2, 4))))
    for _ in range(n):
        r = rng.random()
        if r < .45 and pos:
            i, m = rng.choice(pos)
            det = rng.random() < .4
            ops.append([0, i, m, rng.random() < .5, det, cons(), EV if det or rng.random() < .8 else EV2])
            pend += det
        elif r < .55:
            det = rng.random() < .4
            ops.append([1, rng.random() < .5, det, cons(), EV if det or rng.random() < .8 else EV2])
            pend += det
        elif r < .65:
            ops.append([2])
        elif r < .75:
            ops.append([rng.choice([3, 4]), rng.randint(0, 3)])
        elif r < .85 and pos:
            i, m = rng.choice(pos)
            ops.append([5, i, rng.random() < .5, rng.randint(0, 3)] + ([m] if m else []))
        else:
            c = rng.randint(1, len(case["classes"]) + 1)
            op = [6, c]
            npre = len(slots) - len(case["posts"])
            vias = [(i, m) for (i, m) in pos if i < npre and (m is not None or slots[i][0] == 0)]
            if vias and rng.random() < .5:
                i, m = rng.choice(vias)
                op.append([i, m[0] if m else None])
            ops.append(op)
    ops += [[2]] * (pend + 1)
    return ops


def shapes_upto(depth, width):
    for d in range(0, depth + 1):
        for sh in itertools.product(range(0, width + 1), repeat=d):
            yield list(sh)


def gen_cases(ctx):
    rng = ctx.rng
    cases = []
    quick = ctx.tier == "quick"
    # (a) exhaustive small shapes, every emitter/consumer position, both order conventions
    D, Wd = (3, 2) if quick else (4, 3)
    for sh in shapes_upto(D, Wd):
        for rev in ((True, False) if len(sh) > 1 else (False,)):
            c = new_case(rng, sh, rev)
            sl = to_slots(c)
            random_tabs(rng, c, sl)
            c["ops"] = exhaustive_event_ops(sl) + [[3, 1], [4, 1]] + \
                [[6, k] for k in range(1, len(c["classes"]) + 2)]
            c["kind"] = "exhaustive"
            cases.append(c)
    ctx.coverage["exhaustive_scope"] = "all shapes depth<=%d, width<=%d, both orders; every emitter position x " \
        "direction x detached/normal x consumer in {none, each layer}" % (D, Wd)
    # (b) random shapes up to depth 8, groups of 0-5, duplicated classes, post-construct layers
    nrand = 400 if quick else 12000
    for _ in range(nrand):
        d = rng.choice([1, 2, 2, 3, 3, 4, 5, 6, 7, 8])
        sh = [rng.choice([0, 0, 0, 1, 2, 3, 4, 5, -1]) if rng.random() < .97 else 0 for _ in range(d)]
        rev = rng.choice([True, False, False, None])
        posts = rng.choice([0, 0, 0, 0, 1, 2])
        c = new_case(rng, sh, rev, dup_classes=rng.random() < .5, posts=posts, as_list=rng.random() < .2)
        sl = to_slots(c)
        if sl is None:
            c["ops"] = []
        else:
            random_tabs(rng, c, sl)
            c["ops"] = random_ops(rng, c, sl, rng.randint(4, 14))
        c["kind"] = "random"
        cases.append(c)
    # (c) property quantifier corner: depth 6 x width 4 all-group and all-plain stacks
    for sh in ([4] * 6, [0] * 6, [1] * 6, [4, 0, 4, 0, 4, 0]):
        for rev in (True, False):
            c = new_case(rng, sh, rev)
            sl = to_slots(c)
            random_tabs(rng, c, sl)
            ops = exhaustive_event_ops(sl)[:: (7 if quick else 1)]
            # the stride may have separated a detached op from its loop step: trailing loop steps drain
            ndet = sum(1 for o in ops if (o[0] == 0 and o[4]) or (o[0] == 1 and o[2]))
            c["ops"] = ops + [[2]] * (ndet + 1) + [[3, 0], [4, 0]]
            c["kind"] = "corner"
            cases.append(c)
    # (d) malformed: something that is not a layer somewhere in the spec; empty stacks; too few
    #     layers for addPostConstructLayer
    for _ in range(40 if quick else 600):
        d = rng.randint(1, 5)
        sh = [rng.choice([0, 0, 2]) for _ in range(d)]
        c = new_case(rng, sh, rng.choice([True, False]), bad_at=rng.randrange(d))
        c["kind"] = "malformed"
        cases.append(c)
    for posts in (1, 2):
        for sh in ([], [0], [2]):
            c = new_case(rng, sh, False, posts=posts)
            c["kind"] = "malformed"
            cases.append(c)
    c = new_case(rng, [], True)
    c["ops"] = [[1, True, False, []], [1, False, True, []], [3, 1], [4, 1], [6, 1], [2]]
    c["kind"] = "malformed"
    cases.append(c)
    return cases


# --------------------------------------------------------------------------------------------
# model encoding
# --------------------------------------------------------------------------------------------

def enc_item(it):
    k = it[0]
    if k == "C":
        return [0, it[1]]
    if k == "I":
        return [1, it[1]]
    if k == "T":
        return [2, list(it[1])]
    if k == "P":
        return [3, list(it[1])]
    return [4]


def enc_op(case, op):
    k = op[0]
    if k == 0:
        _, i, m, up, det, cs = op[:6]
        name = op[6] if len(op) > 6 else EV
        return [0, i, ([m[0]] if m else []), up, det, visible(case, name, cs)]
    if k == 1:
        _, up, det, cs = op[:4]
        name = op[4] if len(op) > 4 else EV
        return [1, up, det, visible(case, name, cs)]
    if k == 5:
        return [5, op[1], op[2], op[3]]
    if k == 6:
        return [6, op[1]]
    return list(op)


def enc_scenario(case, rev_default):
    rev = case["reversed"] if case["reversed"] is not None else rev_default
    cls_tab = [[int(t), c] for t, c in sorted(case["tagcls"].items())]
    iface_tab = [[int(t), case["classes"][str(c)]["iface"]] for t, c in sorted(case["tagcls"].items())
                 if case["classes"][str(c)]["iface"] is not None]
    st = [[int(t), v] for t, v in sorted(case["send_tab"].items())]
    rt = [[int(t), v] for t, v in sorted(case["recv_tab"].items())]
    return [rev, [enc_item(i) for i in case["spec"]], case["posts"], cls_tab, iface_tab, st, rt,
            [enc_op(case, o) for o in case["ops"]]]


def model_filter(case, op, out):
    """the model hears every layer; kind-B recorders do not log events of another name"""
    if op[0] in (0, 1) and out:
        name = (op[6] if len(op) > 6 else EV) if op[0] == 0 else (op[4] if len(op) > 4 else EV)
        return [visible(case, name, out[0])]
    return out


# --------------------------------------------------------------------------------------------
# running one scenario case on the implementation (+ oracle)
# --------------------------------------------------------------------------------------------

def shape_matches(desc, slots):
    return len(desc) == len(slots) and all(
        d[0] == s[0] and (d[0] == 0 or len(d[1]) == len(s[1])) for d, s in zip(desc, slots))


def impl_case(case, model_ws):
    """returns (layout description | None, outputs per op, rig, problems)"""
    drain_queue()
    outs, probs, desc, rig = [], [], None, None
    old = signal.signal(signal.SIGALRM, _alarm)
    signal.setitimer(signal.ITIMER_REAL, CASE_TIMEOUT)
    try:
        rig = Rig(case)
        if rig.stack is None:
            return None, [], rig, []
        desc = rig.describe()
        slots = [w[0] for w in model_ws] if model_ws else to_slots(case)
        if slots is None or not shape_matches(desc, slots):
            return desc, [], rig, ["the layout differs from the expected one; operations not run"]
        probs = rig.label(slots)
        for op in case["ops"]:
            outs.append(rig.run_op(op))
    except _Hang:
        outs.append(["hang: the call did not return within %d s (deadlock or endless loop)" % CASE_TIMEOUT])
    finally:
        signal.setitimer(signal.ITIMER_REAL, 0)
        signal.signal(signal.SIGALRM, old)
    return desc, outs, rig, probs


def model_desc(case, ws):
    tc = lambda t: case["tagcls"][str(t)]
    return [[0, tc(w[0][1])] if w[0][0] == 0 else [1, [tc(t) for t in w[0][1]]] for w in ws]


def oracle_case(case, desc, outs, skip_ops=False):
    """direct check of the property on what the implementation did; list of (what, detail)"""
    bad = []
    slots = to_slots(case)
    if slots is None:
        if desc is not None:
            bad.append(("construct", "a spec the library must refuse was accepted"))
        return bad
    if desc is None:
        bad.append(("construct", "a valid spec was refused"))
        return bad
    tc = lambda t: case["tagcls"][str(t)]
    exp_desc = [[0, tc(s[1])] if s[0] == 0 else [1, [tc(t) for t in s[1]]] for s in slots]
    if desc != exp_desc:
        bad.append(("order", {"expected": exp_desc, "observed": desc}))
        return bad
    if skip_ops:
        return bad
    if len(outs) < len(case["ops"]) or any(o and isinstance(o[0], str) and o[0].startswith(("hang", "exception"))
                                           for o in outs):
        idx = min(len(outs), len(case["ops"])) - 1
        bad.append(("working-stack", {"op_index": max(idx, 0), "op": case["ops"][max(idx, 0)],
                                      "observed": outs[-1] if outs else None}))
        return bad
    pending = []      # expected deferred sequences, FIFO
    for idx, (op, out) in enumerate(zip(case["ops"], outs)):
        k = op[0]
        if k in (0, 1):
            exp = oracle_event(case, slots, op, pending)
            if exp is None:
                continue
            now, later = exp
            if out != [now]:
                bad.append(("event", {"op_index": idx, "op": op, "expected": now, "observed": out}))
            if later is not None:
                pending.append(later)
        elif k == 2:
            exp = pending.pop(0) if pending else []
            if out != [exp]:
                bad.append(("deferred", {"op_index": idx, "expected": exp, "observed": out}))
        elif k in (3, 4, 5):
            if k == 3:
                path, tab, d = slots[::-1], case["send_tab"], op[1]
            elif k == 4:
                path, tab, d = slots, case["recv_tab"], op[1]
            else:
                i, up, d = op[1], op[2], op[3]
                path = slots[i + 1:] if up else slots[:i][::-1]
                tab = case["recv_tab"] if up else case["send_tab"]
            if not slots and k in (3, 4):
                continue
            exp = oracle_data(case, path, tab, d)
            got = {}
            if not out:
                bad.append(("data", {"op_index": idx, "op": op, "observed": "exception"}))
                continue
            for (t, x) in out[0]:
                got.setdefault(t, []).append(x)
            exp = {t: v for t, v in exp.items() if v}
            if got != exp:
                bad.append(("data", {"op_index": idx, "op": op, "expected_per_layer": exp,
                                     "observed_per_layer": got}))
        elif k == 6:
            if op[1] > len(case["classes"]):
                exp = ("val", None)
            else:
                exp = oracle_lookup(case, slots, op[1])
            if exp is not None:
                got = out[0] if out else None
                if isinstance(got, str) or got != exp[1]:
                    bad.append(("lookup", {"op_index": idx, "class": op[1], "expected": exp[1], "observed": got}))
    return bad


def shrink_ops(case, idx):
    """keep the failing op and what it depends on (earlier detached events feed later loop steps)"""
    op = case["ops"][idx]
    if op[0] != 2:
        return [op]
    return case["ops"][:idx + 1]


# --------------------------------------------------------------------------------------------
# default helpers
# --------------------------------------------------------------------------------------------

CORE = ["YowNetworkLayer", "YowNoiseSegmentsLayer", "YowNoiseLayer", "YowCoderLayer", "YowLoggerLayer"]
OPTIONAL = [("groups", "YowGroupsProtocolLayer"), ("media", "YowMediaProtocolLayer"),
            ("privacy", "YowPrivacyProtocolLayer"), ("profiles", "YowProfilesProtocolLayer")]


def names_of_layers(layers):
    from yowsup.layers import YowParallelLayer
    out = []
    for l in layers:
        if isinstance(l, YowParallelLayer):
            out.append([type(s).__name__ for s in l.sublayers])
        elif isinstance(l, tuple):
            out.append([c.__name__ for c in l])
        elif isinstance(l, type):
            out.append(l.__name__)
        else:
            out.append(type(l).__name__)
    return out


def walk_stack(stack, nmax=64):
    out = []
    for i in range(nmax):
        try:
            out.append(stack.getLayer(i))
        except IndexError:
            break
    return names_of_layers(out)


def expected_default(flags, top=None):
    """the property's wording: transport + encryption + basic ++ exactly the selected optional modules"""
    import yowsup.stacks.yowstack as ys
    basic = [c.__name__ for c in ys.YOWSUP_PROTOCOL_LAYERS_BASIC]
    sel = [cls for (f, cls) in OPTIONAL if flags[f]]
    out = CORE + ["AxolotlControlLayer", ["AxolotlSendLayer", "AxolotlReceivelayer"], basic + sel]
    return out + ([top] if top else [])


def model_names(info, items):
    cl = info["classes"]
    nm = lambda l: "Top" if l == 999 else cl.get(l, "?%d" % l)
    out = []
    for it in items:
        if it[0] in (0, 1):
            out.append(nm(it[1]))
        elif it[0] in (2, 3):
            out.append([nm(x) for x in it[1]])
        else:
            out.append("<bad>")
    return out


def check_stacks_independent(ctx):
    """several stacks assembled in one process by the default helpers with the SAME selection: each stack owns its
    layers; an event emitted in the first one is seen by the first one's layers only, also after the later ones were
    built (every flag combination is otherwise only looked at right after its own construction)"""
    from yowsup.stacks import YowStackBuilder, YowStack
    from yowsup.layers import YowLayer, YowLayerEvent, YowParallelLayer
    n = 0

    def mk_top():
        seen = []

        class RecTop(YowLayer):
            def onEvent(self, ev):
                seen.append(ev.getName())
                return False
        return RecTop, seen

    def instances(st):
        out = []
        for i in range(64):
            try:
                l = st.getLayer(i)
            except IndexError:
                break
            out.append(l)
            if isinstance(l, YowParallelLayer):
                out.extend(l.sublayers)
        return out

    builders = {
        "getDefaultStack": lambda top, fl: YowStackBuilder.getDefaultStack(layer=top, **fl),
        "getDefaultLayers+YowStack": lambda top, fl: YowStack(
            YowStackBuilder.getDefaultLayers(**{k: v for k, v in fl.items() if k != "axolotl"}) + (top,), reversed=False),
        "builder.pushDefaultLayers": lambda top, fl: YowStackBuilder().pushDefaultLayers().push(top).build(),
    }
    selections = [dict(axolotl=True, groups=True, media=True, privacy=True, profiles=True),
                  dict(axolotl=False, groups=True, media=False, privacy=True, profiles=False)]
    for how, build in sorted(builders.items()):
        for fl in selections:
            if how == "builder.pushDefaultLayers" and fl is not selections[0]:
                continue
            n += 1
            case = {"helper": how, "flags": fl, "scenario": "two stacks with the same selection, the first one used afterwards"}
            try:
                topA, seenA = mk_top()
                A = build(topA, fl)
                topB, seenB = mk_top()
                B = build(topB, fl)
                ia, ib = instances(A), instances(B)
                shared = sorted(set(type(x).__name__ for x in ia if any(x is y for y in ib)))
                foreign = sorted(set(type(x).__name__ for x in ia if x.getStack() is not A))
                bottomA = A.getLayer(0)
                below = []
                bottomA.onEvent = lambda ev, _b=below: _b.append(ev.getName()) or False
                bottomA.emitEvent(YowLayerEvent("c18.independent.up"))
                A.getLayer(len([1 for _ in range(64) if _ < 64 and _layer_exists(A, _)]) - 1).broadcastEvent(
                    YowLayerEvent("c18.independent.down"))
                problems = []
                if shared:
                    problems.append("layer instances shared by the two stacks: %s" % shared)
                if foreign:
                    problems.append("layers of the first stack that say they belong to another stack: %s" % foreign)
                if seenA.count("c18.independent.up") != 1:
                    problems.append("event emitted at the first stack's bottom seen %d times by its own top layer"
                                    % seenA.count("c18.independent.up"))
                if "c18.independent.up" in seenB or "c18.independent.down" in seenB:
                    problems.append("the second stack's top layer saw the first stack's events: %s" % seenB)
                if below.count("c18.independent.down") != 1:
                    problems.append("event broadcast from the first stack's top reached its bottom layer %d times"
                                    % below.count("c18.independent.down"))
                if problems:
                    ctx.violation("oracle:stacks_independent", dict(case, problems=problems))
            except Exception as e:
                ctx.violation("oracle:stacks_independent", dict(case, problems=["raised %s: %s" % (type(e).__name__, e)]))
    return n


def _layer_exists(stack, i):
    try:
        stack.getLayer(i)
        return True
    except IndexError:
        return False


def check_helpers(ctx, model, info):
    """all 32 flag combinations x top layer or not x three call styles, against the real helpers"""
    from yowsup.stacks import YowStackBuilder, YowStack
    from yowsup.layers import YowLayer
    import yowsup.stacks as stacks_pkg
    Top = type("Top", (YowLayer,), {})
    V, F = info["vars"], info["funs"]
    n_eval = 0
    fl_names = ["axolotl", "groups", "media", "privacy", "profiles"]
    first_gds = True
    n_rep = 0
    for vals in itertools.product([False, True], repeat=5):
        flags = dict(zip(fl_names, vals))
        for top in (None, Top):
            for style in ("kw", "pos", "kw-false-only"):
                case = {"helper": "getDefaultStack", "flags": flags, "top": bool(top), "style": style}
                try:
                    if style == "kw":
                        st = YowStackBuilder.getDefaultStack(layer=top, **flags)
                    elif style == "pos":
                        st = YowStackBuilder.getDefaultStack(top, *vals)
                    else:
                        kw = {k: v for k, v in flags.items() if v is False and k != "axolotl"}
                        if flags["axolotl"]:
                            kw["axolotl"] = True
                        if top:
                            kw["layer"] = top
                        st = YowStackBuilder.getDefaultStack(**kw)
                    got = walk_stack(st)
                    ok_stack = isinstance(st, YowStack)
                except Exception as e:
                    got, ok_stack = "%s: %s" % (type(e).__name__, e), False
                n_eval += 1
                exp = expected_default(flags, "Top" if top else None)
                oracle_bad = got != exp
                if oracle_bad:
                    case.update(expected=exp, observed=got)
                    n_rep += 1
                    if n_rep <= 2:
                        ctx.violation("oracle:getDefaultStack", case,
                                      key=KEY_GDS if isinstance(got, str) and "multiple values" in got else None)
                if model:
                    lv = [1, [0, 999]] if top else [1]
                    if style == "kw":
                        arg = [F["getDefaultStack"], [], [[V["layer"], lv]] + [[V[k], [0, flags[k]]] for k in fl_names]]
                    elif style == "pos":
                        arg = [F["getDefaultStack"], [lv] + [[0, v] for v in vals], []]
                    else:
                        kws = [[V[k], [0, False]] for k in fl_names[1:] if not flags[k]]
                        if flags["axolotl"]:
                            kws.append([V["axolotl"], [0, True]])
                        if top:
                            kws.append([V["layer"], lv])
                        arg = [F["getDefaultStack"], [], kws]
                    m = model.call("run_helper", arg)
                    if isinstance(m, list) and len(m) == 3 and m[0] == 1:
                        ws = model.call("run_construct", [bool(m[2]), m[1], []])
                        mgot = model_names(info, [[w[0][0] if w[0][0] == 0 else 3, w[0][1]] for w in ws[0]]) \
                            if ws else "construct refused"
                    else:
                        mgot = "exception"
                    igot = "exception" if isinstance(got, str) else got
                    if mgot != igot and not (oracle_bad and not first_gds):
                        case2 = dict(case, model=mgot, impl=got)
                        ctx.violation("correspondence:C18.getDefaultStack", case2, found_input=oracle_bad)
                first_gds = first_gds and not oracle_bad
    # getDefaultLayers / getProtocolLayers: 16 combinations, two call styles; getCoreLayers
    for vals in itertools.product([False, True], repeat=4):
        flags = dict(zip(fl_names[1:], vals))
        for fname in ("getDefaultLayers", "getProtocolLayers"):
            for style in ("kw", "pos"):
                f = getattr(YowStackBuilder, fname)
                try:
                    got = names_of_layers(f(**flags) if style == "kw" else f(*vals))
                except Exception as e:
                    got = "%s: %s" % (type(e).__name__, e)
                n_eval += 1
                exp = expected_default(flags)
                exp = exp if fname == "getDefaultLayers" else exp[-1]
                case = {"helper": fname, "flags": flags, "style": style}
                if got != exp:
                    ctx.violation("oracle:" + fname, dict(case, expected=exp, observed=got))
                if model:
                    arg = [F[fname], [], [[V[k], [0, flags[k]]] for k in fl_names[1:]]] if style == "kw" \
                        else [F[fname], [[0, v] for v in vals], []]
                    m = model.call("run_helper", arg)
                    mgot = model_names(info, m[1][1]) if isinstance(m, list) and len(m) == 2 and m[0] == 0 \
                        else "exception"
                    if mgot != (got if not isinstance(got, str) else "exception"):
                        ctx.violation("correspondence:C18." + fname, dict(case, model=mgot, impl=got),
                                      found_input=got != exp)
    got = names_of_layers(YowStackBuilder.getCoreLayers())
    if got != CORE:
        ctx.violation("oracle:getCoreLayers", {"helper": "getCoreLayers", "expected": CORE, "observed": got})
    if model:
        m = model.call("run_helper", [F["getCoreLayers"], [], []])
        mgot = model_names(info, m[1][1]) if isinstance(m, list) and len(m) == 2 else "exception"
        if mgot != got:
            ctx.violation("correspondence:C18.getCoreLayers", {"helper": "getCoreLayers", "model": mgot, "impl": got},
                          found_input=got != CORE)
    n_eval += 1
    # the tuple constants of yowsup/stacks/__init__.py, and YowStack(YOWSUP_FULL_STACK)
    if model:
        rv = {v: k for k, v in V.items()}
        for name_id, items in model.call("run_init_consts", []):
            name = rv.get(name_id, "?")
            real = getattr(stacks_pkg, name, None)
            mg = model_names(info, items)
            ig = names_of_layers(real) if real is not None else None
            n_eval += 1
            if mg != ig:
                ctx.violation("correspondence:C18.init_consts", {"constant": name, "model": mg, "impl": ig},
                              found_input=False)
    n_eval += check_stacks_independent(ctx)
    try:
        st = YowStack(stacks_pkg.YOWSUP_FULL_STACK)
        got = walk_stack(st)
        exp = CORE + [[c.__name__ for c in stacks_pkg.YOWSUP_PROTOCOL_LAYERS_FULL]]
    except Exception as e:
        got, exp = repr(e), None
    if got != exp:
        ctx.violation("oracle:YOWSUP_FULL_STACK", {"helper": "YowStack(YOWSUP_FULL_STACK)", "expected": exp,
                                                    "observed": got})
    return n_eval


def check_builder(ctx, model, info):
    """random push/pop/pushDefaultLayers sequences on the real builder vs the model"""
    from yowsup.stacks import YowStackBuilder
    from yowsup.layers import YowLayer, YowParallelLayer
    rng = ctx.rng
    pool = [type("B%d" % i, (YowLayer,), {}) for i in range(6)]
    n = 60 if ctx.tier == "quick" else 1500
    n_eval = 0
    for ci in range(n):
        b = YowStackBuilder()
        ops, mops, layers = [], [], []
        for _ in range(rng.randint(0, 9)):
            r = rng.random()
            if r < .5:
                k = rng.randrange(6)
                kind = rng.choice("CITP")
                if kind == "C":
                    b.push(pool[k]); mops.append([0, [0, TAG0 + k]]); layers.append("B%d" % k)
                elif kind == "I":
                    b.push(pool[k]()); mops.append([0, [1, TAG0 + k]]); layers.append("B%d" % k)
                else:
                    ks = [rng.randrange(6) for _ in range(rng.randint(1, 3))]
                    tup = tuple(pool[x] for x in ks)
                    b.push(tup if kind == "T" else YowParallelLayer(tup))
                    mops.append([0, [2 if kind == "T" else 3, [TAG0 + x for x in ks]]])
                    layers.append(["B%d" % x for x in ks])
                ops.append("push:" + kind)
            elif r < .8:
                b.pop(); mops.append([1]); ops.append("pop")
                layers = layers[:-1]
            else:
                b.pushDefaultLayers(); mops.append([2]); ops.append("pushDefaultLayers")
                layers = layers + expected_default({f: True for f, _ in OPTIONAL})
        try:
            got = walk_stack(b.build())
        except Exception as e:
            got = repr(e)
        n_eval += 1
        case = {"builder_ops": ops, "model_ops": mops}
        bad = got != layers
        if bad:
            ctx.violation("oracle:builder", dict(case, expected=layers, observed=got))
        if model:
            m = model.call("run_builder", mops)
            if m:
                cl = dict(info["classes"])
                cl.update({TAG0 + i: "B%d" % i for i in range(6)})
                mg = model_names({"classes": cl}, m[0])
            else:
                mg = "exception"
            if mg != got:
                ctx.violation("correspondence:C18.builder", dict(case, model=mg, impl=got), found_input=bad)
    return n_eval


# --------------------------------------------------------------------------------------------
# entry points
# --------------------------------------------------------------------------------------------

def run(ctx):
    t0 = _time.time()
    with c18_layers.GenLock():
        info = c18_layers.regenerate(have_lock=True, scratch=ctx.scratch)
        ctx.ties["translator:c18_layers"] = "ok" if (info["ok"] and not info["tie_problems"]) else \
            "broken: " + str(info["error"] or info["path"])
        ctx.coverage["translator_path"] = info["path"]
        ctx.coverage["helper_evaluation"] = info["eval"]
        ctx.notes.append("coq/Gen/C18Layers.v produced by: " + info["path"])
        # a helper whose value depends on earlier calls: concrete call sequence (replayable)
        for f in info["history_findings"][:3]:
            ctx.violation("oracle:helper-call-history", f)
        # the transcription and the evaluated table differ / the evaluation could not run
        for name, case in info["tie_problems"][:3]:
            ctx.violation(name, case, found_input=False)
        ctx.prove()
        exe = ctx.build_model("C18")
        model = modelrun.Model(exe) if exe else None
    rev_default = True
    if model:
        mi = model.call("run_info", [])
        rev_default = bool(mi[1])
    n_eval = 0
    # ---- helpers (all 32 combinations, exhaustive) and builder
    # with a broken translator the generated function table is a stub: only the oracle runs on the
    # helpers, and the broken tie is reported once (below)
    hmodel = model if info["ok"] else None
    try:
        n_eval += check_helpers(ctx, hmodel, info)
        n_eval += check_builder(ctx, hmodel, info)
    except Exception as e:
        # neither the transcription nor the evaluated table was usable (a helper raises, returns a non-layer, ...):
        # the in-process rigs may not survive such helpers either; the broken tie is reported below
        if info["ok"]:
            raise
        ctx.notes.append("helper rigs aborted on helpers the translator could not use: %s: %s" % (type(e).__name__, e))
    # ---- stack shapes
    cases = gen_cases(ctx)
    mouts = model.call_many("run_scenario", [enc_scenario(c, rev_default) for c in cases]) if model else None
    mws = model.call_many("run_construct", [[(c["reversed"] if c["reversed"] is not None else rev_default),
                                             [enc_item(i) for i in c["spec"]], c["posts"]] for c in cases]) \
        if model else None
    kinds, distinct, nontrivial, ops_total, mism = {}, set(), 0, 0, 0
    reported = {}
    for ci, case in enumerate(cases):
        kinds[case["kind"]] = kinds.get(case["kind"], 0) + 1
        ws = mws[ci][0] if (mws and mws[ci] and not isinstance(mws[ci], tuple)) else None
        desc, outs, rig, probs = impl_case(case, ws)
        n_eval += 1 + len(case["ops"])
        ops_total += len(case["ops"])
        obad = oracle_case(case, desc, outs, skip_ops=bool(probs))
        if probs and not obad:
            obad = [("identity", probs)]
        for what, detail in obad[:1]:
            if reported.get("o:" + what, 0) < 3:
                reported["o:" + what] = reported.get("o:" + what, 0) + 1
                c2 = dict(case)
                if isinstance(detail, dict) and "op_index" in detail:
                    c2["ops"] = shrink_ops(case, detail["op_index"])
                ctx.violation("oracle:" + what, {"stack_case": c2, "detail": detail})
        if model:
            m = mouts[ci]
            # construction
            if (desc is None) != (ws is None) or (ws is not None and desc != model_desc(case, ws)):
                mism += 1
                if reported.get("c:construct", 0) < 3:
                    reported["c:construct"] = reported.get("c:construct", 0) + 1
                    ctx.violation("correspondence:C18.construct",
                                  {"stack_case": dict(case, ops=[]), "model": model_desc(case, ws) if ws else None,
                                   "impl": desc}, found_input=bool(obad))
                continue
            if ws is None:
                continue
            mo = m[0] if (isinstance(m, list) and m) else []
            desc_sig = json.dumps(desc)
            for oi, op in enumerate(case["ops"]):
                mo_i = model_filter(case, op, mo[oi]) if oi < len(mo) else "missing"
                io_i = outs[oi] if oi < len(outs) else "missing"
                sig = (desc_sig, json.dumps(enc_op(case, op)))
                if sig not in distinct:
                    distinct.add(sig)
                    if mo_i and mo_i != "missing" and isinstance(mo_i[0], list) and len(mo_i[0]) >= 2:
                        nontrivial += 1
                if mo_i != io_i:
                    mism += 1
                    if reported.get("c:op%d" % op[0], 0) < 2:
                        reported["c:op%d" % op[0]] = reported.get("c:op%d" % op[0], 0) + 1
                        c2 = dict(case, ops=shrink_ops(case, oi))
                        ctx.violation("correspondence:C18.op", {"stack_case": c2, "op": op, "model": mo_i,
                                                                 "impl": io_i},
                                      found_input=any(isinstance(d, dict) and d.get("op_index") == oi
                                                      for _, d in obad))
                    break
            if isinstance(m, list) and len(m) == 2 and m[1] != 0:
                ctx.violation("correspondence:C18.queue", {"stack_case": case, "model_queue_left": m[1]},
                              found_input=False)
        if ci % 701 == 0 and desc is not None and case["ops"]:
            ctx.add_sample({"kind": case["kind"], "reversed": case["reversed"], "layout": desc,
                            "op": case["ops"][0], "observed": outs[0] if outs else None})
    left = drain_queue()
    if model:
        model.close()
        ctx.ties["correspondence"] = "ok" if mism == 0 and not [v for v in ctx.violations
                                                               if v["name"].startswith("correspondence")] else "broken"
    if not info["ok"] and not ctx.violations:
        ctx.tie_broken_without_input("translator:c18_layers", info["error"])
    if not ctx.proof_ok and not ctx.violations:
        ctx.tie_broken_without_input("theorem:" + ctx.failing_theorem(), ctx.ties.get("proof"))
    if model is None and not ctx.violations:
        ctx.tie_broken_without_input("model-build:C18", ctx.ties.get("model-build:C18"))
    ctx.coverage["evaluations"] = n_eval
    ctx.coverage["distinct_nontrivial"] = nontrivial
    ctx.coverage["distinct_cases"] = len(distinct)
    ctx.coverage["stack_cases"] = len(cases)
    ctx.coverage["stack_ops"] = ops_total
    ctx.coverage["case_kinds"] = kinds
    ctx.coverage["helper_flag_combinations"] = "getDefaultStack 32 x {no top, top} x {keyword, positional, " \
        "only-non-default keywords}; getDefaultLayers/getProtocolLayers 16 x {keyword, positional}; exhaustive"
    ctx.coverage["exhaustive"] = False
    return ctx.finish(
        rule="a case = (stack shape incl. order convention, operation); operations are layer-level and stack-level "
             "emit/broadcast (normal/detached, consumer set), loop iterations, send/receive/toUpper/toLower with "
             "per-layer handlers (swallow, pass, rewrite, split), getLayerInterface; distinct = distinct (layout, "
             "operation) pairs; non-trivial = the model's trace for it has >= 2 entries",
        assumptions_text=ASSUME)


def replay(ctx, data):
    case = data["case"]
    rc = 0
    if "helper_calls" in case:
        return stack_eval.replay_history(REPO, case, "C18", ctx.scratch)
    if "scenario" in case and "problems" in case:
        before = len(ctx.violations)
        check_stacks_independent(ctx)
        for v in ctx.violations[before:]:
            print("still fails:", json.dumps(v.get("data", v), default=str)[:600])
        if len(ctx.violations) > before:
            print("VIOLATION property=C18 replay=(replayed)")
            return 1
        print("every stack owns its layers now")
        return 0
    if "helper" in case and "syntactic" in case:
        _text, info = c18_layers.analyse(scratch=ctx.scratch)
        print("translator path now:", info["path"])
        for name, c in info["tie_problems"]:
            print("still differs:", json.dumps(c)[:600])
            rc = 1
    elif "helper" in case:
        from yowsup.stacks import YowStackBuilder
        from yowsup.layers import YowLayer
        h = case["helper"]
        try:
            if h == "getDefaultStack":
                top = type("Top", (YowLayer,), {}) if case.get("top") else None
                got = walk_stack(YowStackBuilder.getDefaultStack(layer=top, **case["flags"]))
                exp = expected_default(case["flags"], "Top" if top else None)
            elif h in ("getDefaultLayers", "getProtocolLayers"):
                got = names_of_layers(getattr(YowStackBuilder, h)(**case["flags"]))
                exp = expected_default(case["flags"])
                exp = exp if h == "getDefaultLayers" else exp[-1]
            else:
                got, exp = names_of_layers(YowStackBuilder.getCoreLayers()), CORE
        except Exception as e:
            got, exp = "%s: %s" % (type(e).__name__, e), case.get("expected")
        print("observed:", got)
        print("expected:", exp)
        rc = 1 if got != exp else 0
    elif "stack_case" in case:
        sc = case["stack_case"]
        desc, outs, rig, probs = impl_case(sc, None)
        bad = oracle_case(sc, desc, outs, skip_ops=bool(probs))
        if probs and not bad:
            bad = [("identity", probs)]
        print("layout observed:", desc)
        for op, out in zip(sc["ops"], outs):
            print("op", op, "->", out)
        if "model" in case:
            print("model said:", case["model"], " implementation said at the time:", case.get("impl"))
            if "op" in case and outs:
                now = outs[len(sc["ops"]) - 1] if len(outs) >= len(sc["ops"]) else None
                if now != case["model"]:
                    rc = 1
        for what, detail in bad:
            print("property oracle fails:", what, detail)
            rc = 1
    elif "builder_ops" in case:
        print("builder ops:", case["builder_ops"], "expected:", case.get("expected"), "observed then:",
              case.get("observed", case.get("impl")))
        rc = 1
    else:
        print("no failing input recorded:", json.dumps(case)[:600])
        rc = 1
    if rc:
        print("VIOLATION property=C18 replay=(replayed)")
    return rc
