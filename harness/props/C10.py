"""C10 — message payloads: attribute objects <-> protobuf bytes.

Model: coq/C10 (generic interpreter) + coq/Gen/C10Table.v (regenerated here from converter.py,
attributes_*.py and the proto descriptors).  Implementation: AttributesConverter,
ProtomessageProtocolEntity and the media entity classes.
"""
import os, json, struct, itertools
from .. import modelrun, env
from ..translators import c10_converter as tr

BASELINE = os.path.join(env.VERIF, "corpus", "C10", "baseline_table.json")

ASSUME = [
    "modelled: converter.py statement semantics (guards, assignment, MergeFrom into an unset sub-message, "
    "HasField/len/truthiness conditionals), attribute-class constructors (plain store, `x or []`, `if x:` with "
    "type assert, asserting setters), proto2 presence/defaults/type checks of the pure-python protobuf runtime",
    "modelled, not verified: protobuf SerializeToString/ParseFromString is the identity on well-typed messages "
    "(exercised for real on every case: the implementation side always goes through bytes)",
    "translator flattening (inlined tail-call chains and inlined DownloadableMediaMessageAttributes with dotted "
    "field names) is trusted and exercised by the correspondence",
    "domain: well-typed values (str for string, bytes for bytes, bool for bool, in-range int, declared enum "
    "number, finite float, float32-exact float for `float` fields, valid unicode); a Python bool passed for an "
    "int field, an int for a float field or UTF-8 bytes for a string field are accepted by protobuf but are "
    "outside the typed domain and not compared",
    "received payloads: wf_payload requires finite floats and declared enum numbers (protobuf keeps unknown enum numbers "
    "as unknown fields; NaN / infinities are accepted and compared at value level only); the payload generator follows "
    "the same notion and every generated payload is classified by the extracted wf_payload / lossy_payload / gap_payload; "
    "presence-equality of every modelled path is demanded of the implementation outside the PINNED lossy class "
    "(corpus/C10/baseline_table.json: fields the from-side reads without a presence test), value-equality and "
    "no-drop / no-alteration of present fields everywhere",
    "edit after parse: the model's objects are values (class + fields); the implementation's objects may carry more "
    "(cached payloads, access hooks): probed by name (state_probe) and exercised by assigning through the real setters "
    "on objects obtained by parsing; a setter may map None / empty to the empty value of the type, anything else a "
    "setter does beyond storing the value is reported",
    "the tie model<->code is the converter table (structure) plus differential testing (semantics); the table is "
    "obtained twice per run: transcribed from the source by the fail-closed ast translator and MEASURED on the running "
    "code by harness/translators/c10_measure.py (probes per converter / field / direction, the model's own table "
    "grammar fitted to the observations, nested converters checked compositionally); coverage.translator_path says "
    "which one produced coq/Gen/C10Table.v: 'syntactic+measured (agree)' or 'measured only (source shape not "
    "recognised: ...)'; trusted on the measured path: the probe plan and the Python mirror of the table semantics "
    "(both re-checked by running the extracted model against the real code on every generated case)",
]


# ------------------------------------------------------------------ value plumbing
class Rec(dict):
    """attribute object / proto message as {'@': class-or-type, field: value}"""


def f2bits(x):
    return struct.unpack(">Q", struct.pack(">d", x))[0]


def bits2f(b):
    return struct.unpack(">d", struct.pack(">Q", b))[0]


def to_sx(v, order=None):
    if v is None:
        return [0]
    if isinstance(v, bool):
        return [3, v]
    if isinstance(v, str):
        return [1, v.encode("utf-8", "surrogatepass")]
    if isinstance(v, int):
        return [2, 1 if v < 0 else 0, abs(v).to_bytes(16, "big")]
    if isinstance(v, (bytes, bytearray)):
        return [4, bytes(v)]
    if isinstance(v, float):
        return [5, struct.pack(">d", v)]
    if isinstance(v, (list, tuple)):
        return [6, [to_sx(x) for x in v]]
    if isinstance(v, dict):
        return [7, v["@"].encode(), [[k.encode(), to_sx(x)] for k, x in v.items() if k != "@"]]
    raise TypeError("cannot encode %r" % (v,))


def from_sx(s):
    tag = s[0]
    if tag == 0:
        return None
    if tag == 1:
        return s[1].decode("utf-8", "surrogatepass")
    if tag == 2:
        return -int.from_bytes(s[2], "big") if s[1] else int.from_bytes(s[2], "big")
    if tag == 3:
        return bool(s[1])
    if tag == 4:
        return s[1]
    if tag == 5:
        return struct.unpack(">d", s[1])[0]
    if tag == 6:
        return [from_sx(x) for x in s[1]]
    if tag == 7:
        r = Rec({"@": s[1].decode()})
        for k, x in s[2]:
            if k.decode() not in r:       # first match wins (newest write first)
                r[k.decode()] = from_sx(x)
        return r
    raise ValueError(s)


def pmsg_from_sx(s, mtype):
    return from_sx([7, mtype.encode(), s])


def norm(v):
    """type-strict, order-insensitive, hashable"""
    if v is None:
        return ("n",)
    if isinstance(v, bool):
        return ("B", v)
    if isinstance(v, str):
        return ("s", v)
    if isinstance(v, int):
        return ("i", v)
    if isinstance(v, (bytes, bytearray)):
        return ("b", bytes(v))
    if isinstance(v, float):
        return ("f", f2bits(v))
    if isinstance(v, (list, tuple)):
        return ("l", tuple(norm(x) for x in v))
    if isinstance(v, dict):
        return ("r", v.get("@"), frozenset((k, norm(x)) for k, x in v.items() if k != "@"))
    return ("?", repr(v))


def jsonable(v):
    if isinstance(v, (bytes, bytearray)):
        return {"$b": bytes(v).hex()}
    if isinstance(v, float):
        return {"$f": "%016x" % f2bits(v), "approx": repr(v)}
    if isinstance(v, (list, tuple)):
        return [jsonable(x) for x in v]
    if isinstance(v, dict):
        return {k: jsonable(x) for k, x in v.items()}
    return v


def unjson(v):
    if isinstance(v, list):
        return [unjson(x) for x in v]
    if isinstance(v, dict):
        if "$b" in v:
            return bytes.fromhex(v["$b"])
        if "$f" in v:
            return bits2f(int(v["$f"], 16))
        return Rec({k: unjson(x) for k, x in v.items()})
    return v


# ------------------------------------------------------------------ table helpers
def tab_to_json(tab):
    return json.loads(json.dumps(tab))


def load_baseline():
    return json.load(open(BASELINE))


def write_baseline(repo):
    """developer utility (never run by a check): pin the reviewed structure"""
    os.makedirs(os.path.dirname(BASELINE), exist_ok=True)
    json.dump(tab_to_json(tr.translate(repo)), open(BASELINE, "w"), indent=1, sort_keys=True)


class Info(object):
    """field kinds / required / aliases derived from a (baseline) table"""

    def __init__(self, tab):
        self.tab = tab
        self.convs = tab["convs"]
        self.schema = {m: dict((f, t) for f, t in fs) for m, fs in tab["schema"].items()}

    def fields(self, conv):
        return [f[0] for f in self.convs[conv]["from"]]

    def kind(self, conv, f):
        c = self.convs[conv]
        for s in c["to"]:
            if s["src"] == f:
                if s["kind"][0] == "KMerge":
                    return ("rec", s["kind"][1])
                t = self.schema.get(c["msg"], {}).get(s["pf"])
                if t is not None and t[0] == "FScalar" and s["kind"][0] == "KAssign":
                    return ("scalar", tuple(t[1]))
                if t is not None and t[0] == "FRepeated" and s["kind"][0] == "KAssignList":
                    return ("list", tuple(t[1]))
        for (ff, e, st, ck) in c["from"]:
            if ff == f:
                if e[0] in ("FConv", "FConvIfHas"):
                    return ("rec", e[1])
                if len(e) > 1:
                    t = self.schema.get(c["msg"], {}).get(e[1])
                    if t is not None and t[0] == "FScalar":
                        return ("scalar", tuple(t[1]))
                    if t is not None and t[0] == "FRepeated":
                        return ("list", tuple(t[1]))
        return ("opaque",)

    def required(self, conv):
        return [s["src"] for s in self.convs[conv]["to"] if s["guard"] == "GAlways"]

    def aliases(self, conv):
        by = {}
        for s in self.convs[conv]["to"]:
            by.setdefault(s["pf"], [])
            if s["src"] not in by[s["pf"]]:
                by[s["pf"]].append(s["src"])
        return [v for v in by.values() if len(v) > 1]


# ------------------------------------------------------------------ implementation side
_impl = {}


def impl():
    if not _impl:
        from yowsup.layers.protocol_messages.protocolentities.attributes import converter as cm
        _impl["mod"] = cm
        _impl["conv"] = cm.AttributesConverter.get()
    return _impl


def build_obj(info, conv, v):
    """Rec -> real attribute object (through the real constructors)"""
    if v is None:
        return None
    c = info.convs[conv]
    classes = info.tab["classes"]
    groups = {"": {}}
    for f, x in v.items():
        if f == "@":
            continue
        prefix, _, prop = f.rpartition(".")
        k = info.kind(conv, f)
        groups.setdefault(prefix, {})[prop] = build_obj(info, k[1], x) if (k[0] == "rec" and isinstance(x, dict)) else x
    for prefix in sorted([p for p in groups if p], key=lambda p: -p.count(".")):
        cls = c["inline"][prefix]
        obj = _construct(classes, cls, groups[prefix])
        pp, _, prop = prefix.rpartition(".")
        groups.setdefault(pp, {})[prop] = obj
    for prefix in c["inline"]:
        pp, _, prop = prefix.rpartition(".")
        if prop not in groups.get(pp, {}):
            groups.setdefault(pp, {})[prop] = None
    return _construct(classes, c["cls"], groups[""])


def _construct(classes, cls, props):
    p2p = {prop: param for (prop, param, st, ck) in classes[cls]["fields"]}
    kw = {p2p[k]: x for k, x in props.items() if k in p2p}
    return getattr(impl()["mod"], cls)(**kw)


def plain(x):
    if x is None or isinstance(x, (bool, int, str, bytes, float)):
        return x
    if hasattr(x, "__len__") and hasattr(x, "__getitem__") and not isinstance(x, dict) \
            and not hasattr(x, "DESCRIPTOR"):
        return [plain(y) for y in list(x)]
    return Rec({"@": "?" + type(x).__name__})


def canon(info, conv, obj):
    """real attribute object -> Rec (reads every property the table knows, in table order)"""
    if obj is None:
        return None
    out = Rec({"@": type(obj).__name__})
    for f in info.fields(conv):
        x = obj
        try:
            for part in f.split("."):
                x = getattr(x, part)
        except AttributeError:
            out[f] = Rec({"@": "?missing"})
            continue
        k = info.kind(conv, f)
        if k[0] == "rec" and x is not None and not isinstance(x, (bool, int, str, bytes, float, list)):
            out[f] = canon(info, k[1], x)
        else:
            out[f] = plain(x)
    return out


def pcanon(m):
    from google.protobuf.descriptor import FieldDescriptor as F
    out = Rec({"@": m.DESCRIPTOR.full_name})
    for fd, val in m.ListFields():
        if fd.type == F.TYPE_MESSAGE:
            out[fd.name] = [pcanon(x) for x in val] if fd.label == F.LABEL_REPEATED else pcanon(val)
        elif fd.label == F.LABEL_REPEATED:
            out[fd.name] = list(val)
        else:
            out[fd.name] = val
    return out


def exn_code(e):
    if isinstance(e, AttributeError):
        return 1
    if isinstance(e, AssertionError):
        return 3
    if isinstance(e, (TypeError, ValueError)):
        return 2
    return 9


def msg_class(mtype):
    from yowsup.layers.protocol_messages.proto import e2e_pb2, protocol_pb2
    parts = mtype.split(".")
    obj = getattr(e2e_pb2, parts[0], None) or getattr(protocol_pb2, parts[0])
    for p in parts[1:]:
        obj = getattr(obj, p)
    return obj


def real_to(info, conv, obj):
    try:
        return ("ok", pcanon(getattr(impl()["conv"], conv + "_to_proto")(obj)))
    except Exception as e:
        return ("exn", exn_code(e), type(e).__name__ + ": " + str(e)[:120])


def real_rt(info, conv, obj):
    """through bytes; the top-level message uses the public entry points"""
    c = impl()["conv"]
    try:
        if conv == "message":
            back = c.protobytes_to_message(c.message_to_protobytes(obj))
        else:
            p = getattr(c, conv + "_to_proto")(obj)
            q = type(p)()
            q.ParseFromString(p.SerializeToString())
            back = getattr(c, "proto_to_" + conv)(q)
        return ("ok", canon(info, conv, back))
    except Exception as e:
        return ("exn", exn_code(e), type(e).__name__ + ": " + str(e)[:120])


def build_proto(p):
    m = msg_class(p["@"])()
    from google.protobuf.descriptor import FieldDescriptor as F
    for k, x in p.items():
        if k == "@":
            continue
        fd = m.DESCRIPTOR.fields_by_name[k]
        if fd.type == F.TYPE_MESSAGE:
            getattr(m, k).MergeFrom(build_proto(x))
            getattr(m, k).SetInParent()
        elif fd.label == F.LABEL_REPEATED:
            getattr(m, k)[:] = x
        else:
            setattr(m, k, x)
    return m


def real_reser(info, conv, p):
    c = impl()["conv"]
    try:
        m = build_proto(p)
        q = type(m)()
        q.ParseFromString(m.SerializeToString())
        a = getattr(c, "proto_to_" + conv)(q)
        out = getattr(c, conv + "_to_proto")(a)
        r = type(out)()
        r.ParseFromString(out.SerializeToString())
        return ("ok", pcanon(r))
    except Exception as e:
        return ("exn", exn_code(e), type(e).__name__ + ": " + str(e)[:120])


# ------------------------------------------------------------------ oracles
FALSY_DEFAULTS = [("n",), ("s", ""), ("b", b""), ("i", 0), ("B", False), ("f", 0), ("l", ())]


def covers(sent, got, path=""):
    """-> None if every set field came back with the same value, else a description"""
    if sent is None:
        n = norm(got)
        if n in FALSY_DEFAULTS or (n[0] == "i"):     # enum default may be any declared number
            return None
        return "%s: unset field came back as %r" % (path or ".", got)
    if isinstance(sent, dict):
        if not isinstance(got, dict) or got.get("@") != sent.get("@"):
            return "%s: sent %s, got %r" % (path or ".", sent.get("@"), got if not isinstance(got, dict) else got.get("@"))
        for k, x in sent.items():
            if k == "@":
                continue
            if k not in got:
                return "%s.%s: missing" % (path, k)
            r = covers(x, got[k], path + "." + k)
            if r:
                return r
        return None
    if norm(sent) != norm(got):
        return "%s: sent %r, got %r" % (path or ".", sent, got)
    return None


def typed(info, conv, v):
    """well-typed per the (baseline) kinds, all nesting levels"""
    if not isinstance(v, dict):
        return False
    for f in info.fields(conv):
        if f not in v:
            return False
        x = v[f]
        if x is None:
            continue
        k = info.kind(conv, f)
        if k[0] == "rec":
            if not typed(info, k[1], x):
                return False
        elif k[0] == "scalar":
            if not fits(k[1], x):
                return False
        elif k[0] == "list":
            if not isinstance(x, list) or not all(fits(k[1], y) for y in x):
                return False
        else:
            return False
    return True


def f32_exact(x):
    if x != x or x in (float("inf"), float("-inf")):
        return False
    if x == 0.0:
        return True
    try:
        y = struct.unpack(">f", struct.pack(">f", x))[0]
    except OverflowError:
        return False
    return y == x and abs(x) >= 2.0 ** -126


def fits(t, x):
    k = t[0]
    if k == "TStr":
        if not isinstance(x, str):
            return False
        try:
            x.encode("utf-8")
            return True
        except UnicodeEncodeError:
            return False
    if k == "TBytes":
        return isinstance(x, bytes)
    if k == "TBool":
        return isinstance(x, bool)
    if k == "TInt":
        return isinstance(x, int) and not isinstance(x, bool) and t[1] <= x <= t[2]
    if k == "TEnum":
        return isinstance(x, int) and not isinstance(x, bool) and x in t[1]
    if k == "TDouble":
        return isinstance(x, float) and x == x and abs(x) != float("inf")
    if k == "TFloat":
        return isinstance(x, float) and f32_exact(x)
    return False


def reviewed_domain(info, conv, v):
    """the reviewed domain: typed + required fields present + aliased fields equal (baseline table)"""
    if not typed(info, conv, v):
        return False
    for f in info.required(conv):
        if v.get(f) is None:
            return False
    for al in info.aliases(conv):
        vals = [norm(v.get(f)) for f in al]
        if any(x != vals[0] for x in vals) or vals[0] == ("n",):
            return False
    for f in info.fields(conv):
        k = info.kind(conv, f)
        if k[0] == "rec" and v[f] is not None and not reviewed_domain(info, k[1], v[f]):
            return False
    return True


def finding_key(conv, sent, why):
    """specific keys for the defects known at design time (all repaired by fixes/C10-*.patch)"""
    def walk(c, v):
        if not isinstance(v, dict):
            return None
        if v.get("@") == "MessageAttributes" and v.get("conversation") == "":
            return "message.conversation=''"
        if v.get("@") == "LocationAttributes" and v.get("axolotl_sender_key_distribution_message") is not None:
            return "location.axolotl_sender_key_distribution_message"
        if v.get("@") == "AudioAttributes" and v.get("streaming_sidecar") is not None:
            return "audio.streaming_sidecar"
        for k, x in v.items():
            r = walk(None, x)
            if r:
                return r
        return None
    return walk(conv, sent)


# ------------------------------------------------------------------ generators
STRS = ["", "a", "héllo wörld", "日本語テキスト", "emoji \U0001F600 ✓",
        "x" * 300, "line\nbreak\x00nul", "0", "None"]

STRS_X = [
    # strings any "helpful" normalisation alters: decomposed accents (NFD, as macOS file names), compatibility
    # characters (NFC / NFKC), case, surrounding blanks, zero-width characters, CR/LF, numeric look-alikes
        "re\u0301sume\u0301.pdf", "\u212b\u2126 \uf900", "\ufb01le \u2460", "\u0130stanbul Stra\u00dfe \u01c5",
        "  padded  ", "zero\u200dwidth\u200b\ufeff", "MiXeD.Case.TXT", "cr\r\nlf\ttab", "+0049 (0)151 007", "\u0660\u0661\u0662"]
# binary values past the sizes a "sanity limit" would pick (inline thumbnails, keys, sidecars are opaque bytes)
BYTESS_X = [bytes(range(256)) * 257, b"\xff" * 65536, b"\x89PNG" + b"\x00" * 100000]
EXTENDED = [True]     # the pinned probes (Gen/C10Probes.v) are drawn from the original pool only
BYTESS = [b"", b"\x00", b"\xff\xd8\xff\xe0" + bytes(range(256)), bytes(range(32)), b"\x80\x81", b"0"]
DOUBLES = [0.0, -0.0, 1.5, -122.084095, 37.421998, 1e300, 5e-324, -90.0]
FLOATS = [0.0, -0.0, 0.5, -2.25, 3.0, 1.0e10, 65504.0]
LISTS = [[], ["a@s.whatsapp.net"], ["a@s.whatsapp.net", "", "ü@g.us"]]


def pool(k):
    if k[0] == "list":
        return LISTS
    t = k[1]
    if t[0] == "TStr":
        return STRS + STRS_X if EXTENDED[0] else STRS
    if t[0] == "TBytes":
        return BYTESS + BYTESS_X if EXTENDED[0] else BYTESS
    if t[0] == "TBool":
        return [False, True]
    if t[0] == "TInt":
        return [0, 1, 7, t[2], t[2] - 1] + ([2 ** 31] if t[2] > 2 ** 31 else [])
    if t[0] == "TEnum":
        return list(t[1])
    if t[0] == "TDouble":
        return DOUBLES
    if t[0] == "TFloat":
        return FLOATS
    return [None]


class Gen(object):
    def __init__(self, info, rng):
        self.info, self.rng = info, rng

    def value(self, conv, f, depth, falsy_bias=0.35):
        k = self.info.kind(conv, f)
        if k[0] == "rec":
            return self.obj(k[1], depth - 1) if depth > 0 else None
        if k[0] == "opaque":
            return self.rng.choice(BYTESS)
        p = pool(k)
        if self.rng.random() < falsy_bias:
            return p[0]
        return self.rng.choice(p)

    def cls(self, conv):
        return self.info.convs[conv]["cls"]

    def obj(self, conv, depth, subset=None, fixed=None, p_set=0.5):
        """subset: optional fields to set (None = random); fixed: {field: value} overrides"""
        info = self.info
        req = set(info.required(conv))
        v = Rec({"@": self.cls(conv)})
        for f in info.fields(conv):
            k = info.kind(conv, f)
            if f in req:
                x = self.value(conv, f, max(depth, 1))
            elif (subset is None and self.rng.random() < p_set) or (subset is not None and f in subset):
                x = self.value(conv, f, depth)
                if x is None and k[0] == "rec" and subset is not None and depth >= 0:
                    x = self.obj(k[1], 0, p_set=0.3)
            else:
                x = None
            v[f] = x
        for al in info.aliases(conv):        # aliased attributes: mostly equal
            if all(v.get(f) is not None for f in al) and self.rng.random() < 0.8:
                for f in al[1:]:
                    v[f] = v[al[0]]
        if fixed:
            v.update(fixed)
        return v

    def optional(self, conv):
        req = set(self.info.required(conv))
        return [f for f in self.info.fields(conv) if f not in req]

    def quoted_chain(self, depth):
        """message -> extended_text -> context_info -> quoted_message -> ... (depth quoted levels)"""
        inner = self.obj("message", 0, subset={"conversation"}, fixed={"conversation": self.rng.choice(STRS[1:])})
        kinds = ["extended_text", "image", "contact", "video", "document", "audio", "sticker"]
        for d in range(depth):
            ci = self.obj("contextinfo", 0, subset={"stanza_id", "participant", "mentioned_jid"},
                          fixed={"quoted_message": inner})
            fld = kinds[(d + self.rng.randrange(len(kinds))) % len(kinds)]
            k = self.info.kind("message", fld)[1]
            cif = [f for f in self.info.fields(k) if f.endswith("context_info")][0]
            sub = self.obj(k, 0, subset={cif}, fixed={cif: ci})
            inner = self.obj("message", 0, subset={fld}, fixed={fld: sub})
        return inner


def gen_cases(info, rng, tier):
    """-> list of (stream, conv, Rec)"""
    g = Gen(info, rng)
    cases = []
    exh_limit = 10 if tier == "quick" else 12
    stats = {"exhaustive_types": [], "pairwise_types": []}
    for conv in info.convs:
        opt = g.optional(conv)
        # (a) optional-field subsets
        if len(opt) <= exh_limit:
            stats["exhaustive_types"].append("%s(%d)" % (conv, len(opt)))
            subsets = [set(c) for r in range(len(opt) + 1) for c in itertools.combinations(opt, r)]
        else:
            stats["pairwise_types"].append("%s(%d)" % (conv, len(opt)))
            subsets = [set(), set(opt)] + [{f} for f in opt] + [set(opt) - {f} for f in opt]
            for a, b in itertools.combinations(opt, 2):
                rest = [f for f in opt if f not in (a, b)]
                for sa in (0, 1):
                    for sb in (0, 1):
                        s = {f for f in rest if rng.random() < 0.5}
                        if sa:
                            s.add(a)
                        if sb:
                            s.add(b)
                        subsets.append(s)
        for s in subsets:
            cases.append(("subset", conv, g.obj(conv, 1, subset=s)))
        # (b) boundary sweep: every field x every boundary value, others unset
        for f in info.fields(conv):
            k = info.kind(conv, f)
            if k[0] in ("scalar", "list"):
                for b in pool(k):
                    cases.append(("boundary", conv, g.obj(conv, 0, subset={f}, fixed={f: b})))
            elif k[0] == "opaque":
                for b in (None, b"", b"\x01\x02"):
                    cases.append(("boundary", conv, g.obj(conv, 0, subset=set(), fixed={f: b})))
            else:
                cases.append(("boundary", conv, g.obj(conv, 0, subset={f}, fixed={f: g.obj(k[1], 0, subset=set())})))
        # (c) aliases unequal (outside the reviewed domain, correspondence only)
        for al in info.aliases(conv):
            v = g.obj(conv, 0, subset=set(al))
            kk = info.kind(conv, al[0])
            v[al[0]], v[al[1]] = pool(kk)[1], pool(kk)[2]
            cases.append(("alias", conv, v))
        # (d) malformed: one required field None; ill-typed values protobuf rejects
        for f in info.required(conv):
            cases.append(("malformed", conv, g.obj(conv, 0, subset=set(), fixed={f: None})))
        for f in info.fields(conv):
            k = info.kind(conv, f)
            if k[0] != "scalar":
                continue
            t = k[1]
            bad = None
            if t[0] == "TBytes":
                bad = "text"
            elif t[0] == "TInt":
                bad = rng.choice([t[2] + 1, t[1] - 1])
            elif t[0] == "TEnum":
                bad = max(t[1]) + 5
            elif t[0] == "TStr":
                bad = 5
            elif t[0] == "TBool":
                bad = "yes"
            if bad is not None:
                cases.append(("malformed", conv, g.obj(conv, 0, subset={f}, fixed={f: bad})))
    # (e) nesting: quoted messages / context info to depth 3 (quick) or 5 (thorough)
    for d in range(1, (4 if tier == "quick" else 6)):
        for _ in range(8 if tier == "quick" else 60):
            cases.append(("nested", "message", g.quoted_chain(d)))
    # (f) random deep objects
    for _ in range(300 if tier == "quick" else 8000):
        conv = rng.choice(list(info.convs))
        cases.append(("random", conv, g.obj(conv, rng.choice([0, 1, 2, 3]), p_set=rng.choice([0.2, 0.5, 0.9]))))
    return cases, stats


def gen_protos(info, rng, tier):
    """well-formed received payloads: any field of the schema may be present (incl. unmodelled ones)"""
    out = []

    def pm(mtype, depth):
        p = Rec({"@": mtype})
        for f, t in info.tab["schema"].get(mtype, []):
            if rng.random() < 0.5:
                continue
            if t[0] == "FScalar":
                p[f] = rng.choice(pool(("scalar", tuple(t[1]))))
            elif t[0] == "FRepeated":
                x = rng.choice(LISTS) if t[1][0] == "TStr" else []
                if x:
                    p[f] = x
            elif t[0] == "FMsg" and t[1] in info.tab["schema"] and depth > 0:
                p[f] = pm(t[1], depth - 1)
        return p
    n = 40 if tier == "quick" else 600
    for conv, c in info.convs.items():
        out.append((conv, Rec({"@": c["msg"]})))
        for _ in range(n):
            out.append((conv, pm(c["msg"], rng.choice([0, 1, 2, 3]))))
    return out


def modelled_equal(info, conv, p, q, path=""):
    """every field the from-side reads has the same value (with proto defaults) in p and q"""
    c = info.convs[conv]
    sch = info.schema.get(c["msg"], {})
    seen = set()
    for (f, e, st, ck) in c["from"]:
        if len(e) < 2:
            continue
        pf = e[2] if e[0] in ("FConv", "FConvIfHas") else e[1]
        if pf in seen:
            continue
        seen.add(pf)
        t = sch.get(pf)
        if t is None:
            continue
        if t[0] == "FMsg":
            a, b = p.get(pf), q.get(pf)
            if e[0] == "FConvIfHas" and (a is None) != (b is None):
                return "%s.%s: presence changed" % (path, pf)
            if a is not None or b is not None:
                r = modelled_equal(info, e[1], a or Rec({"@": t[1]}), b or Rec({"@": t[1]}), path + "." + pf)
                if r:
                    return r
        else:
            d = None
            if t[0] == "FScalar":
                tt = t[1][0]
                d = {"TStr": "", "TBytes": b"", "TBool": False, "TInt": 0, "TDouble": 0.0, "TFloat": 0.0}.get(tt)
                if tt == "TEnum":
                    d = t[1][1][0]
            else:
                d = []
            a, b = p.get(pf, d), q.get(pf, d)
            if norm(a) != norm(b):
                return "%s.%s: %r became %r" % (path, pf, a, b)
    return None



# ------------------------------------------------------------------ received payloads from the model's wf notion
# (coq/C10/C10Payload.v: wf_payload / lossy_payload / gap_payload / pread_at / modelled_path)
PDEFAULT = {"TStr": "", "TBytes": b"", "TBool": False, "TInt": 0, "TDouble": 0.0, "TFloat": 0.0}


def sdefault(t):
    return t[1][0] if t[0] == "TEnum" else PDEFAULT[t[0]]


class PGen(object):
    """payload generator following wf_payload: declared fields, typed values, non-empty repeated fields, nested
    sub-messages of the declared type; the structure (which proto field is read how) comes from the pinned baseline"""

    def __init__(self, info, rng):
        self.info, self.rng = info, rng
        self.reads = {}
        for conv, c in info.convs.items():
            r = {}
            for (f, e, st, ck) in c["from"]:
                if e[0] in ("FField", "FIfHas", "FIfTruthy", "FListOrEmpty"):
                    how, pf, sub = ("plain" if e[0] == "FField" else "has"), e[1], None
                elif e[0] in ("FConv", "FConvIfHas"):
                    how, pf, sub = ("plain" if e[0] == "FConv" else "has"), e[2], e[1]
                else:
                    continue
                old = r.get(pf)
                r[pf] = ["plain" if (how == "plain" or (old and old[0] == "plain")) else "has", sub or (old and old[1])]
            self.reads[conv] = r

    def lossy(self, conv, p):
        """Python mirror of lossy_payload on the PINNED structure: some field that the from-side reads without a
        presence test (scalar or sub-message) is absent, at any nesting level the library models"""
        sch = dict((f, t) for f, t in self.info.tab["schema"].get(self.info.convs[conv]["msg"], []))
        for pf, (how, sub) in self.reads[conv].items():
            t = sch.get(pf)
            if t is None:
                continue
            if pf not in p:
                if how == "plain" and t[0] in ("FScalar", "FMsg"):
                    return True
            elif sub and sub in self.info.convs and isinstance(p[pf], dict) and self.lossy(sub, p[pf]):
                return True
        return False

    def scalar(self, t, mode="any"):
        pl = pool(("scalar", tuple(t)))
        if mode == "default":
            return sdefault(t)
        if mode == "nondefault":
            return next((x for x in reversed(pl) if x != sdefault(t) and x), pl[-1])
        return self.rng.choice(pl)

    def msg(self, conv, depth, mode="random", p_set=0.5, hard=6):
        """mode random: every declared field present with probability p_set;
        complete: additionally every field the from-side reads WITHOUT a presence test is present (so the payload is
        outside the lossy class); complete+defaults: additionally every modelled scalar is present, the presence-tested
        ones with their proto default ('' / b'' / 0 / 0.0 / False): the classic truthiness-drop probe"""
        info, rng = self.info, self.rng
        c = info.convs[conv]
        p = Rec({"@": c["msg"]})
        reads = self.reads[conv]
        for f, t in info.tab["schema"].get(c["msg"], []):
            how = reads.get(f)
            present = rng.random() < p_set
            forced = False
            if mode != "random" and how and how[0] == "plain":
                present = forced = True
            if t[0] == "FScalar":
                if mode == "complete+defaults" and how:
                    p[f] = self.scalar(t[1], "default" if how[0] == "has" else "any")
                elif present:
                    p[f] = self.scalar(t[1])
            elif t[0] == "FRepeated":
                if present and t[1][0] == "TStr":
                    p[f] = rng.choice(LISTS[1:])
            elif t[0] == "FMsg":
                if how and how[1] and how[1] in info.convs:
                    if (forced and hard > 0) or (present and depth > 0):
                        p[f] = self.msg(how[1], depth - 1, mode, p_set, hard - 1)
                elif not how and present and rng.random() < 0.3:
                    p[f] = Rec({"@": t[1]})         # an unmodelled sub-message, present and empty
        return p

    def chain(self, depth, mode="complete"):
        """Message -> X{context_info{quoted_message -> ...}}: nested quoted payloads"""
        rng = self.rng
        inner = Rec({"@": "Message", "conversation": rng.choice(STRS)})
        carriers = [("extended_text_message", "extendedtext"), ("image_message", "image"),
                    ("video_message", "video"), ("contact_message", "contact"), ("document_message", "document")]
        for d in range(depth):
            fld, conv = carriers[(d + rng.randrange(len(carriers))) % len(carriers)]
            if conv not in self.info.convs:
                fld, conv = carriers[0]
            sub = self.msg(conv, 0, mode, 0.4)
            ci = self.msg("contextinfo", 0, mode, 0.5)
            ci["quoted_message"] = inner
            sub["context_info"] = ci
            inner = Rec({"@": "Message", fld: sub})
        return inner


def gen_wf_payloads(info, rng, tier):
    """-> list of (stream, conv, Rec payload)"""
    g = PGen(info, rng)
    out = []
    n = 30 if tier == "quick" else 500
    for conv, c in info.convs.items():
        out.append(("empty", conv, Rec({"@": c["msg"]})))
        for _ in range(n):
            out.append(("random", conv, g.msg(conv, rng.choice([0, 1, 2, 3]), "random", rng.choice([0.2, 0.5, 0.9]))))
        for _ in range(n // 2):
            out.append(("complete", conv, g.msg(conv, rng.choice([0, 1, 2, 3]), "complete", rng.choice([0.3, 0.7]))))
        for _ in range(3 if tier == "quick" else 20):
            out.append(("complete+defaults", conv, g.msg(conv, rng.choice([0, 1, 2]), "complete+defaults", 0.5)))
        # one modelled scalar alone: present with its default, present with another value
        for f, t in info.tab["schema"].get(c["msg"], []):
            if t[0] == "FScalar" and f in g.reads[conv]:
                out.append(("single-default", conv, Rec({"@": c["msg"], f: sdefault(t[1])})))
                out.append(("single-value", conv, Rec({"@": c["msg"], f: g.scalar(t[1], "nondefault")})))
    if "message" in info.convs and "contextinfo" in info.convs:
        for d in range(1, (4 if tier == "quick" else 6)):
            for _ in range(4 if tier == "quick" else 40):
                out.append(("quoted-chain", "message", g.chain(d)))
    # outside wf_payload (nothing is claimed, only compared at value level): non-finite floats
    if "location" in info.convs:
        for x in (float("inf"), float("-inf"), float("nan")):
            out.append(("not-wf", "location", Rec({"@": info.convs["location"]["msg"], "degrees_latitude": x,
                                                   "name": "n"})))
    return out


def real_reser_msgs(conv, p):
    """build the payload, go through bytes, parse, re-serialise, parse again -> (bytes0, m0, bytes1, m1)"""
    c = impl()["conv"]
    try:
        m = build_proto(p)
        b0 = m.SerializeToString()
        m0 = type(m)()
        m0.ParseFromString(b0)
        if conv == "message":
            b1 = c.message_to_protobytes(c.protobytes_to_message(b0))
        else:
            b1 = getattr(c, conv + "_to_proto")(getattr(c, "proto_to_" + conv)(m0)).SerializeToString()
        m1 = type(m)()
        m1.ParseFromString(b1)
        return ("ok", b0, m0, b1, m1)
    except Exception as e:
        return ("exn", exn_code(e), type(e).__name__ + ": " + str(e)[:160])


def real_pread(m, path, with_defaults=False):
    """pread_at on a real protobuf message: presence-aware (HasField / non-empty repeated); a sub-message at the end
    of the path reads as a presence marker.  with_defaults: what `m.a.b.c` evaluates to (proto defaults)"""
    from google.protobuf.descriptor import FieldDescriptor as F
    for i, f in enumerate(path):
        fd = m.DESCRIPTOR.fields_by_name.get(f)
        if fd is None:
            return None
        last = i == len(path) - 1
        if fd.label == F.LABEL_REPEATED:
            if not last or fd.type == F.TYPE_MESSAGE:
                return None
            v = list(getattr(m, f))
            return v if (v or with_defaults) else None
        if not with_defaults and not m.HasField(f):
            return None
        v = getattr(m, f)
        if fd.type == F.TYPE_MESSAGE:
            if last:
                return Rec({"@": fd.message_type.full_name})
            m = v
        else:
            return v if last else None
    return None


def enum_paths(mf, conv, recs, prefix=()):
    """modelled paths touching any of the given messages (Rec view): every modelled field of the converter, and below
    every modelled sub-message that is present in one of them"""
    out = []
    for f, sub in mf.get(conv, []):
        out.append(prefix + (f,))
        if sub:
            below = [r[f] for r in recs if isinstance(r.get(f), dict)]
            if below and len(prefix) < 24:
                out += enum_paths(mf, sub, below, prefix + (f,))
    return out


def path_report(paths, m0, m1):
    """-> (strict differences, value-level problems) as printable strings"""
    strict, value = [], []
    for ph in paths:
        a, b = real_pread(m0, ph), real_pread(m1, ph)
        if norm(a) != norm(b):
            strict.append("%s: %r became %r" % (".".join(ph), a, b))
            da, db = real_pread(m0, ph, True), real_pread(m1, ph, True)
            if a is not None and b is None:
                value.append("%s: present %r was dropped" % (".".join(ph), a))
            elif a is not None and b is not None:
                value.append("%s: %r became %r" % (".".join(ph), a, b))
            elif norm(da) != norm(db):
                value.append("%s: reads %r, after re-serialisation %r" % (".".join(ph), da, db))
    return strict, value


def payload_verdict(g, mf, conv, q, wf_ok=True):
    """-> (why or None, strict?, paths, reser result): the property oracle on one payload, implementation only"""
    r = real_reser_msgs(conv, q)
    if r[0] != "ok":
        return ("raised " + r[2], False, [], r)
    paths = enum_paths(mf, conv, [pcanon(r[2]), pcanon(r[4])])
    strict, value = path_report(paths, r[2], r[4])
    full = wf_ok and conv in g.info.convs and not g.lossy(conv, q)
    if value:
        return (value[0], False, paths, r)
    if full and strict:
        return (strict[0] + " (payload outside the lossy class: the full statement applies)", True, paths, r)
    return (None, full, paths, r)


def shrink_payload(g, mf, conv, p, budget=400):
    """greedy: drop fields (at any nesting level) while the oracle still fails on the implementation"""
    def fails(q):
        v = payload_verdict(g, mf, conv, q)
        return v[0] is not None and v[3][0] == "ok"

    def walk(root, node):
        nonlocal budget
        for k in [k for k in list(node.keys()) if k != "@"]:
            if budget <= 0:
                return
            saved = node.pop(k)
            budget -= 1
            if fails(root):
                continue
            node[k] = saved
            if isinstance(saved, dict):
                walk(root, saved)
            elif isinstance(saved, list) and len(saved) > 1:
                node[k] = saved[:1]
                budget -= 1
                if not fails(root):
                    node[k] = saved
    import copy
    q = copy.deepcopy(p)
    if not fails(q):
        return p
    walk(q, q)
    return q


def payload_stage(ctx, base, cur, model, mismatch_counter):
    """generate payloads from wf_payload's notion, classify them with the extracted model, replay every one on the
    implementation (parse -> serialise -> parse) and compare pread on every modelled path"""
    payloads = gen_wf_payloads(base, ctx.rng, ctx.tier)
    pargs = [[conv.encode(), [[k.encode(), to_sx(x)] for k, x in p.items() if k != "@"]] for (_, conv, p) in payloads]
    classes = resers = None
    mf = {}
    if model:
        for conv in cur.convs:
            r = model.call("run_modelled", [conv.encode()])
            mf[conv] = [(f.decode(), (sub.decode() or None)) for f, sub in r] if not isinstance(r, tuple) else []
        classes = model.call_many("run_classify", pargs)
        resers = model.call_many("run_reser", pargs)
    g = PGen(base, ctx.rng.__class__(1))       # the pinned structure: which proto field is read how
    if not model:                               # no model: modelled fields from the pinned baseline
        for conv in base.convs:
            mf[conv] = [(pf, how[1]) for pf, how in g.reads[conv].items()]
    dist, stats = {}, {"payloads": len(payloads), "paths_compared": 0, "full_statement_applies": 0,
                       "materialising": 0, "lossy_but_unchanged": 0, "lossy_class_differs_from_pinned": 0}
    example = None
    pread_jobs = []
    shrinks = set()
    for i, (stream, conv, p) in enumerate(payloads):
        d = dist.setdefault(conv, {"wf": 0, "not_wf": 0, "lossy": 0, "gap": 0, "full_statement_applies": 0})
        cl = classes[i] if classes else None
        wf = lossy = gap = None
        if cl is not None and not isinstance(cl, tuple):
            wf, lossy, gap = bool(cl[0]), bool(cl[1]), bool(cl[2])
            d["wf" if wf else "not_wf"] += 1
            if wf and lossy:
                d["lossy"] += 1
            if wf and gap:
                d["gap"] += 1
            if wf and not lossy:
                d["full_statement_applies"] += 1
                stats["full_statement_applies"] += 1
        r = real_reser_msgs(conv, p)
        mres = resers[i] if resers else None
        mp1 = None
        if mres is not None and not isinstance(mres, tuple) and mres[0] == 0 and conv in cur.convs:
            mp1 = pmsg_from_sx(mres[1], cur.convs[conv]["msg"])
        if r[0] != "ok":
            why = "raised " + r[2]
            ctx.violation("oracle:reserialise_modelled_paths",
                          {"conv": conv, "payload": jsonable(p), "stream": stream, "strict": False, "paths": [],
                           "observed": why}, key=finding_key(conv, p, why))
            if mres is not None and not (not isinstance(mres, tuple) and mres[0] == 1):
                mismatch_counter[0] += 1
                ctx.violation("correspondence:C10.payload_reserialise",
                              {"conv": conv, "payload": jsonable(p), "model": repr(mres)[:400], "impl": why},
                              found_input=True)
            continue
        _, b0, m0, b1, m1 = r
        recs = [pcanon(m0), pcanon(m1)] + ([mp1] if mp1 is not None else [])
        paths = enum_paths(mf, conv, recs)
        stats["paths_compared"] += len(paths)
        strict, value = path_report(paths, m0, m1)
        # the full (presence-aware) statement is demanded of every well-formed payload outside the PINNED lossy class
        # (corpus/C10/baseline_table.json), so a change that makes the converter materialise more is reported
        pinned_lossy = g.lossy(conv, p) if conv in base.convs else True
        full = (wf is not False) and stream != "not-wf" and not pinned_lossy
        if wf and lossy is not None and bool(lossy) != bool(pinned_lossy):
            stats["lossy_class_differs_from_pinned"] += 1
        why = None
        if value:
            why = value[0]
        elif full and strict:
            why = strict[0] + " (payload outside the lossy class: the full statement applies)"
        if why:
            rec = {"conv": conv, "payload": jsonable(p), "stream": stream, "strict": bool(full),
                   "paths": [list(ph) for ph in paths], "input_hex": b0.hex(), "output_hex": b1.hex(),
                   "observed": why}
            if conv not in shrinks:                # one record per converter is kept (see _dedupe): shrink that one
                shrinks.add(conv)
                q = shrink_payload(g, mf, conv, p)
                qwhy, qstrict, qpaths, rq = payload_verdict(g, mf, conv, q)
                if qwhy and rq[0] == "ok":
                    rec.update({"payload": jsonable(q), "paths": [list(ph) for ph in qpaths], "strict": qstrict,
                                "input_hex": rq[1].hex(), "output_hex": rq[3].hex(), "observed": qwhy,
                                "shrunk_from_bytes": len(b0)})
            ctx.violation("oracle:reserialise_modelled_paths", rec, key=finding_key(conv, p, why))
        if strict and not value:
            stats["materialising"] += 1
            if example is None or len(b0) < len(bytes.fromhex(example["input_hex"])):
                example = {"conv": conv, "input_hex": b0.hex(), "output_hex": b1.hex(), "paths": strict[:6]}
        # the lossy class is exact: a wf payload in it (outside the gap class) does change
        if wf and lossy and not gap and not strict:
            stats["lossy_but_unchanged"] += 1
            mismatch_counter[0] += 1
            ctx.violation("correspondence:C10.lossy_exact",
                          {"conv": conv, "payload": jsonable(p), "observed":
                           "model says lossy_payload, the implementation re-serialises every modelled path unchanged"},
                          found_input=False)
        if model and wf:                     # outside wf_payload the model claims nothing (it may refuse the value)
            sxp = [[f.encode() for f in ph] for ph in paths]
            pread_jobs.append((i, conv, p, paths, m0, m1, mp1, bool(why),
                               [conv.encode(), pargs[i][1], sxp],
                               [conv.encode(), [[k.encode(), to_sx(x)] for k, x in mp1.items() if k != "@"], sxp]
                               if mp1 is not None else None))
    # model vs implementation on pread, path by path, on the received and on the re-serialised payload
    if model and pread_jobs:
        r0 = model.call_many("run_pread", [j[8] for j in pread_jobs])
        r1 = iter(model.call_many("run_pread", [j[9] for j in pread_jobs if j[9] is not None]))
        for j, a0 in zip(pread_jobs, r0):
            (i, conv, p, paths, m0, m1, mp1, failed) = j[:8]
            a1 = next(r1) if j[9] is not None else None
            bad = None
            if isinstance(a0, tuple) or isinstance(a1, tuple):
                bad = "model raised: %r" % ((a0, a1),)
            else:
                for k, ph in enumerate(paths):
                    for which, ans, m in (("received", a0, m0), ("re-serialised", a1, m1)):
                        if ans is None:
                            bad = bad or "model could not re-serialise, the implementation did"
                            continue
                        if not ans[k][0]:
                            bad = bad or "%s: not a modelled path of the model" % ".".join(ph)
                            continue
                        mv = from_sx(ans[k][1][0]) if ans[k][1] else None
                        rv = real_pread(m, ph)
                        if norm(mv) != norm(rv):
                            bad = bad or "%s (%s payload): model reads %r, implementation %r" % (
                                ".".join(ph), which, mv, rv)
            if bad:
                mismatch_counter[0] += 1
                ctx.violation("correspondence:C10.pread",
                              {"conv": conv, "payload": jsonable(p), "strict": False,
                               "paths": [list(ph) for ph in paths], "observed": bad}, found_input=failed)
    ctx.coverage["payload_classes"] = dist
    ctx.coverage["payload_stage"] = stats
    if example:
        ctx.coverage["payload_materialisation_example"] = example
    if stats["lossy_class_differs_from_pinned"]:
        ctx.notes.append("lossy_payload computed from the current table differs from the pinned structure on %d "
                         "generated payloads" % stats["lossy_class_differs_from_pinned"])
    if classes:
        print("C10 received payloads (model wf_payload / lossy_payload / gap_payload, %d payloads, %d modelled paths "
              "compared on the implementation):" % (stats["payloads"], stats["paths_compared"]))
        for conv in sorted(dist):
            d = dist[conv]
            print("  %-34s wf %4d  not-wf %3d  lossy %4d  gap %3d  full-statement %4d" % (
                conv, d["wf"], d["not_wf"], d["lossy"], d["gap"], d["full_statement_applies"]))
        if stats["materialising"]:
            print("  note: %d payloads re-serialise with absent modelled fields materialised as proto defaults "
                  "(the lossy class of C10_reserialise_value_preserving; nothing present is dropped or altered)"
                  % stats["materialising"])
    return len(payloads)



# ------------------------------------------------------------------ edit after parse
# (coq/C10/C10Edit.v: set_path / get_path; theorems C10_serialise_depends_on_value_only, C10_edit_then_roundtrip,
#  C10_edit_in_domain_roundtrip).  The converter must be a function of the object's VALUE: an object obtained by
#  parsing (protobytes_to_message / fromProtocolTreeNode) and then edited through the real property setters serialises
#  like a freshly composed object holding the same values.
ATTR_PKG = "yowsup.layers.protocol_messages.protocolentities.attributes"
MEDIA_ENTITIES = {"image": "ImageDownloadableMediaMessageProtocolEntity",
                  "audio": "AudioDownloadableMediaMessageProtocolEntity",
                  "video": "VideoDownloadableMediaMessageProtocolEntity",
                  "document": "DocumentDownloadableMediaMessageProtocolEntity",
                  "sticker": "StickerDownloadableMediaMessageProtocolEntity",
                  "location": "LocationMediaMessageProtocolEntity",
                  "contact": "ContactMediaMessageProtocolEntity",
                  "extendedtext": "ExtendedTextMediaMessageProtocolEntity"}


def message_field_of(info):
    """converter -> the MessageAttributes field that carries it"""
    out = {}
    for f in info.fields("message"):
        k = info.kind("message", f)
        if k[0] == "rec":
            out[k[1]] = f
    return out


def attr_paths(info, conv, e, prefix=()):
    """every modelled attribute path of the canonical object e: (path, owning converter, field, kind)"""
    out = []
    for f in info.fields(conv):
        k = info.kind(conv, f)
        out.append((prefix + (f,), conv, f, k))
        x = e.get(f) if isinstance(e, dict) else None
        if k[0] == "rec" and isinstance(x, dict) and len(prefix) < 24:
            out += attr_paths(info, k[1], x, prefix + (f,))
    return out


def rec_get(e, path):
    for f in path:
        if not isinstance(e, dict) or f not in e:
            return Rec({"@": "?missing"})
        e = e[f]
    return e


def path_kind(info, path):
    conv, k = "message", None
    for f in path:
        k = info.kind(conv, f)
        if k[0] == "rec":
            conv = k[1]
    return k


def _meta(n=0):
    from yowsup.layers.protocol_messages.protocolentities.attributes.attributes_message_meta import \
        MessageMetaAttributes
    return MessageMetaAttributes(id="ED%d" % n, recipient="123@s.whatsapp.net", timestamp=1500000000 + n)


class EditHandle(object):
    """one live object of the implementation: a MessageAttributes (via 'bytes') or a protocol entity carrying one
    (via 'entity:<converter>'), with the two operations of the property: serialise and parse"""

    def __init__(self, info, msg_v, via):
        self.info, self.via = info, via
        self.c = impl()["conv"]
        if via == "bytes":
            self.ent, self.msg = None, build_obj(info, "message", msg_v)
        else:
            from yowsup.layers.protocol_messages.protocolentities.protomessage import ProtomessageProtocolEntity
            from yowsup.layers.protocol_media import protocolentities as PE
            conv = via.split(":", 1)[1]
            if conv == "message":
                self.cls = ProtomessageProtocolEntity
                self.ent = ProtomessageProtocolEntity("text", build_obj(info, "message", msg_v), _meta())
            else:
                self.cls = getattr(PE, MEDIA_ENTITIES[conv])
                fld = message_field_of(info)[conv]
                self.ent = self.cls(build_obj(info, conv, msg_v[fld]), _meta())
            self.msg = self.ent.message_attributes

    def reparse(self):
        """replace the live object by the one obtained by PARSING its serialisation"""
        if self.ent is None:
            self.msg = self.c.protobytes_to_message(self.c.message_to_protobytes(self.msg))
        else:
            self.ent = self.cls.fromProtocolTreeNode(self.ent.toProtocolTreeNode())
            self.msg = self.ent.message_attributes

    def serialise(self):
        if self.ent is None:
            return self.c.message_to_protobytes(self.msg)
        return self.ent.toProtocolTreeNode().getChild("proto").getData()

    def roundtrip(self):
        """serialise the live object, parse, canonicalise (the live object stays)"""
        if self.ent is None:
            back = self.c.protobytes_to_message(self.c.message_to_protobytes(self.msg))
        else:
            back = self.cls.fromProtocolTreeNode(self.ent.toProtocolTreeNode()).message_attributes
        return canon(self.info, "message", back)

    def state(self):
        return canon(self.info, "message", self.msg)

    def apply(self, edit):
        """one assignment through the real setters; -> None or the reason it was refused"""
        path, value = edit["path"], edit["value"]
        k = path_kind(self.info, path)
        if isinstance(value, dict) and k and k[0] == "rec":
            value = build_obj(self.info, k[1], value)
        try:
            if edit.get("setter") == "entity":
                setattr(self.ent, path[-1].split(".")[-1], value)
            else:
                parts = [q for f in path for q in f.split(".")]
                holder = self.msg
                for q in parts[:-1]:
                    holder = getattr(holder, q)
                setattr(holder, parts[-1], value)
            return None
        except Exception as e:
            return "%s: %s" % (type(e).__name__, str(e)[:100])

    def share_context(self):
        """make two parents hold ONE ContextInfoAttributes object (through the setters); -> True if done"""
        holders = []
        for (path, conv, f, k) in attr_paths(self.info, "message", self.state()):
            if k == ("rec", "contextinfo") and len(path) == 2:
                parts = [q for g in path for q in g.split(".")]
                h = self.msg
                for q in parts[:-1]:
                    h = getattr(h, q)
                if getattr(h, parts[-1]) is not None:
                    holders.append((h, parts[-1]))
        if len(holders) < 2:
            return False
        setattr(holders[1][0], holders[1][1], getattr(holders[0][0], holders[0][1]))
        return True


def setter_effect(before, after, edits, refused):
    """the assignments must change exactly the assigned paths: each reads the assigned value (a setter may map None /
    an empty value to the empty value of the type), every other modelled path reads what it read before"""
    done = [tuple(ed["path"]) for ed, r in zip(edits, refused) if not r]
    for ed, r in zip(edits, refused):
        if r:
            continue
        want, got = ed["value"], rec_get(after, ed["path"])
        if isinstance(want, dict):
            ok = isinstance(got, dict) and got.get("@") == want.get("@")
        else:
            ok = norm(want) == norm(got) or (not want and not got and got is not None) or \
                (want is None and got is None)
        if not ok:
            return "assigned %s = %r, the object then reads %r" % (".".join(ed["path"]), want, got)

    def walk(b, a, path):
        if any(path[:len(d)] == d for d in done):
            return None
        if isinstance(b, dict) and isinstance(a, dict) and b.get("@") == a.get("@"):
            for k in b:
                if k != "@":
                    r = walk(b[k], a.get(k), path + (k,))
                    if r:
                        return r
            return None
        if norm(b) != norm(a) and not any(d[:len(path)] == path for d in done):
            return "%s was not assigned but changed from %r to %r" % (".".join(path), b, a)
        return None
    return walk(before, after, ())


def edit_scenario(info, msg_v, scenario, via, rounds):
    """-> (why or None, trace): scenario in parse-edit | compose-serialise-edit | shared-edit; rounds: list of lists of
    edits, the object is serialised + parsed after every round and must come back as it reads at that moment"""
    trace = []
    try:
        h = EditHandle(info, msg_v, via)
        if scenario == "parse-edit":
            h.reparse()
        elif scenario == "compose-serialise-edit":
            h.serialise()
        elif scenario == "shared-edit":
            if not h.share_context():
                return (None, trace)
        for edits in rounds:
            before = h.state()
            refused = [h.apply(e) for e in edits]
            after = h.state()
            if scenario != "shared-edit":
                eff = setter_effect(before, after, edits, refused)
                if eff:
                    trace.append({"before": before, "after": after, "got": after, "refused": refused})
                    return ("setter: " + eff, trace)
            indom = reviewed_domain(info, "message", after)
            try:
                got = h.roundtrip()
            except Exception as e:
                if indom:
                    raise
                got = Rec({"@": "?raised " + type(e).__name__})   # outside the domain nothing is demanded
            trace.append({"before": before, "after": after, "got": got, "refused": refused})
            if indom:
                why = covers(after, got)
                if why:
                    return (why, trace)
        return (None, trace)
    except Exception as e:
        return ("raised %s: %s" % (type(e).__name__, str(e)[:160]), trace)


def entity_setters(info, conv):
    """names of the read/write attributes (data descriptors with a setter) of the media entity class of conv that
    forward to a modelled scalar / list field: [(attribute, field of the converter)]"""
    import inspect
    from yowsup.layers.protocol_media import protocolentities as PE
    cls = getattr(PE, MEDIA_ENTITIES[conv], None)
    out = []
    if cls is None:
        return out
    for n in sorted(dir(cls)):
        if n.startswith("_"):
            continue
        d = inspect.getattr_static(cls, n, None)
        if d is None or not hasattr(type(d), "__set__") or not hasattr(type(d), "__get__"):
            continue
        if isinstance(d, property) and d.fset is None:
            continue
        fkey = n if n in info.fields(conv) else "downloadablemedia_attributes." + n
        if fkey in info.fields(conv) and info.kind(conv, fkey)[0] in ("scalar", "list"):
            out.append((n, fkey))
    return out


def choose_edits(info, g, rng, e, n_edits, only_below=None, entity=None, exactly=None):
    """1..3 assignments on modelled paths of the canonical message e, spread over the nesting depths
    (exactly: that one path)"""
    cands = [c for c in attr_paths(info, "message", e) if c[3][0] in ("scalar", "list", "rec")]
    if exactly is not None:
        cands = [c for c in cands if c[0] == tuple(exactly)]
    if only_below is not None:
        cands = [c for c in cands if c[0][:len(only_below)] == tuple(only_below) and len(c[0]) > len(only_below)]
    if not cands:
        return []
    by_depth = {}
    for c in cands:
        by_depth.setdefault(len(c[0]), []).append(c)
    edits, used = [], set()
    for _ in range(n_edits):
        depth = rng.choice(sorted(by_depth))
        (path, conv, f, k) = rng.choice(by_depth[depth])
        if any(path[:len(u)] == u or u[:len(path)] == path for u in used):
            continue
        used.add(path)
        cur = rec_get(e, path)
        req = f in info.required(conv) or any(f in al and any(q in info.required(conv) for q in al)
                                              for al in info.aliases(conv))
        if k[0] == "rec":
            if not req and cur is not None and rng.random() < 0.25:
                new = None
            else:
                new = fix_aliases(info, k[1], g.obj(k[1], rng.choice([0, 0, 1]), p_set=0.4))
        else:
            pl = [x for x in pool(k) if norm(x) != norm(cur)] or list(pool(k))
            new = None if (not req and cur is not None and rng.random() < 0.12) else rng.choice(pl)
        group = [path]
        for al in info.aliases(conv):                 # aliased attributes are edited together
            if f in al:
                group = [path[:-1] + (q,) for q in al]
        for pth in group:
            ed = {"path": list(pth), "value": new}
            if entity and len(pth) == 2 and pth[1] in dict((b, a) for a, b in entity) and rng.random() < 0.7:
                ed["setter"] = "entity"
            edits.append(ed)
    return edits


def edit_stage(ctx, base, cur, model, cases, mismatch_counter):
    """objects obtained by parsing (bytes and entity path), edited through the real setters at every nesting depth,
    serialised, parsed: every edited path must read the new value, every other modelled path what it read before"""
    rng = ctx.rng
    g = Gen(base, rng)
    mfield = message_field_of(base)
    per, todo = {}, []
    limit = 24 if ctx.tier == "quick" else 240
    for (stream, conv, v) in cases:
        if stream in ("malformed", "alias") or conv not in base.convs:
            continue
        if conv != "message" and conv not in mfield:
            continue
        if stream != "nested" and per.get(conv, 0) >= limit:          # quoted chains: all of them
            continue
        if stream == "boundary" and per.get((conv, "b"), 0) >= limit // 3:
            continue
        try:
            a = canon(base, conv, build_obj(base, conv, v))
        except Exception:
            continue
        if not reviewed_domain(base, conv, a):
            continue
        per[conv] = per.get(conv, 0) + 1
        if stream == "boundary":
            per[(conv, "b")] = per.get((conv, "b"), 0) + 1
        msg_v = a if conv == "message" else g.obj("message", 0, subset=set(), fixed={mfield[conv]: a})
        todo.append((conv, msg_v))
    # two parents sharing one context info object
    if "image" in mfield and "extendedtext" in mfield:
        for _ in range(6 if ctx.tier == "quick" else 60):
            ci = g.obj("contextinfo", 1, p_set=0.5)
            img = fix_aliases(base, "image", g.obj("image", 0, p_set=0.4,
                                                   fixed={"downloadablemedia_attributes.context_info": ci}))
            ext = g.obj("extendedtext", 0, p_set=0.4, fixed={"context_info": g.obj("contextinfo", 0, p_set=0.5)})
            todo.append(("shared", g.obj("message", 0, subset=set(),
                                         fixed={mfield["image"]: img, mfield["extendedtext"]: ext})))
    setters = {conv: entity_setters(base, conv) for conv in MEDIA_ENTITIES if conv in base.convs}
    stats = {"scenarios": 0, "edits": 0, "edits_refused_by_setter": 0, "serialisations_checked": 0,
             "by_scenario": {}, "by_depth": {}, "entity_level_setters": sum(len(x) for x in setters.values()),
             "outside_reviewed_domain_after_edit": 0}
    model_jobs = []
    # systematic sweeps on one full object per converter: every modelled field assigned alone on the parsed object,
    # every entity-level read/write attribute assigned alone on the parsed entity
    sweeps = []
    for conv in base.convs:
        if conv != "message" and conv not in mfield:
            continue
        full = fix_aliases(base, conv, g.obj(conv, 1, subset=set(g.optional(conv))))
        try:
            full = canon(base, conv, build_obj(base, conv, full))
        except Exception:
            continue
        msg_v = full if conv == "message" else g.obj("message", 0, subset=set(), fixed={mfield[conv]: full})
        pre = () if conv == "message" else (mfield[conv],)
        try:
            e0 = canon(base, "message", build_obj(base, "message", msg_v))
        except Exception:
            continue
        if not reviewed_domain(base, "message", e0):
            continue
        for f in base.fields(conv):
            k = base.kind(conv, f)
            if k[0] not in ("scalar", "list", "rec"):
                continue
            one = choose_edits(base, g, rng, e0, 1, only_below=None, entity=None, exactly=pre + (f,))
            if one:
                sweeps.append((conv, msg_v, "parse-edit", "bytes", [one], "sweep-field"))
        for (attr, fkey) in setters.get(conv, []):
            one = choose_edits(base, g, rng, e0, 1, exactly=pre + (fkey,))
            if one:
                for ed in one:
                    if ed["path"][-1] == fkey:
                        ed["setter"] = "entity"
                sweeps.append((conv, msg_v, "parse-edit", "entity:" + conv, [one], "sweep-entity-setter"))
    planned = []
    for i, (conv, msg_v) in enumerate(todo):
        plans = []
        if conv == "shared":
            plans.append(("shared-edit", "bytes", ("extended_text", "context_info")))
        else:
            plans.append(("parse-edit", "bytes", None))
            if conv == "message" or conv in MEDIA_ENTITIES:
                plans.append(("parse-edit", "entity:" + conv, None))
            if i % 2 == 0:
                plans.append(("compose-serialise-edit", "bytes", None))
            if i % 3 == 0:
                plans.append(("parse-edit", "bytes", "two-rounds"))
        for (scenario, via, extra) in plans:
            try:
                e0 = canon(base, "message", build_obj(base, "message", msg_v))
            except Exception:
                continue
            ent = setters.get(via.split(":")[1], []) if via.startswith("entity:") else None
            below = extra if scenario == "shared-edit" else None
            rounds = [choose_edits(base, g, rng, e0, rng.choice([1, 1, 2, 3]), only_below=below, entity=ent or None)]
            if extra == "two-rounds":
                rounds.append(choose_edits(base, g, rng, e0, rng.choice([1, 2])))
            if not rounds[0]:
                continue
            # an entity-level setter edits [media field, forwarded field]
            if ent:
                fld = mfield[via.split(":")[1]]
                for ed in rounds[0]:
                    if ed.get("setter") == "entity" and not (len(ed["path"]) == 2 and ed["path"][0] == fld):
                        ed.pop("setter")
            planned.append((conv, msg_v, scenario, via, rounds, "two-rounds" if extra == "two-rounds" else ""))
    for (conv, msg_v, scenario, via, rounds, extra) in sweeps + planned:
        why, trace = edit_scenario(base, msg_v, scenario, via, rounds)
        stats["scenarios"] += 1
        key = scenario + ("/" + extra if extra else "") + " via " + via.split(":")[0]
        stats["by_scenario"][key] = stats["by_scenario"].get(key, 0) + 1
        for r, t in zip(rounds, trace):
            stats["serialisations_checked"] += 1
            stats["edits"] += len(r)
            stats["edits_refused_by_setter"] += sum(1 for x in t["refused"] if x)
            if not reviewed_domain(base, "message", t["after"]):
                stats["outside_reviewed_domain_after_edit"] += 1
            for ed in r:
                d = len(ed["path"])
                stats["by_depth"][d] = stats["by_depth"].get(d, 0) + 1
                if ed.get("setter") == "entity":
                    stats["entity_level_setter_edits"] = stats.get("entity_level_setter_edits", 0) + 1
        if why:
            # shrink: one edit alone, in one round
            best = (rounds, why)
            for r in rounds:
                for ed in r:
                    w1, _ = edit_scenario(base, msg_v, scenario, via, [[ed]])
                    if w1:
                        best = ([[ed]], w1)
                        break
                if len(best[0]) == 1 and len(best[0][0]) == 1:
                    break
            rounds, why = best
            ctx.violation("oracle:edit_then_serialise",
                          {"conv": conv, "object": jsonable(msg_v), "scenario": scenario, "via": via,
                           "rounds": [[dict(ed, value=jsonable(ed["value"])) for ed in r] for r in rounds],
                           "observed": why,
                           "meaning": "the object was %s, the listed paths were assigned through the real "
                                      "setters, the object was serialised and parsed: the parsed object must "
                                      "cover the edited one" %
                                      {"parse-edit": "obtained by PARSING its own serialisation",
                                       "compose-serialise-edit": "composed and serialised once",
                                       "shared-edit": "composed with one context info object held by two parents"
                                       }[scenario]},
                          key=finding_key(conv, msg_v, why))
        elif model and trace and scenario != "shared-edit" and len(rounds) == 1 and \
                not any(trace[0]["refused"]) and typed(base, "message", trace[0]["before"]) and \
                typed(base, "message", trace[0]["after"]):
            t = trace[0]
            sx_edits = [[[f.encode() for f in ed["path"]], to_sx(rec_get(t["after"], ed["path"]))]
                        for ed in rounds[0]]
            model_jobs.append((conv, msg_v, scenario, via, rounds, t,
                               [b"message", to_sx(t["before"]), sx_edits]))
    # the model's set_path / round trip against what the implementation did
    if model and model_jobs:
        res = model.call_many("run_edit", [j[6] for j in model_jobs])
        for (conv, msg_v, scenario, via, rounds, t, _), r in zip(model_jobs, res):
            bad = None
            if isinstance(r, tuple):
                bad = "model raised %r" % (r,)
            else:
                a1 = from_sx(r[0])
                if norm(a1) != norm(t["after"]):
                    bad = "after the assignments the implementation's object reads differently from set_path: %s" % \
                        (covers(a1, t["after"]) or covers(t["after"], a1) or "field sets differ")
                elif r[2][0] == 0 and norm(from_sx(r[2][1])) != norm(t["got"]):
                    bad = "round trip of the edited object: model %s" % (covers(from_sx(r[2][1]), t["got"]) or
                                                                          covers(t["got"], from_sx(r[2][1])) or "differs")
                elif r[2][0] == 1 and reviewed_domain(base, "message", t["after"]):
                    bad = "model raises Err %d on the edited object, the implementation round-trips it" % r[2][1]
            if bad:
                mismatch_counter[0] += 1
                ctx.violation("correspondence:C10.edit",
                              {"conv": conv, "object": jsonable(msg_v), "scenario": scenario, "via": via,
                               "rounds": [[dict(ed, value=jsonable(ed["value"])) for ed in r0] for r0 in rounds],
                               "observed": bad}, found_input=False)
    stats["compared_with_model_set_path"] = len(model_jobs)
    stats["by_depth"] = {str(k): v for k, v in sorted(stats["by_depth"].items())}
    ctx.coverage["edit_stage"] = stats
    return stats["scenarios"]


def state_probe(base):
    """instance state of the attribute objects that is NOT a modelled field: an instance attribute no modelled property
    reads, state the converter writes onto the object it returns, attribute-access hooks.  -> list of descriptions"""
    import copy
    found = []
    try:
        c = impl()["conv"]
        g = Gen(base, __import__("random").Random(11))
        mfield = message_field_of(base)

        def collect(root):
            seen, out, stack = set(), {}, [root]
            while stack:
                o = stack.pop()
                if id(o) in seen or not type(o).__module__.startswith(ATTR_PKG):
                    continue
                seen.add(id(o))
                out.setdefault(type(o).__name__, o)
                names = list(vars(o)) if hasattr(o, "__dict__") else list(getattr(type(o), "__slots__", ()))
                for n in names:
                    x = getattr(o, n, None) if not hasattr(o, "__dict__") else vars(o)[n]
                    stack.extend(x if isinstance(x, (list, tuple)) else [x])
            return out
        composed, parsed = {}, {}
        for conv in base.convs:
            if conv != "message" and conv not in mfield:
                continue
            v = fix_aliases(base, conv, g.obj(conv, 2, subset=set(g.optional(conv))))
            mv = v if conv == "message" else g.obj("message", 0, subset=set(), fixed={mfield[conv]: v})
            try:
                obj = build_obj(base, "message", mv)
                back = c.protobytes_to_message(c.message_to_protobytes(obj))
            except Exception:
                continue
            for k, o in collect(obj).items():
                composed.setdefault(k, o)
            for k, o in collect(back).items():
                parsed.setdefault(k, o)
        sentinel = object()
        for clsname in sorted(set(composed) | set(parsed)):
            k, pz = composed.get(clsname), parsed.get(clsname)
            o = k if k is not None else pz
            for klass in type(o).__mro__[:-1]:
                for hook in ("__setattr__", "__getattr__", "__getattribute__", "__delattr__"):
                    if hook in vars(klass):
                        found.append("%s.%s (attribute-access hook)" % (klass.__name__, hook))
            props = [f[0] for f in base.tab["classes"].get(clsname, {}).get("fields", [])]
            if not props or not hasattr(o, "__dict__"):
                continue
            outside = []
            for name in list(vars(o)):
                cp = copy.copy(o)
                cp.__dict__[name] = sentinel
                hit = False
                for pr in props:
                    try:
                        if getattr(cp, pr) is sentinel:
                            hit = True
                            break
                    except Exception:
                        pass
                if not hit:
                    outside.append(name)
            for name in outside:
                how = "instance attribute that no modelled property reads"
                if k is not None and pz is not None:
                    a, b = vars(k).get(name, sentinel), vars(pz).get(name, sentinel)
                    if (a is sentinel) != (b is sentinel) or (a is None) != (b is None):
                        how += "; %s on a composed object, %s on the object the converter returns from parsing" % (
                            "absent" if a is sentinel else type(a).__name__,
                            "absent" if b is sentinel else type(b).__name__)
                found.append("%s.%s (%s)" % (clsname, name, how))
            if k is not None and pz is not None:
                for name in sorted(set(vars(pz)) - set(vars(k))):
                    if name not in outside:
                        found.append("%s.%s (written onto the object by the parsing path only)" % (clsname, name))
        # the protocol entities that carry a message: state only the parsing path puts on them
        for conv in ["message"] + sorted(MEDIA_ENTITIES):
            if conv != "message" and conv not in mfield:
                continue
            try:
                v = fix_aliases(base, conv, g.obj(conv, 1, subset=set(g.optional(conv))))
                mv = v if conv == "message" else g.obj("message", 0, subset=set(), fixed={mfield[conv]: v})
                h = EditHandle(base, mv, "entity:" + conv)
                before = set(vars(h.ent))
                h.reparse()
                for name in sorted(set(vars(h.ent)) - before):
                    found.append("%s.%s (entity attribute written by fromProtocolTreeNode only)" % (
                        type(h.ent).__name__, name))
            except Exception:
                continue
    except Exception as e:
        found.append("state probe failed: %s: %s" % (type(e).__name__, str(e)[:200]))
    out = []
    for x in found:
        if x not in out:
            out.append(x)
    return out


# ------------------------------------------------------------------ entities
def entity_checks(ctx, info, cases):
    """ProtomessageProtocolEntity and the media entity classes: entity -> node -> entity"""
    from yowsup.layers.protocol_messages.protocolentities.protomessage import ProtomessageProtocolEntity
    from yowsup.layers.protocol_messages.protocolentities.attributes.attributes_message_meta import \
        MessageMetaAttributes
    from yowsup.layers.protocol_media import protocolentities as PE
    media = {"image": ("ImageDownloadableMediaMessageProtocolEntity", "image"),
             "audio": ("AudioDownloadableMediaMessageProtocolEntity", "audio"),
             "video": ("VideoDownloadableMediaMessageProtocolEntity", "video"),
             "document": ("DocumentDownloadableMediaMessageProtocolEntity", "document"),
             "sticker": ("StickerDownloadableMediaMessageProtocolEntity", "sticker"),
             "location": ("LocationMediaMessageProtocolEntity", "location"),
             "contact": ("ContactMediaMessageProtocolEntity", "contact"),
             "extendedtext": ("ExtendedTextMediaMessageProtocolEntity", "extended_text")}
    n = 0
    per = {}
    for (stream, conv, v) in cases:
        if not reviewed_domain(info, conv, v):
            continue
        if per.get(conv, 0) >= (25 if ctx.tier == "quick" else 400):
            continue
        per[conv] = per.get(conv, 0) + 1
        meta = MessageMetaAttributes(id="ID%d" % n, recipient="123@s.whatsapp.net", timestamp=1500000000 + n)
        try:
            if conv == "message":
                ent = ProtomessageProtocolEntity("text", build_obj(info, conv, v), meta)
                back = ProtomessageProtocolEntity.fromProtocolTreeNode(ent.toProtocolTreeNode())
                sent, got = v, canon(info, "message", back.message_attributes)
                extra_ok = back.getId() == ent.getId()
            elif conv in media:
                clsname, fld = media[conv]
                cls = getattr(PE, clsname)
                ent = cls(build_obj(info, conv, v), meta)
                node = ent.toProtocolTreeNode()
                back = cls.fromProtocolTreeNode(node)
                sent = v
                got = canon(info, conv, getattr(back.message_attributes, fld))
                extra_ok = (back.media_type == ent.media_type and back.getId() == ent.getId()
                            and node.getChild("proto")["mediatype"] == ent.media_type)
                # the entity's convenience getters must show the parsed content
                for pname in sorted(dir(cls)):
                    if not isinstance(getattr(cls, pname, None), property):
                        continue
                    fkey = pname if pname in got else "downloadablemedia_attributes." + pname
                    if fkey not in got:
                        continue
                    try:
                        shown = plain(getattr(back, pname))
                        bad = None if norm(shown) == norm(got[fkey]) or isinstance(got[fkey], dict) else \
                            "getter shows %r, content is %r" % (shown, got[fkey])
                    except Exception as e:
                        bad = "getter raised %s: %s" % (type(e).__name__, str(e)[:120])
                    if bad:
                        ctx.violation("oracle:entity_accessor",
                                      {"conv": conv, "object": jsonable(v), "via": "entity",
                                       "observed": "%s.%s: %s" % (clsname, pname, bad)},
                                      key="entity-accessor:%s.%s" % (clsname, pname))
            else:
                continue
        except Exception as e:
            ctx.violation("oracle:entity_roundtrip", {"conv": conv, "object": jsonable(v), "via": "entity",
                          "observed": "%s: %s" % (type(e).__name__, str(e)[:200])},
                          key=finding_key(conv, v, None))
            continue
        n += 1
        why = covers(sent, got) or (None if extra_ok else "id/mediatype changed")
        if why:
            ctx.violation("oracle:entity_roundtrip", {"conv": conv, "object": jsonable(v), "via": "entity",
                          "observed": why}, key=finding_key(conv, v, why))
    return n


# ------------------------------------------------------------------ pinned probes for Coq
def coq_val(v):
    if v is None:
        return "VNone"
    if isinstance(v, bool):
        return "(VBool %s)" % ("true" if v else "false")
    if isinstance(v, str):
        return "(VStr [%s])" % "; ".join("%d%%N" % b for b in v.encode("utf-8"))
    if isinstance(v, int):
        return "(VInt (%d)%%Z)" % v
    if isinstance(v, bytes):
        return "(VBytes [%s])" % "; ".join("%d%%N" % b for b in v)
    if isinstance(v, float):
        return "(VFlt %d%%N)" % f2bits(v)
    if isinstance(v, list):
        return "(VList [%s])" % "; ".join(coq_val(x) for x in v)
    return "(VRec \"%s\" [%s])" % (v["@"], "; ".join('("%s", %s)' % (k, coq_val(x)) for k, x in v.items() if k != "@"))


def fix_aliases(info, conv, v):
    for al in info.aliases(conv):
        x = next((v[f] for f in al if v.get(f) is not None), None)
        for f in al:
            v[f] = x
    return v


def pinned_probes(base):
    EXTENDED[0] = False
    try:
        return _pinned_probes(base)
    finally:
        EXTENDED[0] = True


def _pinned_probes(base):
    import random
    rng = random.Random(20240926)
    g = Gen(base, rng)
    out = []
    for conv in base.convs:
        out.append((conv, fix_aliases(base, conv, g.obj(conv, 1, subset=set()))))
        out.append((conv, fix_aliases(base, conv, g.obj(conv, 1, subset=set(g.optional(conv))))))
    out.append(("message", g.obj("message", 0, subset=set(), fixed={"conversation": ""})))
    out.append(("location", g.obj("location", 0, subset=set(),
                                  fixed={"axolotl_sender_key_distribution_message": b"\x0a\x01k"})))
    out.append(("audio", g.obj("audio", 0, subset=set(), fixed={"streaming_sidecar": b"\x01\x02"})))
    for d in (1, 2, 3):
        out.append(("message", g.quoted_chain(d)))
    payloads = [(c, p) for (c, p) in gen_protos(base, rng, "quick")]
    keep = []
    seen = {}
    for c, p in payloads:
        # a DocumentMessage without file_length parses to file_length=None next to the aliased
        # downloadable file_length=0; re-serialising sets the field to its default (value unchanged) but the
        # computed domain is conservative about a None aliased to a written field: pin payloads that carry it
        if c == "document" and "file_length" not in p:
            p["file_length"] = 7
        if seen.get(c, 0) < 4:
            seen[c] = seen.get(c, 0) + 1
            keep.append((c, p))
    return out, keep


def emit_probes(base):
    objs, payloads = pinned_probes(base)
    lines = ["(* GENERATED by harness/props/C10.py from corpus/C10/baseline_table.json (fixed seed), objects built",
             "   through the real constructors — do not edit *)",
             "From YV Require Import Common.Tac C10.C10Model.", "Open Scope name_scope.", "",
             "Definition probes : list (name * val) := ["]
    items = []
    for conv, v in objs:
        try:
            a = canon(base, conv, build_obj(base, conv, v))
        except Exception:
            continue
        if reviewed_domain(base, conv, a):
            items.append('  ("%s", %s)' % (conv, coq_val(a)))
    lines.append(";\n".join(items))
    lines += ["].", "", "Definition payloads : list (name * pmsg) := ["]
    items = []
    for conv, p in payloads:
        items.append('  ("%s", [%s])' % (conv, "; ".join('("%s", %s)' % (k, coq_val(x)) for k, x in p.items() if k != "@")))
    lines.append(";\n".join(items))
    lines += ["].", ""]
    text = "\n".join(lines)
    out = os.path.join(env.VERIF, "coq", "Gen", "C10Probes.v")
    os.makedirs(os.path.dirname(out), exist_ok=True)
    if not os.path.exists(out) or open(out).read() != text:
        open(out, "w").write(text)
    return len(objs), len(payloads)


# ------------------------------------------------------------------ run
def same_outcome(model_res, real_res, conv_fn, any_error=False):
    """model: [0, x] | [1, code]; real: ('ok', Rec) | ('exn', code, text).
    any_error: inputs outside the property's domain (malformed stream: a required field None, an ill-typed value) only
    have to be REJECTED by both sides; which exception class surfaces there is not part of the property (a refactoring
    of the attribute classes legitimately turns an AttributeError on None into protobuf's TypeError)."""
    if isinstance(model_res, tuple):
        return False
    if model_res[0] == 1:
        if real_res[0] != "exn":
            return False
        if any_error:
            return True
        mc, rc = model_res[1], real_res[1]
        return mc == rc or (mc == 3 and rc in (2, 3))
    if real_res[0] != "ok":
        return False
    return norm(conv_fn(model_res[1])) == norm(real_res[1])


def _dedupe(ctx):
    """report each distinct (check, finding key / converter) once, so one defect cannot hide another"""
    orig = ctx.violation
    seen = set()

    def violation(name, data, found_input=True, key=None):
        k = (name.split(" ")[0], key or data.get("conv"))
        if k in seen:
            return
        seen.add(k)
        return orig(name, data, found_input=found_input, key=key)
    ctx.violation = violation


def run(ctx):
    broken_translator = None
    # two extractions of the converter table: the ast transcription and the table MEASURED on the running
    # code (harness/translators/c10_measure.py); recognised source -> they must agree, unrecognised source ->
    # the Gen file is generated from the measured table, neither -> fail closed
    an = tr.analyse(scratch=getattr(ctx, "scratch", None))
    tab = tab_to_json(an["tab"]) if an["tab"] is not None else None
    ctx.coverage["translator_path"] = an["path"]
    ctx.coverage["translator_measurement"] = {
        "measured": an.get("measured"), "agreement": an.get("agreement"),
        "syntactic_error": an.get("syntactic_error"), "measure_error": an.get("measure_error")}
    if tab is None:
        broken_translator = an["path"]
        ctx.ties["translator:c10_converter"] = "broken: " + broken_translator[:700]
    elif an["disagreements"]:
        ctx.ties["translator:c10_converter"] = "broken: syntactic and measured tables disagree on %d probe(s)" % \
            len(an["disagreements"])
    else:
        ctx.ties["translator:c10_converter"] = "ok: " + an["path"][:300]
    if an["path"].startswith("measured only"):
        ctx.notes.append("coq/Gen/C10Table.v generated from the MEASURED table: " + an["path"])
    if an["path"].startswith("syntactic only"):
        ctx.notes.append("converter table not cross-checked by measurement: " + an["path"])
    if an["path"].startswith("syntactic") and an["undetermined"]:
        ctx.notes.append("columns the measurement could not determine (syntactic table used for them): " +
                         "; ".join("%s (%s)" % (u["column"], u["why"][:120]) for u in an["undetermined"][:6]))
    try:
        impl()
    except BaseException as e:      # the tree under test cannot even be imported: nothing can be run, fail closed
        why = "%s: %s" % (type(e).__name__, str(e)[:300])
        ctx.ties["implementation:import"] = "broken: " + why
        ctx.tie_broken_without_input("implementation:import (converter module cannot be imported)", why)
        return ctx.finish(rule="no case could be run: the converter module does not import", assumptions_text=ASSUME)
    base = Info(load_baseline())
    cur = Info(tab) if tab is not None else base
    try:
        ctx.coverage["pinned_probes"] = emit_probes(base)
    except Exception as e:
        ctx.ties["probes"] = "broken: %s: %s" % (type(e).__name__, str(e)[:300])
    _dedupe(ctx)
    ctx.prove()
    exe = ctx.build_model("C10") if tab is not None else None
    model = modelrun.Model(exe) if exe else None
    ctx.coverage["table"] = {"converters": len(cur.convs),
                             "to_statements": sum(len(c["to"]) for c in cur.convs.values()),
                             "from_arguments": sum(len(c["from"]) for c in cur.convs.values()),
                             "notes": cur.tab.get("notes", [])}
    structure_same = (tab is not None and
                      {k: [f[0] for f in c["from"]] for k, c in cur.convs.items()} ==
                      {k: [f[0] for f in c["from"]] for k, c in base.convs.items()})
    if tab is not None and not structure_same:
        ctx.notes.append("field structure differs from corpus/C10/baseline_table.json (generation uses the baseline)")
    info = base if not structure_same else cur
    # generation always follows the reviewed baseline kinds (independent of guard/mapping edits)
    gen_info = base if set(base.convs) <= set(cur.convs) or tab is None else cur
    cases, gstats = gen_cases(gen_info, ctx.rng, ctx.tier)
    corpus_dir = os.path.join(env.VERIF, "corpus", "C10")
    corpus = []
    for fn in sorted(os.listdir(corpus_dir)) if os.path.isdir(corpus_dir) else []:
        if fn.startswith("case-") and fn.endswith(".json"):
            d = json.load(open(os.path.join(corpus_dir, fn)))
            corpus.append(("corpus", d["conv"], unjson(d["object"])))
    cases = corpus + cases
    ctx.coverage.update(gstats)

    kinds, distinct, nontrivial = {}, set(), 0
    shrunk, mismatches, in_dom_count, dom_report = [], 0, 0, {}
    objs = []
    for (stream, conv, v) in cases:
        try:
            obj = build_obj(gen_info, conv, v)
            actual = canon(cur if conv in cur.convs else gen_info, conv, obj)
        except Exception as e:      # constructor refused (asserting setter): not composable
            obj, actual = None, None
        objs.append((obj, actual))
    args = [[conv.encode(), to_sx(a)] for (s, conv, v), (o, a) in zip(cases, objs) if a is not None]
    m_to = m_rt = m_dom = None
    if model:
        m_to = iter(model.call_many("run_to", args))
        m_rt = iter(model.call_many("run_rt", args))
        m_dom = iter(model.call_many("run_dom", args))
    for (stream, conv, v), (obj, actual) in zip(cases, objs):
        kinds[stream] = kinds.get(stream, 0) + 1
        if actual is None:
            continue
        key = (conv, norm(actual))
        fresh = key not in distinct
        distinct.add(key)
        nset = sum(1 for k, x in actual.items() if k != "@" and x is not None)
        if fresh and nset >= 2:
            nontrivial += 1
        r_to = real_to(cur, conv, obj)
        r_rt = real_rt(cur if conv in cur.convs else gen_info, conv, obj)
        rdom = reviewed_domain(base, conv, actual) if conv in base.convs else False
        failed = None
        if rdom:
            if r_rt[0] != "ok":
                failed = "raised " + r_rt[2]
            else:
                failed = covers(actual, r_rt[1])
            if failed:
                ctx.violation("oracle:set_fields_preserved",
                              {"conv": conv, "object": jsonable(actual), "observed": failed,
                               "returned": jsonable(r_rt[1]) if r_rt[0] == "ok" else None},
                              key=finding_key(conv, actual, failed))
        if model:
            mt, mr, md = next(m_to), next(m_rt), next(m_dom)
            mtype = cur.convs[conv]["msg"]
            comparable = typed(base, conv, actual) or stream == "malformed"
            if comparable:
                lenient = stream == "malformed"
                ok1 = same_outcome(mt, r_to, lambda s: pmsg_from_sx(s, mtype), any_error=lenient)
                ok2 = same_outcome(mr, r_rt, from_sx, any_error=lenient)
                if not (ok1 and ok2):
                    mismatches += 1
                    ctx.violation("correspondence:C10.%s" % ("to_proto" if not ok1 else "roundtrip"),
                                  {"conv": conv, "object": jsonable(actual), "stream": stream,
                                   "model": repr(mt if not ok1 else mr)[:600],
                                   "impl": repr(r_to if not ok1 else r_rt)[:600]},
                                  found_input=bool(failed), key=finding_key(conv, actual, failed))
            if md == 1:
                in_dom_count += 1
                if r_rt[0] != "ok" or covers(actual, r_rt[1]):
                    ctx.violation("oracle:theorem_domain_on_implementation",
                                  {"conv": conv, "object": jsonable(actual),
                                   "observed": "model says in_domain, implementation loses a field: %s" %
                                               (r_rt[2] if r_rt[0] != "ok" else covers(actual, r_rt[1]))},
                                  key=finding_key(conv, actual, None))
            elif rdom:
                shrunk.append((conv, actual, failed))
                dom_report.setdefault(conv, 0)
                dom_report[conv] += 1
        if fresh and len(ctx.coverage["samples"]) < 5 and stream in ("nested", "subset") and nset >= 3:
            ctx.add_sample({"stream": stream, "conv": conv, "fields_set": nset,
                            "object": json.dumps(jsonable(actual))[:300],
                            "roundtrip": "ok" if r_rt[0] == "ok" else r_rt[2]})
    # the computed domain must contain the reviewed domain
    if shrunk:
        unexplained = [(c, a) for (c, a, f) in shrunk if not f]
        ctx.coverage["reviewed_inputs_outside_computed_domain"] = len(shrunk)
        if unexplained and not ctx.violations:
            c, a = unexplained[0]
            ctx.violation("theorem:C10_set_fields_preserved (computed in_domain excludes a reviewed input, "
                          "implementation still preserves it)",
                          {"conv": c, "object": jsonable(a)}, found_input=False)
    # ---- received payloads: parse, re-serialise
    protos = gen_protos(base, ctx.rng, ctx.tier)
    pargs = [[conv.encode(), [[k.encode(), to_sx(x)] for k, x in p.items() if k != "@"]] for conv, p in protos]
    m_rs = iter(model.call_many("run_reser", pargs)) if model else None
    reser_ok = 0
    for conv, p in protos:
        r = real_reser(base, conv, p)
        why = None
        if r[0] != "ok":
            why = "raised " + r[2]
        else:
            why = modelled_equal(base, conv, p, r[1])
        if why:
            ctx.violation("oracle:reserialise_value_preserving",
                          {"conv": conv, "payload": jsonable(p), "observed": why},
                          key=finding_key(conv, p, why))
        else:
            reser_ok += 1
        if m_rs:
            mr = next(m_rs)
            if not same_outcome(mr, r, lambda s: pmsg_from_sx(s, cur.convs[conv]["msg"])):
                mismatches += 1
                ctx.violation("correspondence:C10.reserialise",
                              {"conv": conv, "payload": jsonable(p), "model": repr(mr)[:600], "impl": repr(r)[:600]},
                              found_input=bool(why))
    mm = [0]
    n_pay = payload_stage(ctx, base, cur, model, mm)
    mismatches += mm[0]
    # state on the attribute objects that is not a modelled field (cached payloads, access hooks): named, tie
    # broken; the edit stage runs first so that a concrete object + edit is reported before it
    outside = state_probe(base)
    ctx.coverage["state_outside_modelled_fields"] = outside
    if outside:
        ctx.ties["state-outside-modelled-fields"] = "broken: " + "; ".join(outside)[:600]
    mm_before = mm[0]
    n_edit = edit_stage(ctx, base, cur, model, cases, mm)
    mismatches += mm[0] - mm_before
    if outside:
        ctx.violation("state outside the modelled fields: " + "; ".join(outside)[:400],
                      {"detail": "the attribute objects of the implementation carry state that the model's objects "
                                 "(class + modelled fields) do not have: " + "; ".join(outside),
                       "made_observable_by_an_edit_sequence": any(v["found_input"] for v in ctx.violations)},
                      found_input=False)
    n_ent = entity_checks(ctx, base, cases)
    if model:
        model.close()
        ctx.ties["correspondence"] = "ok" if mismatches == 0 else "broken"
    if broken_translator and not ctx.violations:
        ctx.tie_broken_without_input("translator:c10_converter", broken_translator)
    # the transcription predicts something else than the code does on a probe: the tie is broken on that probe
    for d in an["disagreements"][:2]:
        ctx.violation("translator:c10_converter.syntactic-vs-measured",
                      dict(d, kind="syntactic-vs-measured",
                           what="the table transcribed from the source predicts a different result than the running "
                                "code gives on this probe (see column / probe / predicted / observed)"),
                      found_input=False)
    if not ctx.proof_ok and not ctx.violations:
        ctx.tie_broken_without_input("theorem:" + ctx.failing_theorem(), ctx.ties.get("proof"))
    if model is None and tab is not None and not ctx.violations:
        ctx.tie_broken_without_input("model-build:C10", ctx.ties.get("model-build:C10"))
    ctx.coverage["evaluations"] = len(cases) + len(protos) + n_pay + n_edit + n_ent
    ctx.coverage["distinct_nontrivial"] = nontrivial
    ctx.coverage["case_kinds"] = kinds
    ctx.coverage["in_computed_domain"] = in_dom_count
    ctx.coverage["received_payloads"] = len(protos) + n_pay
    ctx.coverage["entity_roundtrips"] = n_ent
    ctx.coverage["computed_domain"] = domain_summary(model_exe=exe, info=cur, gen_info=gen_info, rng=ctx.rng) \
        if exe else "model not built"
    ctx.coverage["exhaustive"] = False
    return ctx.finish(
        rule="case = (converter, attribute object built through the real constructors and read back); streams: "
             "all optional-field subsets per type (exhaustive up to the limit in coverage, pairwise above), "
             "every field x every boundary value, unequal aliases, malformed (None for a required field, ill-typed "
             "scalars), quoted-message chains to depth 3 (5 thorough), random deep objects; received payloads: random "
             "well-formed messages per schema incl. unmodelled fields, and payloads generated from the model's wf_payload "
             "notion (random presence / complete / complete with proto defaults present / single field default and "
             "non-default / quoted chains / non-finite floats), each classified by the extracted wf_payload, "
             "lossy_payload, gap_payload and compared path by path (pread on every modelled path, presence included) "
             "before and after parse -> serialise -> parse; edit after parse: objects obtained by parsing (bytes and "
             "entity path), composed-and-serialised objects and objects sharing a nested context info are assigned "
             "1..3 modelled paths (all nesting depths, entity-level setters, sweeps over every field and every "
             "entity-level attribute) through the real setters, serialised and parsed; "
             "entities: Protomessage + 8 media classes. "
             "non-trivial = distinct canonical object with >= 2 fields set",
        assumptions_text=ASSUME)


def domain_summary(model_exe, info, gen_info, rng):
    """probe the COMPUTED in_domain: per field, which single-field shapes are outside it"""
    m = modelrun.Model(model_exe)
    g = Gen(gen_info, rng.__class__(7))
    out = {}
    probes = []
    for conv in gen_info.convs:
        if conv not in info.convs:
            continue
        for f in gen_info.fields(conv):
            k = gen_info.kind(conv, f)
            shapes = [("None", None)]
            if k[0] in ("scalar", "list"):
                p = pool(k)
                shapes += [("falsy %r" % (p[0],), p[0]), ("truthy", next((x for x in reversed(p) if x), p[-1]))]
            elif k[0] == "rec":
                shapes += [("object", fix_aliases(gen_info, k[1], g.obj(k[1], 0, subset=set())))]
            else:
                shapes += [("bytes", b"\x01")]
            for label, x in shapes:
                v = g.obj(conv, 0, subset=set(), fixed={f: x})
                for al in gen_info.aliases(conv):
                    y = v[f] if f in al else next((v[q] for q in al if v.get(q) is not None), None)
                    for q in al:
                        v[q] = y
                try:
                    a = canon(info, conv, build_obj(gen_info, conv, v))
                except Exception:
                    continue
                probes.append((conv, f, label, a))
    res = m.call_many("run_dom", [[c.encode(), to_sx(a)] for (c, f, l, a) in probes])
    m.close()
    for (c, f, l, a), r in zip(probes, res):
        if r != 1:
            out.setdefault("%s.%s" % (c, f), []).append(l)
    return {"outside_domain_single_field_probes": out,
            "note": "fields listed are excluded from in_domain for the given shape (others unset / required set); "
                    "required fields show up with shape None; aliased fields are additionally constrained to be equal"}


def replay(ctx, data):
    case = data["case"]
    if case.get("kind") == "syntactic-vs-measured":
        import tempfile, shutil
        tmp = tempfile.mkdtemp(prefix="yv-c10-replay-")
        try:
            an = tr.analyse(out=os.path.join(tmp, "C10Table.v"), scratch=tmp)
        finally:
            shutil.rmtree(tmp, ignore_errors=True)
        print("recorded :", json.dumps(dict((k, case.get(k)) for k in ("conv", "class", "column", "field", "probe",
                                                                       "predicted", "observed")))[:1500])
        print("now      :", an["path"])
        for d in an["disagreements"][:3]:
            print("disagrees:", json.dumps(d)[:1500])
        if an["disagreements"] or an["tab"] is None:
            print("VIOLATION property=C10 replay=(replayed)")
            return 1
        return 0
    base = Info(load_baseline())
    conv = case.get("conv")
    if "rounds" in case:
        # edit stage: rebuild the object, obtain it as recorded (parse / compose+serialise / shared), assign through
        # the real setters, serialise, parse
        msg_v = unjson(case["object"])
        rounds = [[dict(ed, value=unjson(ed["value"])) for ed in r] for r in case["rounds"]]
        why, trace = edit_scenario(base, msg_v, case["scenario"], case["via"], rounds)
        print("object  :", json.dumps(case["object"])[:700])
        print("scenario:", case["scenario"], "via", case["via"])
        for r in case["rounds"]:
            for ed in r:
                print("assign  : %s = %s%s" % (".".join(ed["path"]), json.dumps(ed["value"])[:200],
                                               "   (entity-level setter)" if ed.get("setter") == "entity" else ""))
        for t in trace:
            for r in case["rounds"]:
                for ed in r:
                    print("reads   : %s  before %r | after the assignment %r | after serialise + parse %r" % (
                        ".".join(ed["path"]), rec_get(t["before"], ed["path"]), rec_get(t["after"], ed["path"]),
                        rec_get(t["got"], ed["path"])))
        print("expected: the parsed object covers the edited one;", "FAILS: " + why if why else "holds")
        if why:
            print("VIOLATION property=C10 replay=(replayed)")
            return 1
        return 0
    if "payload" in case and "paths" in case:
        # payload stage: parse -> serialise -> parse on the implementation, pread on every recorded modelled path
        p = unjson(case["payload"])
        r = real_reser_msgs(conv, p)
        print("payload :", json.dumps(case["payload"])[:1000])
        if r[0] != "ok":
            print("observed: raised", r[2])
            print("VIOLATION property=C10 replay=(replayed)")
            return 1
        strict, value = path_report([tuple(x) for x in case["paths"]], r[2], r[4])
        why = value[0] if value else (strict[0] if (case.get("strict") and strict) else None)
        print("received bytes      :", r[1].hex()[:400])
        print("re-serialised bytes :", r[3].hex()[:400])
        print("expected: every modelled field path reads the same%s;" %
              (" (presence included)" if case.get("strict") else " value (nothing present dropped or altered)"),
              "FAILS: " + why if why else "holds")
        if why:
            print("VIOLATION property=C10 replay=(replayed)")
            return 1
        return 0
    if "payload" in case:
        p = unjson(case["payload"])
        r = real_reser(base, conv, p)
        why = ("raised " + r[2]) if r[0] != "ok" else modelled_equal(base, conv, p, r[1])
        print("payload :", json.dumps(case["payload"])[:1000])
        print("observed:", r if r[0] != "ok" else json.dumps(jsonable(r[1]))[:1000])
        print("expected: every modelled field unchanged;", "FAILS: " + why if why else "holds")
        if why:
            print("VIOLATION property=C10 replay=(replayed)")
            return 1
        return 0
    if "object" not in case:
        print("nothing to replay on the implementation:", json.dumps(case)[:800])
        return 1
    v = unjson(case["object"])
    if case.get("via") == "entity":
        class C(object):
            tier = "quick"
            violations = []

            def violation(self, name, d, **kw):
                self.violations.append(d)
        c = C()
        entity_checks(c, base, [("replay", conv, v)])
        print("object  :", json.dumps(case["object"])[:1000])
        print("observed:", c.violations[0]["observed"] if c.violations else "entity round trip preserves every set field")
        if c.violations:
            print("VIOLATION property=C10 replay=(replayed)")
            return 1
        return 0
    obj = build_obj(base, conv, v)
    r = real_rt(base, conv, obj)
    why = ("raised " + r[2]) if r[0] != "ok" else covers(canon(base, conv, obj), r[1])
    print("object  :", json.dumps(case["object"])[:1000])
    print("returned:", r[2] if r[0] != "ok" else json.dumps(jsonable(r[1]))[:1000])
    print("expected: every set field returned with the same value;", "FAILS: " + why if why else "holds")
    if why and reviewed_domain(base, conv, canon(base, conv, obj)):
        print("VIOLATION property=C10 replay=(replayed)")
        return 1
    return 0
