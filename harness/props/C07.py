"""C07 — mandatory acknowledgements are sent exactly once and match the stanza.

Same dispatch model (coq/C06/C06Dispatch.v) and the same layer-set rig as C06; this check runs the
answer-bearing kinds (all notification types incl. unknown ones and `encrypt`, call kinds, server
ping, message payloads the library cannot present) with many more generated ids/JIDs/participants."""
import random
from .. import modelrun
from .. import c06common as C
from .. import c06rig as R

ASSUME = [
    "model and ties as for C06 (coq/C06/C06Dispatch.v, translator c06tables = ast extraction cross-checked against "
    "the evaluated helpers/handleMaps, evaluated table when the source shape is not recognised, exhaustive kind x selection sweep "
    "through the real stack); C07 adds the answer payloads (ack id/class/type/to/participant, receipt "
    "id/to/participant/type/call-id, pong id/to/xmlns) to the comparison and to the oracle",
    "domain: notification/call stanzas whose mandatory attributes parse (t present for kinds the library parses); "
    "messages well-formed in the sense type=media <=> proto has a mediatype; `type=media` without mediatype is "
    "answered by two layers (observation outside the domain, lemma media_without_mediatype_two_receipts, not an alarm)",
    "media messages belong to the optional media module: with the module left out they produce nothing, incl. no "
    "receipt (C06 off-is-silent, theorem C07_media_off_silent)",
    "the encryption layers' own key upload/fetch iq after an encrypt notification is not an answer and is ignored",
    "the model describes the code with fixes/C07-encrypt-ack-participant.patch and "
    "fixes/C07-unsupported-with-skdm-receipt.patch applied (witnesses of the unrepaired code: "
    "C07_notification_ack_unrepaired_refuted, C07_unsupported_with_skdm_refuted)",
    "connection events: every sequence over {AUTHED, DISCONNECT, DISCONNECTED, CONNECTED} up to length 3 (quick) / 4 "
    "(thorough) is delivered to one real stack without encryption layers (CONNECTED/DISCONNECTED emitted from below "
    "the protocol group like the network layer does, AUTHED/DISCONNECT broadcast from inside the protocol group like "
    "the authentication layer does), with the keep-alive interval property unset / 0 / 50; before the first and after "
    "every event a server ping and a status notification are delivered and judged by the per-stanza oracle; not in the "
    "Coq model (the model has no connection state: the statement is per stanza); with interval 50/unset the "
    "library's real keep-alive thread is started by AUTHED, never fires within a case, is stopped at the end of it",
    "histories: 40 (quick) / 600 (thorough) random sequences of 6-16 answer-bearing stanzas through ONE stack instance, "
    "with earlier ids re-used by other stanzas and whole stanzas delivered again, compared step by step with the "
    "model's run_trace and judged by the per-stanza oracle (theorems C07_*_history)",
]


def select(k):
    return k["dir"] == "recv" and (k["c07"] is not None or k["name"].startswith("recv.message.")
                                   or k["name"].startswith("recv.notification.") or k["name"].startswith("recv.call."))


def run(ctx):
    gen = C.regenerate(ctx)
    ctx.prove()
    exe = ctx.build_model("C06") if gen is not None else None
    model = modelrun.Model(exe) if exe else None
    table = model.call("run_kind_table", []) if model else None
    profile = R.make_profile(ctx.scratch)
    stats = C.new_stats()
    nvec = 6 if ctx.tier == "quick" else 30
    polluted = bool(gen and gen["history_findings"])    # see harness/props/C06.py
    if polluted:
        ctx.notes.append("sweeps not run: the stack-builder helpers return different values after earlier calls in "
                         "the same process (see the oracle:helper-call-history records)")
        ctx.coverage["sweeps_skipped"] = "helper values depend on the call history"
    else:
        try:
            C.sweep(ctx, model, table, select, nvec, profile, stats, judge_answers=True)
            C.history_sweep(ctx, model, select, 40 if ctx.tier == "quick" else 600, stats, judge_answers=True)
            C.traffic_sweep(ctx, model, 1 if ctx.tier == "quick" else 4, profile, stats, judge_answers=True)
            C.lifecycle_sweep(ctx, 3 if ctx.tier == "quick" else 4, profile, stats)
        except Exception as e:
            if gen is not None:                             # see harness/props/C06.py
                raise
            ctx.notes.append("sweeps aborted on a tree the translator could not use: %s: %s" % (type(e).__name__, e))
    if model:
        model.close()
        ctx.ties["correspondence"] = "ok" if stats["mismatches"] == 0 else "broken"
    if gen is None and not ctx.violations:
        ctx.tie_broken_without_input("translator:c06tables", ctx.ties.get("translator:c06tables"))
    if not ctx.proof_ok and not ctx.violations:
        ctx.tie_broken_without_input("theorem:" + ctx.failing_theorem(), ctx.ties.get("proof"))
    if model is None and gen is not None and not ctx.violations:
        ctx.tie_broken_without_input("model-build:C06", ctx.ties.get("model-build:C06"))
    K = C.kinds()
    sel = [k for k in K.KINDS if select(k)]
    ctx.coverage["evaluations"] = stats["evaluations"]
    ctx.coverage["distinct_nontrivial"] = len(stats["distinct"])
    ctx.coverage["kinds"] = len(sel)
    ctx.coverage["kinds_by_answer"] = dict((c, len([k for k in sel if k["c07"] == c])) for c in
                                           set(k["c07"] for k in sel))
    ctx.coverage["input_distribution"] = {"module_selections": 16, "with_and_without_encryption_layers": 2,
                                          "field_vectors_per_cell": nvec}
    ctx.coverage["histories_on_one_stack"] = {"histories": stats.get("histories", 0), "steps": stats.get("history_steps", 0),
                                              "steps_reusing_an_earlier_id_or_stanza": stats.get("history_id_reuses", 0)}
    ctx.coverage["connection_event_sequences"] = dict(stats.get("lifecycle", {}), threads=stats.get("lifecycle_threads", {}),
                                                      probes_after_every_prefix=list(C.LIFECYCLE_PROBES))
    ctx.coverage["exhaustive"] = False
    for k in sel[::9]:
        obj = k["gen"](random.Random(ctx.seed))
        ctx.add_sample({"kind": k["name"], "stanza": R.show(obj)})
    return ctx.finish(
        rule="case = (answer-bearing incoming kind, module selection, with/without encryption layers, generated "
             "id/JID/participant/type/children vector); exhaustive over kinds x 16 x 2; distinct_nontrivial = distinct "
             "(kind, selection, axolotl, feature vector) tuples run through the real stack",
        assumptions_text=ASSUME)


def replay(ctx, data):
    rc = C.replay_translator_case(ctx, data)
    if rc is not None:
        return rc
    return C.replay_case(ctx, data, R.make_profile(ctx.scratch))
