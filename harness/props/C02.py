"""C02 — wire-format conformance against the independent spec (coq/C02) and reference dictionary."""
import os, json, zlib, itertools, hashlib
from .. import modelrun, codec_common as cc
from ..env import VERIF
from ..translators import c01_dict

ASSUME = [
    "the independent implementation is the Coq relation Frame/EncNode/EncStr (coq/C02/C02Spec.v) written from the "
    "published format; the executable decoder used on the real encoder's bytes is the model decoder over the pinned "
    "reference dictionary, proved complete for that relation (C02_accepts_all); the executable peer is ref_encode, "
    "proved to emit only frames of the relation for every choice vector (C02_reference_encoder_sound)",
    "reference dictionary = the table shipped at the pinned commit (coq/C02/C02RefDict.v, harness/ref/tokendict.json); "
    "no network to fetch WhatsApp's own copy",
    "zlib: abstract `inflate` in the theorems; the harness uses real zlib.compress/decompress for deflated frames",
    "modelled, not verified: Python dict order, Latin-1 identification of str and bytes, Python recursion limit",
]


def ref_tables():
    j = json.load(open(os.path.join(VERIF, "harness", "ref", "tokendict.json")))
    return j["primary"], j["secondary"]


def check_ref_copies(ctx):
    """the JSON copy used by the search must be the Coq reference copy"""
    p, s = ref_tables()
    want = c01_dict.render(p, s, name="RefD").replace("primary_words", "ref_primary").replace("secondary_words", "ref_secondary")
    have = open(os.path.join(VERIF, "coq", "C02", "C02RefDict.v")).read()
    body = lambda x: x[x.index("Definition ref_primary"):]
    if body(want) != body(have):
        ctx.tie_broken_without_input("reference-copies-differ", "harness/ref/tokendict.json vs coq/C02/C02RefDict.v")


def peer_tree(g, depth=0):
    """trees a peer may send: like Gen.tree but also empty attribute values and packed-looking content"""
    r = g.rng
    tag = g.string()
    attrs = g.attrs(r.choice([0, 1, 1, 2, 4]))
    if attrs and r.random() < .15:
        attrs[-1] = (attrs[-1][0], b"")
    c = r.random()
    if depth >= 3 or c < .3:
        return (tag, attrs, None, [])
    if c < .65:
        d = r.choice([g.data(), g.digits(r.randint(1, 30)), g.hexs(r.randint(1, 30)), r.choice(g.words),
                      g.digits(5) + b"@s.whatsapp.net", b""])
        return (tag, attrs, d, [])
    return (tag, attrs, None, [peer_tree(g, depth + 1) for _ in range(r.choice([1, 2, 3]))])


def run(ctx):
    try:
        prim, sec = c01_dict.regenerate()
        ctx.ties["translator:c01_dict"] = "ok"
        ctx.coverage["dictionary_translator_path"] = getattr(c01_dict.read_tables, "last_path", "?")
    except Exception as e:
        ctx.ties["translator:c01_dict"] = "broken: %s" % e
        prim = sec = None
    check_ref_copies(ctx)
    ctx.prove()
    exe = ctx.build_model("C02")
    exe1 = ctx.build_model("C01") if prim is not None else None
    enc, dec, td = cc.impl_objects()
    rp, rs = ref_tables()
    g = cc.Gen(ctx.rng, rp, rs)

    # 1. dictionary, entry by entry (the theorem C02_dictionary re-checks the regenerated table;
    #    here the implementation's table object is compared and a failing input is built)
    ip, is_ = list(td.dictionary), list(td.secondaryDictionary)
    diffs = [("primary", i) for i in range(max(len(ip), len(rp))) if i >= len(ip) or i >= len(rp) or ip[i] != rp[i]] + \
            [("secondary", i) for i in range(max(len(is_), len(rs))) if i >= len(is_) or i >= len(rs) or is_[i] != rs[i]]
    dict_inputs = []
    for which, i in diffs[:10]:
        for table in ((ip, rp) if which == "primary" else (is_, rs)):
            if i < len(table) and table[i] and table[i] not in ("xmlstreamstart", "xmlstreamend"):
                w = table[i].encode("latin-1")
                if not w.endswith(b"@"):
                    dict_inputs.append((b"a", [(b"k", w)], None, []))
    # 2. emits_valid: the real encoder's bytes are decoded by the verified decoder over the reference table
    trees = dict_inputs + cc.boundary_trees(g, "quick")[:: (3 if ctx.tier == "quick" else 1)] + \
        [g.tree() for _ in range(800 if ctx.tier == "quick" else 20000)]
    ie = [cc.impl_encode(enc, t) for t in trees]
    ok_idx = [i for i, b in enumerate(ie) if b is not None]
    emits_bad = 0
    if exe:
        res = modelrun.call_many_parallel(exe, "run_decode_ref", [ie[i] for i in ok_idx])
        for i, r in zip(ok_idx, res):
            got = cc.model_decode_result(r)
            if got != ("ok", trees[i]):
                emits_bad += 1
                ctx.violation("oracle:emitted-bytes-not-a-valid-frame-of-the-tree",
                              {"tree": cc.tree_full_json(trees[i]) if cc.tree_size(trees[i]) < 200 else None,
                               "tree_summary": cc.tree_json(trees[i]), "bytes": ie[i].hex()[:2000],
                               "reference_decoder": str(got)[:800]})
    if diffs and not ctx.violations:
        ctx.tie_broken_without_input("theorem:C02_dictionary", "tables differ at %r" % diffs[:10])
    # 3. accepts_all: the verified reference encoder plays the peer, the REAL decoder must return the tree
    ptrees = [peer_tree(g) for _ in range(500 if ctx.tier == "quick" else 8000)]
    ptrees += [t for t in cc.boundary_trees(g, "quick")[::40]]
    vectors = []
    for t in ptrees:
        vectors.append((t, bytes(64)))                                   # all-minimal
        vectors.append((t, bytes([255] * 64)))                           # JID-without-user wrapping everywhere
        vectors.append((t, bytes([4, 8, 12, 16, 20, 24, 28] * 10)))      # walk the option lists
        for _ in range(2 if ctx.tier == "quick" else 6):
            vectors.append((t, ctx.rng.randbytes(96)))
    if ctx.tier == "thorough":  # exhaustive over the first three choice points of small trees
        small = [(b"a", [(b"k", b"12@s.whatsapp.net")], None, []), (b"iq", [], b"1234", []),
                 (b"a", [], None, [(b"b", [(b"t", b"1F")], None, [])])]
        for t in small:
            for v in itertools.product(range(32), repeat=3):
                vectors.append((t, bytes(v) + bytes(61)))
    accept_bad = deflate_cases = 0
    frames = []
    if exe:
        frames = modelrun.call_many_parallel(exe, "run_ref_encode", [[v, cc.tree_to_sx(t)] for t, v in vectors])
        for (t, v), fr in zip(vectors, frames):
            if not isinstance(fr, bytes):
                ctx.violation("model:ref_encode", {"error": str(fr)[:200]}, found_input=False)
                continue
            variants = [fr]
            if len(frames) and ctx.rng.random() < .25:
                variants.append(b"\x02" + zlib.compress(fr[1:]))
                deflate_cases += 1
            for f in variants:
                got = cc.impl_decode(dec, f)
                if got != ("ok", t):
                    accept_bad += 1
                    ctx.violation("oracle:valid-frame-not-decoded-to-its-tree",
                                  {"tree": cc.tree_full_json(t) if cc.tree_size(t) < 200 else None, "tree_summary": cc.tree_json(t),
                                   "choices": v.hex(), "frame": f.hex()[:3000], "decoded": str(got)[:800]})
        # correspondence of the decoder model (over D) on the same frames, incl. deflated ones through the oracle
        if exe1:
            fl = [f for f in frames if isinstance(f, bytes)][:3000]
            mdr = modelrun.call_many_parallel(exe1, "run_decode", fl)
            for f, r in zip(fl, mdr):
                a, c = cc.impl_decode(dec, f), cc.model_decode_result(r)
                if not cc.same_decode(a, c):
                    ctx.violation("correspondence:C01.decode(peer frames)", {"frame": f.hex()[:3000], "impl": str(a)[:400], "model": str(c)[:400]}, found_input=False)

            def inflate(q):
                try:
                    return [zlib.decompress(q)]
                except zlib.error:
                    return []
            m = modelrun.Model(exe1, oracle=inflate)
            for f in fl[:150]:
                z = b"\x02" + zlib.compress(f[1:])
                if ctx.rng.random() < .2:
                    z = z[:-3]  # damaged stream: both must reject
                a, c = cc.impl_decode(dec, z), cc.model_decode_result(m.call("orun_decode", z))
                if not cc.same_decode(a, c):
                    ctx.violation("correspondence:C01.decode(deflate)", {"frame": z.hex()[:3000], "impl": str(a)[:400], "model": str(c)[:400]}, found_input=False)
            m.close()
    # large compressed frames: a peer may deflate ANY valid frame, also one that inflates to more than 2^20 bytes
    # (a size/streaming limit in the inflate step misbehaves exactly there).  The frame is hand-built here from
    # the format (list header, raw tag, 20/31-bit binary), independent of the library's encoder.
    def raw_str(b):                                   # 252 len8 | 253 len20 | 254 len31
        n = len(b)
        if n < 256:
            return bytes([252, n]) + b
        if n < (1 << 20):
            return bytes([253, (n >> 16) & 0x0F, (n >> 8) & 0xFF, n & 0xFF]) + b
        return bytes([254, (n >> 24) & 0x7F, (n >> 16) & 0xFF, (n >> 8) & 0xFF, n & 0xFF]) + b

    def list_hdr(n):
        return bytes([248, n]) if n < 256 else bytes([249, n >> 8, n & 0xFF])
    bigs = []
    sizes = [(1 << 20) - 64, (1 << 20) - 1, 1 << 20, (1 << 20) + 1, 1500000] + ([3 << 20, 5000000] if ctx.tier == "thorough" else [])
    for n in sizes:
        payload = bytes((i * 7 + n) & 0xFF for i in range(251)) * (n // 251 + 1)
        payload = payload[:n]
        body = list_hdr(2) + raw_str(b"enc") + raw_str(payload)
        bigs.append(((b"enc", [], payload, []), body))
    for nkids in (20000,) if ctx.tier == "quick" else (20000, 60000):
        kid = list_hdr(3) + raw_str(b"item") + raw_str(b"id") + raw_str(b"0123456789abcdef" * 3)
        body = list_hdr(2) + raw_str(b"list") + list_hdr(nkids) + kid * nkids
        bigs.append(((b"list", [], None, [(b"item", [(b"id", b"0123456789abcdef" * 3)], None, [])] * nkids), body))
    big_cases = 0
    for t, body in bigs:
        for f in (b"\x00" + body, b"\x02" + zlib.compress(body)):
            big_cases += 1
            got = cc.impl_decode(dec, f)
            if got != ("ok", t):
                accept_bad += 1
                ctx.violation("oracle:valid-frame-not-decoded-to-its-tree",
                              {"tree": None, "tree_summary": cc.tree_json(t), "frame_kind": "deflated" if f[0] == 2 else "plain",
                               "inflated_body_bytes": len(body), "frame": None if len(f) > 6000 else f.hex(),
                               "rebuild": "tag %r, %s" % (t[0], ("%d data bytes (i*7+n)&255 pattern" % len(t[2])) if t[2] else "%d identical <item id=...> children" % len(t[3])),
                               "decoded": str(got)[:300]})
    ctx.coverage["large_frames_plain_and_deflated"] = big_cases
    if not ctx.proof_ok and not ctx.violations:
        ctx.tie_broken_without_input("theorem:" + ctx.failing_theorem(), ctx.ties.get("proof"))
    for k, v in list(ctx.ties.items()):
        if k.startswith(("translator", "model-build")) and v != "ok" and not ctx.violations:
            ctx.tie_broken_without_input(k, v)
    seen = set(hashlib.sha1(f).digest() for f in frames if isinstance(f, bytes))
    ctx.coverage.update({"evaluations": len(trees) + len(vectors), "distinct_nontrivial": len(seen),
                         "emit_cases": len(trees), "peer_frames": len(vectors), "distinct_peer_frames": len(seen),
                         "deflated_frames": deflate_cases, "dictionary_entries_compared": len(rp) + len(rs),
                         "dictionary_differences": len(diffs), "emit_failures": emits_bad, "accept_failures": accept_bad})
    for (t, v), fr in list(zip(vectors, frames))[3:40:9]:
        ctx.add_sample({"tree": cc.tree_json(t, 40), "choices": v[:8].hex(), "frame": fr.hex()[:120] if isinstance(fr, bytes) else str(fr)})
    return ctx.finish(
        rule="emit direction: C01's boundary subset + seeded random trees, real encoder -> verified reference-table decoder; "
             "accept direction: peer trees (incl. empty values, packed/token/JID-valued content) x choice vectors "
             "(all-minimal, all-JID-wrap, option walk, random; thorough: exhaustive over the first 3 choice points of 3 small "
             "trees) through the verified ref_encode -> real decoder, 25% additionally zlib-deflated; non-trivial = distinct frame bytes",
        assumptions_text=ASSUME)


def replay(ctx, data):
    case = data["case"]
    enc, dec, _ = cc.impl_objects()
    if case.get("frame"):
        f = bytes.fromhex(case["frame"])
        got = cc.impl_decode(dec, f)
        print("decoded:", str(got)[:800])
        if case.get("tree"):
            t = cc.tree_from_full_json(case["tree"])
            if got != ("ok", t):
                print("VIOLATION property=C02 replay=(replayed)")
                return 1
    elif case.get("tree"):
        t = cc.tree_from_full_json(case["tree"])
        print("encoded:", (cc.impl_encode(enc, t) or b"").hex()[:800])
    return 0
