"""C20 — registration requests: token, parameter encoding, encryption.
Model: coq/C20; implementation: WARequest.urlencode / urlencodeParams / encryptParams,
AndroidYowsupEnv.getToken; constants via harness/translators/c20_env.py.
"""
import os, re, base64, hashlib, hmac as _hmac, urllib.parse
from ..checklib import Ctx
from .. import modelrun
from ..translators import c20_env

ASSUME = [
    "modelled, not verified: SHA-1 (hashlib), X25519 key generation/agreement (axolotl Curve), AES-GCM (cryptography "
    "AESGCM) are Section variables; enc_prims_ok assumes DH commutativity dh(pub a, priv b) = dh(pub b, priv a), "
    "aead_dec inverts aead_enc on byte strings, public keys are 32 bytes, outputs are byte strings; the harness "
    "runs the extracted model with the real primitives as oracles",
    "base64, hex, UTF-8 (str.encode) and str(int) are modelled concretely in Coq and compared with Python's on "
    "every run; urllib.parse.quote(c, safe='') = 'A-Za-z0-9_.-~ literal, else %XX upper-case' is modelled "
    "(urllib_quote_byte) and exercised on all 256 bytes",
    "percent_decode is the model of urllib.parse.unquote_to_bytes (compared on random incl. malformed input)",
    "registration constants: regenerated from env_android.py by a fail-closed ast translator on every run and "
    "proved equal to the pinned copy coq/C20/C20Ref.v (the pinned commit's own values; no network to fetch "
    "WhatsApp's); the harness's independent HMAC uses the pinned copy",
    "freshness of the ephemeral key is a property of os.urandom and only tested (consecutive blobs differ in "
    "the ephemeral public key); the theorem says each call takes its own draw and nothing is stored",
    "parameter keys are emitted unescaped by the code ('%s=%s'); C20_params_order assumes keys without '&'/'=' "
    "(every key yowsup uses is a plain identifier); lone surrogates are outside the str domain (not Unicode "
    "scalar values; str.encode and urllib reject them)",
    "the model functions are pure; that the implementation's are too (no dependence on earlier calls on the same "
    "WARequest / env object or on class-level state) is established by driving long-lived objects through call "
    "sequences, not proved",
    "the tie model<->code is differential testing: all 256 single bytes, all code points below 0x300 and the "
    "UTF-8 length boundaries exhaustively, random bytes/str/int values and parameter lists, the parameter list "
    "of a real WACodeRequest",
]

ALPHABET = re.compile(r"^(?:[A-Za-z0-9.]|%[0-9a-f]{2})*\Z")


# ----------------------------------------------------------------------------------------
def enc_value(v):
    """Python value -> sx value of C20Run.sx_value"""
    if isinstance(v, bytes):
        return [0, v]
    if isinstance(v, str):
        return [1, [ord(c) for c in v]]
    return [2, v < 0, abs(v).to_bytes((abs(v).bit_length() + 7) // 8, "big")]


def value_bytes(v):
    if isinstance(v, bytes):
        return v
    if isinstance(v, str):
        return v.encode("utf-8")
    return str(v).encode("ascii")


def jsonable(v):
    if isinstance(v, bytes):
        return ["bytes", v.hex()]
    if isinstance(v, str):
        return ["str", [ord(c) for c in v]]
    return ["int", str(v)]


def unjson(j):
    if j[0] == "bytes":
        return bytes.fromhex(j[1])
    if j[0] == "str":
        return "".join(chr(c) for c in j[1])
    return int(j[1])


_SHARED = {}


def shared_request():
    """one long-lived WARequest object: calls made through it must not depend on earlier calls"""
    if "req" not in _SHARED:
        _SHARED["req"] = new_request_object()
    return _SHARED["req"]


def fresh_class(modname, clsname):
    """a pristine copy of a class (module reloaded): used only to shrink a history-dependent failure to a short
    call sequence that reproduces from a fresh process"""
    import importlib
    return getattr(importlib.reload(importlib.import_module(modname)), clsname)


def shrink_history(history, last, run_pair):
    """find one earlier call x such that [x, last] alone fails; else the tail of the history"""
    seen = set()
    for x in reversed(history[-6000:]):
        k = repr(x)
        if k in seen:
            continue
        seen.add(k)
        try:
            if run_pair(x, last):
                return [x, last]
        except Exception:
            pass
    return history[-40:] + [last]


def impl_urlencode(v, via_instance=False):
    from yowsup.common.http.warequest import WARequest
    try:
        r = (shared_request() if via_instance else WARequest).urlencode(v)
        return r if isinstance(r, str) else ("notstr", repr(r))
    except Exception as e:
        return ("exn", type(e).__name__)


def impl_params(ps, via_instance=False):
    from yowsup.common.http.warequest import WARequest
    try:
        r = (shared_request() if via_instance else WARequest).urlencodeParams(ps)
        return r if isinstance(r, str) else ("notstr", repr(r))
    except Exception as e:
        return ("exn", type(e).__name__)


def oracle_value(v, enc):
    """None if fine, else what is wrong: standard decoding must return the value; alphabet"""
    if not isinstance(enc, str):
        return "urlencode did not return text: %r" % (enc,)
    try:
        if urllib.parse.unquote_to_bytes(enc) != value_bytes(v):
            return "unquote_to_bytes gives %r" % urllib.parse.unquote_to_bytes(enc)[:60]
        if isinstance(v, str) and urllib.parse.unquote(enc, errors="strict") != v:
            return "unquote gives different text"
        if isinstance(v, int) and not isinstance(v, bool) and int(urllib.parse.unquote(enc)) != v:
            return "decoded integer differs"
    except Exception as e:
        return "standard decoder failed: %r" % e
    if not ALPHABET.match(enc):
        return "output alphabet: expected only [A-Za-z0-9.] and lower-case %xx escapes"
    return None


def std_parse(s):
    """independent query-string reading: split on &, then on the first =, unquote the value"""
    if s == "":
        return []
    out = []
    for piece in s.split("&"):
        k, v = piece.split("=", 1)
        out.append((k.encode("utf-8"), urllib.parse.unquote_to_bytes(v)))
    return out


def oracle_params(ps, enc):
    if not isinstance(enc, str):
        return "urlencodeParams did not return text: %r" % (enc,)
    try:
        got = std_parse(enc)
    except Exception as e:
        return "not parseable: %r" % e
    exp = [(k.encode("utf-8"), value_bytes(v)) for k, v in ps]
    if got != exp:
        return "parsed back to %r" % (got[:4],)
    return None


# ----------------------------------------------------------------------------------------
def rand_str(rng, n):
    out = []
    for _ in range(n):
        c = rng.random()
        if c < .35:
            cp = rng.choice(b"abcXYZ019")
        elif c < .6:
            cp = rng.randint(0, 127)
        elif c < .75:
            cp = rng.randint(128, 0x7FF)
        elif c < .9:
            cp = rng.choice([rng.randint(0x800, 0xD7FF), rng.randint(0xE000, 0xFFFF)])
        else:
            cp = rng.randint(0x10000, 0x10FFFF)
        out.append(chr(cp))
    return "".join(out)


def rand_int(rng):
    c = rng.random()
    if c < .4:
        return rng.randint(-20, 120)
    if c < .7:
        return rng.randint(-10 ** 6, 10 ** 10)
    if c < .9:
        return rng.choice([-1, 1]) * rng.getrandbits(rng.choice([31, 32, 63, 64, 65, 128]))
    return rng.choice([0, -1, 9, 10, 99, 100, -100, 2 ** 63, -2 ** 63, 10 ** 30])


def rand_value(rng):
    c = rng.random()
    if c < .35:
        return rng.randbytes(rng.choice([0, 1, 2, 5, 20, 40]))
    if c < .75:
        return rand_str(rng, rng.choice([0, 1, 2, 5, 12, 30]))
    return rand_int(rng)


KEY_CHARS = "abcdefghijklmnopqrstuvwxyzABCXYZ0123456789_"


def rand_key(rng):
    n = rng.choice([0, 1, 2, 4, 8, 12])
    if rng.random() < .85:
        return "".join(rng.choice(KEY_CHARS) for _ in range(n))
    s = rand_str(rng, n)
    return "".join(c for c in s if c not in "&=")


def gen_values(ctx):
    rng = ctx.rng
    vals = [bytes([b]) for b in range(256)]                                   # exhaustive: every byte
    vals += [chr(cp) for cp in range(0x300)]                                  # every code point < 0x300
    vals += [chr(cp) for cp in (0x7FE, 0x7FF, 0x800, 0x801, 0xD7FF, 0xE000, 0xFFFD, 0xFFFF, 0x10000, 0x10001,
                                0x3FFFF, 0x40000, 0xFFFFF, 0x100000, 0x10FFFF)]
    vals += ["", b"", 0, -1, 1, 10, -10, "-_~.", b"-_~.", "a-b_c~d.e/f g+h=i&j%k", "%41", b"%41", "%2D-%2d"]
    vals += list(range(-12, 13))
    n = 1500 if ctx.tier == "quick" else 40000
    vals += [rand_value(rng) for _ in range(n)]
    return vals


def shrink_value(v, bad):
    """smallest element-wise piece of v on which `bad` still holds"""
    if isinstance(v, (bytes, str)):
        for i in range(len(v)):
            piece = v[i:i + 1]
            if bad(piece):
                return piece
    return v


# ----------------------------------------------------------------------------------------
class Recorder(object):
    """wraps axolotl's Curve.generateKeyPair (a public API of python-axolotl) to learn which
    ephemeral key pair the library drew, so that the model can be run on the very same draw"""

    def __init__(self):
        self.pairs = []

    def __enter__(self):
        from axolotl.ecc.curve import Curve
        self.Curve = Curve
        self.orig = Curve.__dict__["generateKeyPair"]
        rec = self

        def gen(*a, **k):
            kp = rec.orig.__func__(*a, **k) if hasattr(rec.orig, "__func__") else rec.orig(*a, **k)
            rec.pairs.append((bytes(kp.getPrivateKey().serialize()), bytes(kp.getPublicKey().serialize()[1:])))
            return kp
        Curve.generateKeyPair = staticmethod(gen)
        return self

    def __exit__(self, *a):
        setattr(self.Curve, "generateKeyPair", self.orig)


def make_oracle(recorded, stats):
    from axolotl.ecc.curve import Curve
    from axolotl.ecc.djbec import DjbECPublicKey, DjbECPrivateKey
    from cryptography.hazmat.primitives.ciphers.aead import AESGCM

    def oracle(q):
        stats["oracle_calls"] = stats.get("oracle_calls", 0) + 1
        try:
            pid = q[0]
            if pid == 1:
                return hashlib.sha1(q[1]).digest()
            if pid == 2:
                if q[1] < len(recorded):
                    return list(recorded[q[1]])
                kp = Curve.generateKeyPair()
                return [bytes(kp.getPrivateKey().serialize()), bytes(kp.getPublicKey().serialize()[1:])]
            if pid == 3:
                return bytes(Curve.calculateAgreement(DjbECPublicKey(bytes(q[1])), DjbECPrivateKey(bytes(q[2]))))
            if pid == 4:
                return AESGCM(q[1]).encrypt(q[2], q[3], q[4])
            if pid == 5:
                try:
                    return [AESGCM(q[1]).decrypt(q[2], q[3], q[4])]
                except Exception:
                    return []
        except Exception as e:
            stats["oracle_errors"] = stats.get("oracle_errors", 0) + 1
            stats["oracle_last_error"] = repr(e)[:200]
        return [] if q and q[0] == 5 else ([b"", b""] if q and q[0] == 2 else b"")
    return oracle


def harness_decrypt(blob, priv):
    """independent reading of the blob: cryptography's X25519 + AESGCM.  -> plaintext bytes"""
    from cryptography.hazmat.primitives.asymmetric.x25519 import X25519PrivateKey, X25519PublicKey
    from cryptography.hazmat.primitives.ciphers.aead import AESGCM
    raw = base64.b64decode(blob, validate=True)
    epub, ct = raw[:32], raw[32:]
    shared = X25519PrivateKey.from_private_bytes(priv).exchange(X25519PublicKey.from_public_bytes(epub))
    return epub, AESGCM(shared).decrypt(b"\x00" * 12, ct, b"")


def new_request_object():
    from yowsup.common.http.warequest import WARequest
    return object.__new__(WARequest)    # encryptParams uses no instance state


def real_encrypt(params, pubkey_obj, rec, req=None):
    """calls the real WARequest.encryptParams (on `req`, default a fresh object);
    returns (blob bytes | None, error text | None)"""
    req = req if req is not None else new_request_object()
    try:
        r = req.encryptParams(params, pubkey_obj)
    except Exception as e:
        return None, "encryptParams raised %r" % (e,)
    if not (isinstance(r, list) and len(r) == 1 and isinstance(r[0], tuple) and len(r[0]) == 2 and r[0][0] == "ENC"
            and isinstance(r[0][1], (bytes, str))):
        return None, "unexpected return shape %r" % (r,)
    blob = r[0][1]
    return (blob if isinstance(blob, bytes) else blob.encode("ascii")), None


# ----------------------------------------------------------------------------------------
def coqchk(ctx):
    """thorough only: independent re-check of the compiled closure with coqchk -o"""
    import subprocess
    from ..checklib import COQ
    if ctx.tier != "thorough" or not ctx.proof_ok:
        return
    try:
        p = subprocess.run(["coqchk", "-silent", "-o", "-Q", COQ, "YV", "YV.Properties.%s" % ctx.pid],
                           stdout=subprocess.PIPE, stderr=subprocess.STDOUT, text=True, timeout=1500)
    except Exception as e:
        ctx.coverage["coqchk"] = "not run: %r" % (e,)
        return
    summary = " ".join(l.strip() for l in p.stdout.splitlines() if l.strip().startswith("*"))
    ctx.coverage["coqchk"] = ("ok: " if p.returncode == 0 else "FAILED: ") + summary[:600]
    if p.returncode != 0 or "Axioms: <none>" not in summary:
        ctx.proof_ok = False
        ctx.ties["proof"] = "broken: coqchk: " + (summary or p.stdout[-300:])


def run(ctx):
    rng = ctx.rng
    consts = None
    try:
        consts = c20_env.regenerate()
        ctx.ties["translator:c20_env"] = "ok"
    except c20_env.TranslateError as e:
        ctx.ties["translator:c20_env"] = "broken: %s" % e
    ctx.prove()
    coqchk(ctx)
    exe = ctx.build_model("C20")
    stats = {}
    recorded = []
    model = modelrun.Model(exe, oracle=make_oracle(recorded, stats)) if exe else None
    evals = 0
    nontrivial = set()
    mism = {"urlencode": 0, "params": 0, "decode": 0, "token": 0, "blob": 0, "b64": 0, "utf8": 0}
    limit = {}

    def viol(name, case, found_input=True):
        limit[name] = limit.get(name, 0) + 1
        if limit[name] <= 2:
            ctx.violation(name, case, found_input=found_input)

    # ------------------------------------------------------------------ (i) urlencode
    vals = gen_values(ctx)
    impl = [impl_urlencode(v) for v in vals]
    mod = model.call_many("run_urlencode", [enc_value(v) for v in vals]) if model else None
    kinds = {"bytes": 0, "str": 0, "int": 0}
    for i, v in enumerate(vals):
        evals += 1
        kinds["bytes" if isinstance(v, bytes) else "str" if isinstance(v, str) else "int"] += 1
        enc = impl[i]
        bad = oracle_value(v, enc)
        hist_dep = False
        if bad:
            try:
                pristine = fresh_class("yowsup.common.http.warequest", "WARequest").urlencode(v)
                hist_dep = oracle_value(v, pristine) is None
            except Exception:
                hist_dep = False
            _SHARED.clear()
        if bad and hist_dep:              # right on a pristine class, wrong here: depends on earlier calls
            def pair_fails0(x, last):
                cls = fresh_class("yowsup.common.http.warequest", "WARequest")
                cls.urlencode(x)
                return oracle_value(last, cls.urlencode(last)) is not None
            short = shrink_history(vals[:i], v, pair_fails0)
            _SHARED.clear()
            viol("oracle:urlencode-history", {"op": "urlencode-seq", "values": [jsonable(x) for x in short],
                 "observed": repr(enc)[:200], "problem": bad,
                 "expected": "the encoding of the last value does not depend on earlier calls"})
        elif bad:
            sv = shrink_value(v, lambda x: oracle_value(x, impl_urlencode(x)) is not None)
            viol("oracle:urlencode", {"op": "urlencode", "value": jsonable(sv), "observed": repr(impl_urlencode(sv))[:200],
                                      "problem": oracle_value(sv, impl_urlencode(sv)) or bad,
                                      "expected": "percent-encoding that urllib decodes back to the value"})
        if mod is not None:
            m = mod[i]
            e = enc.encode("utf-8") if isinstance(enc, str) else enc
            if m != e:
                mism["urlencode"] += 1
            if m != e and not hist_dep:

                def differs(x):
                    r = impl_urlencode(x)
                    return model.call("run_urlencode", enc_value(x)) != (r.encode("utf-8") if isinstance(r, str) else r)
                sv = shrink_value(v, differs)
                ri = impl_urlencode(sv)
                viol("correspondence:C20.urlencode", {"op": "urlencode", "value": jsonable(sv), "impl": repr(ri)[:200],
                     "model": repr(model.call("run_urlencode", enc_value(sv)))[:200]},
                     found_input=oracle_value(sv, ri) is not None)
        if isinstance(enc, str) and enc.encode() != value_bytes(v):
            nontrivial.add(("v", repr(v)))
        if i % 733 == 0:
            ctx.add_sample({"value": jsonable(v) if len(repr(v)) < 80 else repr(v)[:80], "urlencode": repr(enc)[:100]})
    # histories: the model is a pure function, so a result must not depend on what was encoded before, nor on
    # whether the call goes through the class or through one long-lived object.  Look-alike values of different
    # types right after each other, then a shuffled re-run of a sample through the shared object.
    alike = ["1", b"1", 1, "1", "b'1'", b"b'1'", "a", b"a", "a", "-1", -1, b"-1", "", b"", 0, "0", b"0", "~", b"~",
             "\u00e9", "\u00e9".encode("utf-8"), "\u00e9".encode("latin-1"), "%c3%a9", "True"]
    sample = alike * 2 + [vals[rng.randrange(len(vals))] for _ in range(400 if ctx.tier == "quick" else 5000)]
    rng.shuffle(sample)
    sample = alike + sample
    prev = None
    for j, v in enumerate(sample):
        evals += 1
        enc = impl_urlencode(v, via_instance=(j % 2 == 0))
        alone_ok = oracle_value(v, enc) is None
        m = model.call("run_urlencode", enc_value(v)) if model else None
        if not alone_ok or (m is not None and m != (enc.encode("utf-8") if isinstance(enc, str) else enc)):
            fresh = impl_urlencode(v)

            def pair_fails(x, last):
                cls = fresh_class("yowsup.common.http.warequest", "WARequest")
                cls.urlencode(x)
                r = cls.urlencode(last)
                return oracle_value(last, r) is not None
            short = shrink_history(vals + sample[:j], v, pair_fails) if not alone_ok else [v]
            _SHARED.clear()
            viol("oracle:urlencode-history" if not alone_ok else "correspondence:C20.urlencode-history",
                 {"op": "urlencode-seq", "values": [jsonable(x) for x in short],
                  "observed": repr(enc)[:200], "same_call_again": repr(fresh)[:200], "model": repr(m)[:200],
                  "problem": oracle_value(v, enc) or "differs from the pure model",
                  "expected": "the encoding of the last value does not depend on earlier calls"},
                 found_input=not alone_ok)
            if m is not None:
                mism["urlencode"] += 1
        prev = v
    # the standard decoder vs the model's percent_decode, incl. malformed / upper-case escapes
    if model:
        ds = []
        for _ in range(400 if ctx.tier == "quick" else 8000):
            n = rng.choice([0, 1, 2, 3, 6, 12])
            ds.append(bytes(rng.choice(b"%%%%0123456789abcdefABCDEFgGxz.-~ ") if rng.random() < .9 else rng.randint(0, 255)
                            for _ in range(n)))
        got = model.call_many("run_percent_decode", ds)
        for d, g in zip(ds, got):
            evals += 1
            if g != urllib.parse.unquote_to_bytes(d):
                mism["decode"] += 1
                viol("correspondence:C20.percent_decode", {"op": "decode", "data": d.hex(), "model": repr(g),
                     "urllib": repr(urllib.parse.unquote_to_bytes(d))}, found_input=False)
        # UTF-8 / base64 / decimal models vs Python
        ss = [rand_str(rng, rng.choice([0, 1, 3, 10])) for _ in range(200 if ctx.tier == "quick" else 4000)]
        got = model.call_many("run_utf8", [[ord(c) for c in s] for s in ss])
        for s, g in zip(ss, got):
            evals += 1
            if g != s.encode("utf-8"):
                mism["utf8"] += 1
                viol("correspondence:C20.utf8", {"op": "utf8", "cps": [ord(c) for c in s], "model": repr(g)}, found_input=False)
        raws = [s.encode("utf-8") for s in ss] + [rng.randbytes(rng.choice([1, 2, 3, 4, 6])) for _ in range(len(ss))]
        got = model.call_many("run_utf8_decode", raws)
        for raw, g in zip(raws, got):
            evals += 1
            try:
                exp = [[ord(c) for c in raw.decode("utf-8")]]
            except UnicodeDecodeError:
                exp = None          # the model's reader is lenient (overlong forms etc.); no requirement
            if exp is not None and g != exp:
                mism["utf8"] += 1
                viol("correspondence:C20.utf8_decode", {"op": "utf8", "data": raw.hex(), "model": repr(g)[:200]},
                     found_input=False)
        bs = [rng.randbytes(n % 60) for n in range(200 if ctx.tier == "quick" else 3000)]
        got = model.call_many("run_b64encode", bs)
        got2 = model.call_many("run_b64decode", [base64.b64encode(b) for b in bs])
        for b, g, g2 in zip(bs, got, got2):
            evals += 1
            if g != base64.b64encode(b) or g2 != [b]:
                mism["b64"] += 1
                viol("correspondence:C20.base64", {"op": "b64", "data": b.hex(), "model": repr(g), "model_dec": repr(g2)},
                     found_input=False)
        bad64 = [bytes(rng.choice(b"ABCabc012+/=*- ") for _ in range(rng.choice([1, 2, 3, 4, 5, 8]))) for _ in range(150)]
        for d, g in zip(bad64, model.call_many("run_b64decode", bad64)):
            evals += 1
            try:
                exp = [base64.b64decode(d, validate=True)]
            except Exception:
                exp = []
            if g != [] and g != exp:     # whatever the strict model accepts, Python reads alike
                mism["b64"] += 1
                viol("correspondence:C20.base64-decode", {"op": "b64", "data": d.hex(), "model": repr(g), "python": repr(exp)},
                     found_input=False)
        ints = [z for z in (rand_int(rng) for _ in range(300)) if abs(z) < 2 ** 60]
        got = model.call_many("run_parse_decimal", [str(z).encode() for z in ints])
        for z, g in zip(ints, got):
            evals += 1
            if g != [[z < 0, abs(z)]]:
                viol("correspondence:C20.decimal", {"op": "decimal", "z": str(z), "model": repr(g)}, found_input=False)

    # ------------------------------------------------------------------ urlencodeParams
    plists = [[], [("a", "")], [("", "")], [("k", 1), ("k", 2)], [("b", "x"), ("a", "y")]]
    real_params = None
    try:
        from yowsup.config.v1.config import Config
        from yowsup.registration import WACodeRequest
        cfg = Config(phone="491234567890", cc="49", mcc="262", mnc="01", sim_mcc="262", sim_mnc="01")
        real_req = WACodeRequest("sms", cfg)
        real_params = list(real_req.params)
        plists.append(real_params)
    except Exception as e:
        real_req = None
        ctx.notes.append("could not build a real WACodeRequest (%r); its parameter list is not among the cases" % (e,))
    for _ in range(300 if ctx.tier == "quick" else 8000):
        n = rng.choice([1, 2, 3, 5, 8, 27])
        ps = [(rand_key(rng), rand_value(rng)) for _ in range(n)]
        if rng.random() < .3:      # make order observable: keys in descending order, duplicates
            ps.sort(key=lambda kv: kv[0], reverse=True)
        plists.append(ps)
    implp = [impl_params(ps, via_instance=(i % 2 == 1)) for i, ps in enumerate(plists)]
    modp = model.call_many("run_urlencode_params", [[[[ord(c) for c in k], enc_value(v)] for k, v in ps] for ps in plists]) \
        if model else None
    for i, ps in enumerate(plists):
        evals += 1
        enc = implp[i]
        bad = oracle_params(ps, enc)
        case = {"op": "params", "params": [[[ord(c) for c in k], jsonable(v)] for k, v in ps]}
        if bad:
            small = ps
            for a in range(len(ps)):           # shrink: one parameter, then one adjacent pair
                if oracle_params(ps[a:a + 1], impl_params(ps[a:a + 1])):
                    small = ps[a:a + 1]
                    break
            else:
                for a in range(len(ps) - 1):
                    if oracle_params(ps[a:a + 2], impl_params(ps[a:a + 2])):
                        small = ps[a:a + 2]
                        break
            viol("oracle:params", {"op": "params", "params": [[[ord(c) for c in k], jsonable(v)] for k, v in small],
                                   "observed": repr(impl_params(small))[:300],
                                   "problem": oracle_params(small, impl_params(small)),
                                   "expected": "k=v pieces joined by & in list order, values decoding to the originals"})
        if modp is not None:
            e = enc.encode("utf-8") if isinstance(enc, str) else enc
            if modp[i] != e:
                mism["params"] += 1
                viol("correspondence:C20.urlencodeParams", dict(case, impl=repr(enc)[:300], model=repr(modp[i])[:300]),
                     found_input=bad is not None)
            elif ctx.tier == "thorough" or i % 10 == 0:
                pp = model.call("run_parse_params", e)
                exp = [[[k.encode("utf-8"), value_bytes(v)] for k, v in ps]]
                if pp != exp and all("&" not in k and "=" not in k for k, _ in ps):
                    mism["params"] += 1
                    viol("correspondence:C20.parse_params", dict(case, model_parse=repr(pp)[:300]), found_input=False)
        if len(ps) >= 2:
            nontrivial.add(("p", repr(ps)))

    # ------------------------------------------------------------------ (ii) token
    from yowsup.env import YowsupEnv
    try:
        from yowsup.env.env_android import AndroidYowsupEnv
        envobj = AndroidYowsupEnv()
    except Exception as e:
        envobj = None
        viol("oracle:token-env", {"op": "token", "problem": "AndroidYowsupEnv unavailable: %r" % (e,)})
    ref = c20_env.read_ref()
    ref_key, ref_sig, ref_cls = (base64.b64decode(ref[n], validate=True) for n in ("_KEY", "_SIGNATURE", "_MD5_CLASSES"))
    if consts is not None and envobj is not None:
        live = {n: getattr(AndroidYowsupEnv, n, None) for n in ("_KEY", "_SIGNATURE", "_MD5_CLASSES")}
        if live != consts:
            ctx.ties["translator:c20_env"] = "broken: class attributes at run time differ from the translated literals"
    phones = ["", "0", "1234567890", "491234567890", "15551234567", "+49 123", "٠١٢٣", "\U0001F4DE1"]
    phones += ["".join(rng.choice("0123456789") for _ in range(rng.randint(1, 15))) for _ in range(150 if ctx.tier == "quick" else 3000)]
    phones += [rand_str(rng, rng.choice([1, 4, 9])) for _ in range(50 if ctx.tier == "quick" else 1000)]
    for ph in phones:
        evals += 1
        case = {"op": "token", "phone": [ord(c) for c in ph]}
        exp = base64.b64encode(_hmac.new(ref_key[:64], ref_sig + ref_cls + ph.encode("utf-8"), hashlib.sha1).digest())
        try:
            got = envobj.getToken(ph)
            got = got if isinstance(got, bytes) else (got.encode() if isinstance(got, str) else got)
        except Exception as e:
            got = ("exn", type(e).__name__)
        okay = got == exp
        alone_fine = False
        if not okay:
            try:
                alone_fine = fresh_class("yowsup.env.env_android", "AndroidYowsupEnv")().getToken(ph) == exp
            except Exception:
                alone_fine = False
        if not okay and alone_fine:       # right on a pristine object, wrong here: depends on earlier calls
            def tok_pair_fails0(x, last):
                e = fresh_class("yowsup.env.env_android", "AndroidYowsupEnv")()
                e.getToken(x)
                return e.getToken(last) != base64.b64encode(_hmac.new(
                    ref_key[:64], ref_sig + ref_cls + last.encode("utf-8"), hashlib.sha1).digest())
            short = shrink_history(phones[:phones.index(ph)], ph, tok_pair_fails0)
            viol("oracle:token-history", {"op": "token-seq", "phones": [[ord(c) for c in x] for x in short],
                 "observed": repr(got), "expected": repr(exp), "problem": "token depends on earlier calls"})
        elif not okay:
            viol("oracle:token", dict(case, observed=repr(got), expected=repr(exp),
                 problem="token != base64(HMAC-SHA1(key[:64], signature || classes-md5 || phone)) by hmac/hashlib "
                         "with the pinned constants"))
        if model and consts is not None:
            m = model.call("orun_token", [consts["_KEY"].encode(), consts["_SIGNATURE"].encode(),
                                          consts["_MD5_CLASSES"].encode(), [ord(c) for c in ph]])
            if m != [got]:
                mism["token"] += 1
                if not alone_fine:
                    viol("correspondence:C20.getToken", dict(case, impl=repr(got), model=repr(m)), found_input=not okay)
        nontrivial.add(("t", ph))
    # the registered/current environment is the android one and gives the same token
    try:
        cur = YowsupEnv.getCurrent().getToken("4915112345678")
        exp = base64.b64encode(_hmac.new(ref_key[:64], ref_sig + ref_cls + b"4915112345678", hashlib.sha1).digest())
        if cur != exp:
            viol("oracle:token", {"op": "token", "phone": [ord(c) for c in "4915112345678"], "via": "YowsupEnv.getCurrent()",
                                  "observed": repr(cur), "expected": repr(exp)})
    except Exception as e:
        viol("oracle:token", {"op": "token", "phone": [], "via": "YowsupEnv.getCurrent()", "observed": repr(e)})

    # histories: tokens for a shuffled re-run over two env objects and the registered singleton must be the same
    if envobj is not None:
        env2 = AndroidYowsupEnv()
        objs = [envobj, env2]
        try:
            objs.append(YowsupEnv.getCurrent())
        except Exception:
            pass
        again = phones[:12] * 2 + [phones[rng.randrange(len(phones))] for _ in range(100 if ctx.tier == "quick" else 2000)]
        rng.shuffle(again)
        prev = None
        for j, ph in enumerate(again):
            evals += 1
            exp = base64.b64encode(_hmac.new(ref_key[:64], ref_sig + ref_cls + ph.encode("utf-8"), hashlib.sha1).digest())
            try:
                got = objs[j % len(objs)].getToken(ph)
            except Exception as e:
                got = ("exn", type(e).__name__)
            if got != exp:
                def tok_pair_fails(x, last):
                    e = fresh_class("yowsup.env.env_android", "AndroidYowsupEnv")()
                    e.getToken(x)
                    return e.getToken(last) != base64.b64encode(_hmac.new(
                        ref_key[:64], ref_sig + ref_cls + last.encode("utf-8"), hashlib.sha1).digest())
                short = shrink_history(phones + again[:j], ph, tok_pair_fails)
                viol("oracle:token-history", {"op": "token-seq", "phones": [[ord(c) for c in x] for x in short],
                     "object": j % len(objs), "observed": repr(got),
                     "expected": repr(exp), "problem": "token depends on earlier calls / on the object used"})
            prev = ph
    # ------------------------------------------------------------------ (iii) encryptParams
    from axolotl.ecc.curve import Curve
    nblob = 40 if ctx.tier == "quick" else 600
    prev_epub = None
    blob_cases = plists[:6] + [plists[rng.randrange(len(plists))] for _ in range(nblob)]
    if real_params is not None:
        blob_cases.insert(6, real_params)      # small lists first, so a failing case is reported small
    fresh_ok = True
    for ps in blob_cases:
        evals += 1
        server = Curve.generateKeyPair()
        spriv = bytes(server.getPrivateKey().serialize())
        spub = bytes(server.getPublicKey().serialize()[1:])
        case = {"op": "blob", "params": [[[ord(c) for c in k], jsonable(v)] for k, v in ps]}
        with Recorder() as rec:
            blob, err = real_encrypt(ps, server.getPublicKey(), rec, req=shared_request())
            b2, err2 = real_encrypt(ps, server.getPublicKey(), rec)
        if blob is None or b2 is None:
            viol("oracle:blob", dict(case, problem=err or err2))
            continue
        expected_plain = impl_params(ps)
        expected_plain = expected_plain.encode("utf-8") if isinstance(expected_plain, str) else None
        try:
            epub, plain = harness_decrypt(blob, spriv)
            epub2, plain2 = harness_decrypt(b2, spriv)
        except Exception as e:
            viol("oracle:blob", dict(case, blob=blob.decode("ascii", "replace")[:200], server_priv=spriv.hex(),
                 problem="blob does not decrypt under the matching private key with X25519 + AES-GCM(nonce 0): %r" % (e,)))
            continue
        okay = True
        if plain != expected_plain or plain2 != expected_plain or oracle_params(ps, plain.decode("utf-8")):
            okay = False
            viol("oracle:blob", dict(case, decrypted=repr(plain)[:300], expected=repr(expected_plain)[:300],
                 problem="decrypted blob != urlencodeParams(params) in the original order"))
        if epub == epub2 or epub == prev_epub:
            okay = fresh_ok = False
            viol("oracle:blob-ephemeral", dict(case, problem="two consecutive blobs carry the same ephemeral public key",
                                               epub=epub.hex()))
        prev_epub = epub2
        if model:
            # model run on the very draws the library made (when they could be observed)
            usable = len(rec.pairs) == 2 and rec.pairs[0][1] == epub and rec.pairs[1][1] == epub2
            mps = [[[ord(c) for c in k], enc_value(v)] for k, v in ps]
            if usable:
                base = len(recorded)
                recorded.extend(rec.pairs)
                mb = model.call("orun_encrypt_calls", [spub, list(range(len(recorded))), base, [mps, mps]])
                if mb != [blob, b2]:
                    mism["blob"] += 1
                    viol("correspondence:C20.encryptParams", dict(case, impl=blob.decode("ascii", "replace")[:120],
                         model=repr(mb)[:240]), found_input=not okay)
            else:
                stats["blob_draws_not_observable"] = stats.get("blob_draws_not_observable", 0) + 1
                mb = model.call("orun_encrypt_calls", [spub, [], 0, [mps]])
                try:
                    if isinstance(mb, tuple) or harness_decrypt(mb[0], spriv)[1] != plain or len(mb[0]) != len(blob):
                        raise ValueError("differs")
                except Exception:
                    mism["blob"] += 1
                    viol("correspondence:C20.encryptParams", dict(case, model=repr(mb)[:240]), found_input=not okay)
            md = model.call("orun_decrypt_blob", [spriv, blob])
            if md != [plain]:
                mism["blob"] += 1
                viol("correspondence:C20.decrypt_blob", dict(case, model=repr(md)[:200], harness=repr(plain)[:200]),
                     found_input=not okay)
            # a wrong private key must not open it (model and harness agree)
            other = bytes(Curve.generateKeyPair().getPrivateKey().serialize())
            if model.call("orun_decrypt_blob", [other, blob]) != []:
                viol("correspondence:C20.decrypt_blob-wrongkey", dict(case), found_input=False)
        nontrivial.add(("b", blob))
    # histories on ONE object: every ordered pair (params_i, recipient_a) -> (params_j, recipient_b): each blob
    # must open under ITS recipient key to ITS parameter string (no carried-over secret, key or text)
    pool_ps = [[("cc", "49"), ("in", "123")], [("in", "123"), ("cc", "49")], [("cc", "49"), ("in", "124"), ("id", b"\x00~")]]
    pool_keys = [Curve.generateKeyPair() for _ in range(2)]
    combos = [(ps, kp) for ps in pool_ps for kp in pool_keys]
    hist_pairs = 0
    for c1 in combos:
        for c2 in combos:
            req = new_request_object()
            hist_pairs += 1
            evals += 2
            seen_epub = []
            for n, (ps, kp) in enumerate((c1, c2)):
                blob, err = real_encrypt(ps, kp.getPublicKey(), None, req=req)
                want = impl_params(ps)
                try:
                    epub, plain = harness_decrypt(blob, bytes(kp.getPrivateKey().serialize())) if blob else (None, None)
                except Exception as e:
                    epub, plain, err = None, None, "does not decrypt under its recipient key: %r" % (e,)
                if plain is None or plain != want.encode("utf-8") or epub in seen_epub:
                    viol("oracle:blob-history", {"op": "blob-seq", "calls": [
                        {"params": [[[ord(c) for c in k], jsonable(v)] for k, v in ps_], "recipient": pool_keys.index(kp_)}
                        for ps_, kp_ in (c1, c2)[:n + 1]], "failing_call": n,
                        "problem": err or ("ephemeral key reused" if epub in seen_epub else
                                           "decrypted to %r, expected %r" % (plain[:120], want[:120]))})
                    break
                seen_epub.append(epub)
    ctx.coverage["blob_history_pairs"] = hist_pairs
    # the whole request path, offline: send(preview=True) with ENC_PUBKEY replaced on the instance
    if real_req is not None:
        evals += 1
        from yowsup.common.http.warequest import WARequest
        captured = []
        orig = WARequest.__dict__["sendRequest"]

        def cap(host, port, path, headers, params, reqType="GET", preview=False):
            captured.append(params)
            return None
        server = Curve.generateKeyPair()
        try:
            WARequest.sendRequest = staticmethod(cap)
            real_req.ENC_PUBKEY = server.getPublicKey()
            real_req._config.id = real_req._config.id  # no-op; WACodeRequest.send adds an id when missing
            real_req.send(preview=True)
        except Exception as e:
            ctx.notes.append("send(preview=True) could not be driven: %r" % (e,))
        finally:
            WARequest.sendRequest = orig
        if captured:
            sent = captured[-1]
            try:
                assert isinstance(sent, list) and len(sent) == 1 and sent[0][0] == "ENC"
                _, plain = harness_decrypt(sent[0][1], bytes(server.getPrivateKey().serialize()))
                final = impl_params(list(real_req.params)).encode("utf-8")
                if plain != final or oracle_params(list(real_req.params), plain.decode("utf-8")):
                    viol("oracle:blob-send-path", {"op": "sendpath", "decrypted": repr(plain)[:300], "expected": repr(final)[:300]})
                # and the outer query string carries the blob so that standard decoding returns it
                outer = impl_params(sent)
                if urllib.parse.unquote_to_bytes(outer.split("=", 1)[1]) != sent[0][1]:
                    viol("oracle:blob-send-path", {"op": "sendpath", "problem": "ENC value does not decode back to the blob"})
            except Exception as e:
                viol("oracle:blob-send-path", {"op": "sendpath", "problem": "sent parameters %r: %r" % (repr(sent)[:200], e)})
            ctx.coverage["send_preview_path"] = "exercised"

    # ------------------------------------------------------------------ verdict
    if model:
        model.close()
        ctx.ties["correspondence"] = "ok" if sum(mism.values()) == 0 else "broken: %r" % mism
        if stats.get("oracle_errors"):
            ctx.notes.append("oracle errors: %d (last %s)" % (stats["oracle_errors"], stats.get("oracle_last_error")))
    if ctx.ties.get("translator:c20_env") != "ok" and not ctx.violations:
        ctx.tie_broken_without_input("translator:c20_env", ctx.ties.get("translator:c20_env"))
    if not ctx.proof_ok and not ctx.violations:
        ctx.tie_broken_without_input("theorem:" + ctx.failing_theorem(), ctx.ties.get("proof"))
    if model is None and not ctx.violations:
        ctx.tie_broken_without_input("model-build:C20", ctx.ties.get("model-build:C20"))
    ctx.coverage["evaluations"] = evals
    ctx.coverage["distinct_nontrivial"] = len(nontrivial)
    ctx.coverage["value_kinds"] = kinds
    ctx.coverage["parameter_lists"] = len(plists)
    ctx.coverage["real_WACodeRequest_parameter_list"] = real_params is not None
    ctx.coverage["phones"] = len(phones)
    ctx.coverage["blobs"] = 2 * len(blob_cases)
    ctx.coverage["blob_draws_observed_for_byte_exact_model_run"] = len(recorded)
    ctx.coverage["consecutive_blobs_fresh_ephemeral"] = fresh_ok
    ctx.coverage["model_oracle_calls"] = stats.get("oracle_calls", 0)
    ctx.coverage["mismatches"] = mism
    ctx.coverage["exhaustive"] = False
    return ctx.finish(
        rule="urlencode: every single byte 0..255 (bytes input), every code point < 0x300 and the UTF-8 length "
             "boundaries (str input), fixed edge values, random bytes/str (all planes, no surrogates)/int (to 128 "
             "bits, negative); each: real urlencode == model, urllib unquote(_to_bytes) returns the value, output "
             "alphabet.  urlencodeParams: random lists (1..27 params, duplicate and descending keys) + the parameter "
             "list of a real WACodeRequest; real == model, independent split/unquote returns the list in order.  "
             "token: digit strings 0..15 long + random unicode; real getToken == model(sha1 oracle) == "
             "hmac.new(key[:64], sig+cls+phone, sha1) on pinned constants.  blobs: fresh recipient key pair per "
             "case, two real calls each; decrypted by cryptography X25519+AESGCM; model run on the recorded draws "
             "byte for byte; send(preview=True) path.  Histories: calls go alternately through the class and through ONE "
             "long-lived WARequest object; look-alike values of different types in a row and a shuffled re-run; tokens "
             "re-asked in shuffled order over two env objects and the singleton; every ordered pair (params_i, "
             "recipient_a) -> (params_j, recipient_b) of encryptParams on one object.  distinct_nontrivial = distinct values whose encoding is not "
             "the identity + parameter lists with >= 2 entries + phones + blobs",
        assumptions_text=ASSUME)


def replay(ctx, data):
    case = data["case"]
    op = case.get("op")
    bad = False
    if op == "urlencode":
        v = unjson(case["value"])
        enc = impl_urlencode(v)
        print("value   :", repr(v))
        print("observed:", repr(enc))
        why = oracle_value(v, enc)
        print("expected: percent-encoding decoding back to the value;", "problem: %s" % why if why else "ok")
        bad = why is not None
    elif op in ("params", "blob"):
        ps = [("".join(chr(c) for c in k), unjson(v)) for k, v in case["params"]]
        enc = impl_params(ps)
        print("params  :", repr(ps)[:400])
        print("observed:", repr(enc)[:400])
        why = oracle_params(ps, enc)
        if op == "blob" and not why:
            from axolotl.ecc.curve import Curve
            server = Curve.generateKeyPair()
            with Recorder() as rec:
                blob, err = real_encrypt(ps, server.getPublicKey(), rec)
                b2, _ = real_encrypt(ps, server.getPublicKey(), rec)
            if blob is None:
                why = err
            else:
                try:
                    e1, plain = harness_decrypt(blob, bytes(server.getPrivateKey().serialize()))
                    e2, _ = harness_decrypt(b2, bytes(server.getPrivateKey().serialize()))
                    print("decrypted:", repr(plain)[:300])
                    if plain != enc.encode("utf-8"):
                        why = "decrypted blob differs from urlencodeParams(params)"
                    elif e1 == e2:
                        why = "same ephemeral key twice"
                except Exception as e:
                    why = "blob does not decrypt: %r" % (e,)
        print("problem :", why or "none")
        bad = why is not None
    elif op == "token":
        ph = "".join(chr(c) for c in case["phone"])
        from yowsup.env.env_android import AndroidYowsupEnv
        ref = c20_env.read_ref()
        k, s, c = (base64.b64decode(ref[n]) for n in ("_KEY", "_SIGNATURE", "_MD5_CLASSES"))
        exp = base64.b64encode(_hmac.new(k[:64], s + c + ph.encode("utf-8"), hashlib.sha1).digest())
        try:
            got = AndroidYowsupEnv().getToken(ph)
        except Exception as e:
            got = repr(e)
        print("phone   :", repr(ph))
        print("observed:", got)
        print("expected:", exp)
        bad = got != exp
    elif op == "urlencode-seq":
        vs = [unjson(j) for j in case["values"]]
        why = None
        for v in vs:
            enc = impl_urlencode(v, via_instance=True)
            print("urlencode(%r) -> %r" % (v, enc))
            why = oracle_value(v, enc)
        print("problem (last call):", why or "none")
        bad = why is not None
    elif op == "token-seq":
        from yowsup.env.env_android import AndroidYowsupEnv
        ref = c20_env.read_ref()
        k, s_, c = (base64.b64decode(ref[n]) for n in ("_KEY", "_SIGNATURE", "_MD5_CLASSES"))
        e = AndroidYowsupEnv()
        for cps in case["phones"]:
            ph = "".join(chr(x) for x in cps)
            exp = base64.b64encode(_hmac.new(k[:64], s_ + c + ph.encode("utf-8"), hashlib.sha1).digest())
            got = e.getToken(ph)
            print("getToken(%r) -> %r expected %r" % (ph, got, exp))
            bad = got != exp
    elif op == "blob-seq":
        from axolotl.ecc.curve import Curve
        keys = [Curve.generateKeyPair() for _ in range(2)]
        req = new_request_object()
        for call in case["calls"]:
            ps = [("".join(chr(c) for c in k), unjson(v)) for k, v in call["params"]]
            kp = keys[call["recipient"]]
            blob, err = real_encrypt(ps, kp.getPublicKey(), None, req=req)
            want = impl_params(ps).encode("utf-8")
            try:
                plain = harness_decrypt(blob, bytes(kp.getPrivateKey().serialize()))[1]
            except Exception as ex:
                plain = "does not decrypt: %r" % (ex,)
            print("encryptParams(%r.., recipient %d) -> decrypts to %r ; expected %r" % (repr(ps)[:60], call["recipient"],
                  plain if isinstance(plain, str) else plain[:100], want[:100]))
            bad = plain != want
    else:
        print("nothing to replay for", data.get("what_no_longer_checks"), repr(case)[:300])
        return 0
    if bad:
        print("VIOLATION property=C20 replay=(replayed)")
        return 1
    return 0
