"""C11 -- concurrent senders never corrupt the encrypted stream.

Model: coq/C11 (instance of the lock-chain model coq/C12/C12Chain.v).
Implementation: the real logger -> coder -> noise -> segments -> network layers of the default stack built by
harness/c12rig.py (Noise in transport state after a REAL handshake with the rig's dissononce responder; the
fake dispatcher records every sendData call = the byte stream at the network layer boundary).

Deterministic baton scheduler over real threads: the instance attributes `lock` of the logger, coder, noise
and segments layers, the noise stream's write queue and the dispatcher's sendData are replaced by instrumented
versions that hand control to the scheduler BEFORE every acquire / release / put / get / write.  Only the
thread that was granted the baton runs; a thread whose next event is an acquire of a taken lock (or a get on
an empty queue) is not runnable; "nobody runnable and not all finished" is a deadlock (an observation).
A schedule is the list of thread ids granted; it is chosen by a seeded random walk or enumerated exhaustively
(depth-first over the runnable sets) for the small scenarios.

Every observed trace (thread, event) is replayed through the extracted Coq model: each event must be the
model's next visible event of that thread, and the final wire (who wrote which header / payload in which
order), the order of encryption, the queue and the finished flags must agree.  Independently the peer
decrypts the recorded bytes strictly in order with the real cipher state (the property's observation point):
every send must come out exactly once, whole, in nonce order.

Positive control: threads entering directly at the segments layer (not protected by the coder's and the
noise layer's locks) with pre-encrypted payloads MUST be flagged by the oracle in some schedule.
"""
import json, threading, time
from .. import modelrun

ASSUME = [
    "modelled: YowLayer.toLower as acquire / lower.send / release per layer; YowCoderLayer.send -> toLower(encode); "
    "YowNoiseLayer.send -> WANoiseTransport.send = encrypt with the next nonce then stream.write_segment (enqueue), "
    "_handle_stream_event = dequeue then toLower under noise.lock; YowNoiseSegmentsLayer.send = toLower(header), "
    "toLower(payload); layers above the coder as arbitrary functions data -> list data",
    "the tie model<->code is trace validation: real threads under a deterministic baton scheduler that yields at "
    "lock acquire/release, queue put/get and socket write of the instrumented instance attributes; every observed "
    "event sequence must be a run of the extracted model with the same final wire",
    "not modelled / trusted: interleavings finer than those yield points (CPython bytecode level, e.g. the "
    "unsynchronised ProtocolEntity id counter; the nonce increment inside dissononce's CipherState happens between "
    "the coder-lock acquire and the enqueue and is atomic at this granularity), consonance / dissononce / "
    "cryptography (encrypt = Section variable `enc`), the encoder (`encode`), struct.pack (`hdr`); the handshake "
    "thread writes only before the transport state exists (sends in that window fail: C12) and is not part of the "
    "C11 scenarios; the keep-alive thread is an ordinary sender entering at the protocol group's toLower (layer >= 5)",
    "symbolic data: the model runs on a free term algebra; the harness maps real bytes to terms by who wrote the "
    "chunk (scheduler) and by decrypting + decoding at the peer",
]

# model node of each layer's lock (node 3 = noise.send has no lock of its own)
LOCKNODE = {"segments": 1, "noise": 2, "coder": 4, "logger": 5, "axolotl_control": 6, "axolotl_parallel": 7,
            "protocol_parallel": 8, "top": 9}
# entry nodes: 1 segments.send (unprotected control), 4 coder.send, 5 logger.send (a layer above the coder),
# 8 the iq layer's sendIq = what the keep-alive thread calls (enters at the protocol group's toLower),
# 9 the application layer's send (whole stack)
ENTRY_LAYER = {1: "segments", 4: "coder", 5: "logger", 8: "iq", 9: "top"}
SERVER = "s.whatsapp.net"


# ---------------------------------------------------------------- scheduler
class Deadlock(Exception):
    pass


class Sched(object):
    """Baton scheduler.  Worker threads park on their own semaphore; the scheduler sleeps on `wake`,
    which a worker releases exactly once each time it parks at a yield point or finishes."""

    def __init__(self, chooser):
        self.chooser = chooser
        self.pending = {}
        self.done = set()
        self.wake = threading.Semaphore(0)
        self.sems = {}
        self.trace = []           # (tid, kind, obj)
        self.options = []         # number of runnable threads at each step
        self.choices = []         # index chosen among the sorted runnable threads
        self.owner = {}
        self.qlen = lambda: 0
        self.tids = {}
        self.errors = {}
        self.stuck = None

    def tid(self):
        return self.tids.get(threading.get_ident())

    def yield_(self, tid, ev):
        self.pending[tid] = ev
        self.wake.release()
        self.sems[tid].acquire()

    def enabled(self, ev):
        if ev[0] == "acq":
            return self.owner.get(ev[1]) is None
        if ev[0] == "get":
            return self.qlen() > 0
        return True

    def run(self, fns):
        n = len(fns)
        threads = []

        def body(i, fn):
            self.tids[threading.get_ident()] = i
            try:
                fn()
            except BaseException as e:          # reported, never swallowed
                self.errors[i] = "%s: %s" % (e.__class__.__name__, e)
            self.done.add(i)
            self.wake.release()
        for i, fn in enumerate(fns):
            self.sems[i] = threading.Semaphore(0)
            t = threading.Thread(target=body, args=(i, fn))
            t.daemon = True
            threads.append(t)
        for t in threads:
            t.start()
        waiting_for = n
        while True:
            for _ in range(waiting_for):
                if not self.wake.acquire(timeout=5.0):
                    self.stuck = "a thread neither reached a yield point nor finished within 5 s (unmodelled block)"
                    return
            if len(self.done) == n:
                return
            runnable = sorted(t for t, ev in self.pending.items() if self.enabled(ev))
            if not runnable:
                self.stuck = "deadlock: pending %r owners %r" % (self.pending, self.owner)
                return
            k = self.chooser(len(self.choices), runnable, self.trace)
            tid = runnable[k]
            ev = self.pending.pop(tid)
            self.options.append(len(runnable))
            self.choices.append(k)
            self.trace.append((tid, ev[0], ev[1]))
            if ev[0] == "acq":
                self.owner[ev[1]] = tid
            elif ev[0] == "rel":
                self.owner[ev[1]] = None
            waiting_for = 1
            self.sems[tid].release()


class Holder(object):
    sched = None


class ILock(object):
    """Instrumented replacement for a layer's `lock` attribute (supports acquire/release, `with`, locked)."""

    def __init__(self, name, holder):
        self.name, self.h, self.real = name, holder, threading.Lock()

    def acquire(self, *a, **k):
        s = self.h.sched
        tid = s.tid() if s else None
        if tid is not None:
            s.yield_(tid, ("acq", self.name))
        return self.real.acquire(*a, **k)

    def release(self):
        s = self.h.sched
        tid = s.tid() if s else None
        if tid is not None:
            s.yield_(tid, ("rel", self.name))
        self.real.release()

    def locked(self):
        return self.real.locked()

    def __enter__(self):
        self.acquire()
        return self

    def __exit__(self, *a):
        self.release()


class IQueue(object):
    def __init__(self, real, holder):
        self.real, self.h = real, holder

    def put(self, item, *a, **k):
        s = self.h.sched
        tid = s.tid() if s else None
        if tid is not None:
            s.yield_(tid, ("put", None))
        return self.real.put(item, *a, **k)

    def get(self, *a, **k):
        s = self.h.sched
        tid = s.tid() if s else None
        if tid is not None:
            s.yield_(tid, ("get", None))
        return self.real.get(*a, **k)

    def __getattr__(self, name):
        return getattr(self.real, name)


# ---------------------------------------------------------------- the instrumented real layers
class Bench(object):
    def __init__(self, ctx, seed):
        from .. import c12rig
        self.rig = c12rig.Rig(ctx.scratch, seed=seed)
        self.h = Holder()
        self.layers = self.rig.by_name
        for name in LOCKNODE:
            self.layers[name].lock = ILock(name, self.h)
        st = self.layers["noise"]._stream
        st._writequeue = IQueue(st._writequeue, self.h)
        self.wq = st._writequeue
        disp = self.rig.dispatcher
        orig = disp.sendData
        self.writes = []
        me = self

        def sendData(data):
            s = me.h.sched
            tid = s.tid() if s else None
            if tid is not None:
                s.yield_(tid, ("write", None))
                me.writes.append((tid, me.cur_op.get(tid), len(data)))
            return orig(data)
        disp.sendData = sendData
        self.cur_op = {}
        self.dirty = False

    def node(self, tid, k):
        from yowsup.structs import ProtocolTreeNode
        return ProtocolTreeNode("iq", {"id": "t%d-%d" % (tid, k), "type": "get", "xmlns": "w", "to": SERVER})

    def ping(self, tid, k):
        from yowsup.layers.protocol_iq.protocolentities import PingIqProtocolEntity
        return PingIqProtocolEntity(to=SERVER, _id="t%d-%d" % (tid, k))

    def peer_read(self):
        p = self.rig.peer
        ids, err = [], None
        while True:
            try:
                f = p._next_frame()
            except Exception as e:
                err = "frame:" + e.__class__.__name__
                break
            if f is None:
                break
            try:
                plain = p.recv_cs.decrypt_with_ad(b"", f)
            except Exception as e:
                err = e.__class__.__name__
                break
            try:
                nd = p._dec.getProtocolTreeNode(bytearray(plain))
                ids.append(nd["id"])
            except Exception as e:
                err = "decode:" + e.__class__.__name__
                break
        return ids, err, len(p._buf)

    def run(self, scenario, chooser):
        """scenario: list per thread of entry nodes (4 coder, 5 logger, 1 segments = unprotected control)."""
        self.writes = []
        self.cur_op = {}
        payloads = {}
        if any(e == 1 for ops in scenario for e in ops):
            # control: pre-encrypt in a fixed order with the stack's own send cipher state
            cs = self.layers["noise"]._wa_noiseprotocol._transport._send_cipherstate
            mk = max(len(o) for o in scenario)
            for k in range(mk):
                for tid, ops in enumerate(scenario):
                    if k < len(ops):
                        plain = bytes(bytearray(self.rig.peer._enc.protocolTreeNodeToBytes(self.node(tid, k))))
                        payloads[(tid, k)] = cs.encrypt_with_ad(b"", plain)
        fns = []
        for tid, ops in enumerate(scenario):
            def fn(tid=tid, ops=ops):
                for k, entry in enumerate(ops):
                    self.cur_op[tid] = k
                    if entry == 8:
                        self.rig.iq.sendIq(self.ping(tid, k))         # YowPingThread.run's call
                    elif entry == 9:
                        self.layers["top"].send(self.ping(tid, k))
                    else:
                        layer = self.layers[ENTRY_LAYER[entry]]
                        layer.send(payloads[(tid, k)] if entry == 1 else self.node(tid, k))
            fns.append(fn)
        s = Sched(chooser)
        s.qlen = self.wq.real.qsize
        self.h.sched = s
        try:
            s.run(fns)
        finally:
            self.h.sched = None
        ids, err, leftover = self.peer_read()
        return s, ids, err, leftover


def expected_ids(scenario):
    return sorted("t%d-%d" % (t, k) for t, ops in enumerate(scenario) for k in range(len(ops)))


def oracle(scenario, s, ids, err, leftover):
    probs = []
    if s.stuck:
        probs.append(s.stuck)
    if s.errors:
        probs.append("a sender raised: %r" % s.errors)
    if err:
        probs.append("the in-order peer cannot decrypt: %s after %d good frames" % (err, len(ids)))
    if leftover:
        probs.append("%d bytes on the wire are not a whole frame" % leftover)
    if not probs and sorted(ids) != expected_ids(scenario):
        probs.append("stanzas transmitted %r != stanzas sent %r" % (sorted(ids), expected_ids(scenario)))
    return probs


# ---------------------------------------------------------------- model side
EV = {"acq": 1, "rel": 2, "put": 3, "get": 4, "write": 5}


def term_desc(t):
    """model wire term -> (kind, plain id)"""
    kind = "p"
    if t[0] == 3:
        kind, t = "h", t[1]
    while t[0] != 0:
        t = t[-1]
    return [kind, t[1]]


def model_check(model, scenario, s, writes, ids):
    opss = [[[e, tid * 100 + k] for k, e in enumerate(ops)] for tid, ops in enumerate(scenario)]
    sched = [t for (t, _, _) in s.trace]
    r = model.call("run_c11", [opss, sched])
    if isinstance(r, tuple):
        return ["model run failed: %r" % (r,)]
    evs, wire, ctr, sent, fin, qlen = r
    diffs = []
    real = [[EV[k], LOCKNODE.get(o, 0)] for (_, k, o) in s.trace]
    if [list(e) for e in evs] != real:
        for i, (a, b) in enumerate(zip(evs, real)):
            if list(a) != b:
                diffs.append("event %d of thread %d: impl=%s model=%s (1 acq 2 rel 3 put 4 get 5 write 0 not enabled)"
                             % (i, sched[i], b, list(a)))
                break
    mw = [term_desc(t) for t in wire]
    rw = [["h" if n == 3 else "p", tid * 100 + (k or 0)] for (tid, k, n) in writes]
    if mw != rw:
        diffs.append("wire impl=%s model=%s" % (rw, mw))
    if not s.stuck and not all(fin):
        diffs.append("model threads not finished: %s" % fin)
    if qlen != 0 and not s.stuck:
        diffs.append("model queue not empty")
    ms = ["t%d-%d" % (term_desc(t)[1] // 100, term_desc(t)[1] % 100) for t in sent]
    if ids is not None and ms != ids and not any(e == 1 for o in scenario for e in o):
        diffs.append("encryption order impl(peer)=%s model=%s" % (ids, ms))
    return diffs


# ---------------------------------------------------------------- choosers
def random_chooser(rng, stick):
    last = [None]

    def ch(step, runnable, trace):
        if last[0] in runnable and rng.random() < stick:
            return runnable.index(last[0])
        k = rng.randrange(len(runnable))
        last[0] = runnable[k]
        return k
    return ch


def prefix_chooser(prefix):
    def ch(step, runnable, trace):
        if step < len(prefix):
            return min(prefix[step], len(runnable) - 1)
        return 0
    return ch


def next_prefix(choices, options):
    for i in range(len(choices) - 1, -1, -1):
        if choices[i] + 1 < options[i]:
            return choices[:i] + [choices[i] + 1]
    return None


# ---------------------------------------------------------------- main
def run(ctx):
    ctx.prove()
    exe = ctx.build_model("C11")
    model = modelrun.Model(exe) if exe else None
    quick = ctx.tier == "quick"
    state = {"bench": None, "nbench": 0}

    def bench():
        if state["bench"] is None or state["bench"].dirty:
            if state["bench"] is not None:
                try:
                    state["bench"].rig.close()
                except Exception:
                    pass
            state["bench"] = Bench(ctx, 1000 + state["nbench"])
            state["nbench"] += 1
        return state["bench"]

    stats = {"schedules": 0, "events": 0, "distinct": set(), "control_runs": 0, "control_detected": 0,
             "exhaustive_scenarios": [], "max_runnable": 0}
    n_viol = [0]          # oracle violations (failing input found)
    n_corr = [0, None]    # trace mismatches, schedule count at the first one

    def stop():
        # after a trace mismatch keep searching (bounded) for a schedule on which the property itself fails
        return n_viol[0] >= 3 or (n_corr[0] > 0 and stats["schedules"] - n_corr[1] > 400)

    def one(scenario, chooser, control=False, mode="random"):
        b = bench()
        s, ids, err, leftover = b.run(scenario, chooser)
        stats["schedules"] += 1
        stats["events"] += len(s.trace)
        stats["max_runnable"] = max([stats["max_runnable"]] + s.options)
        probs = oracle(scenario, s, ids, err, leftover)
        diffs = model_check(model, scenario, s, b.writes, ids) if model else []
        if probs or s.stuck or diffs:
            b.dirty = True
        key = (json.dumps(scenario), tuple(t for t, _, _ in s.trace))
        if key not in stats["distinct"] and len(set(t for t, _, _ in s.trace)) > 1 and \
                any(s.trace[i][0] != s.trace[i + 1][0] for i in range(len(s.trace) - 1)):
            stats["distinct"].add(key)
        case = {"scenario": scenario, "choices": s.choices, "schedule": [t for t, _, _ in s.trace],
                "trace": ["%d:%s%s" % (t, k, "(%s)" % o if o else "") for t, k, o in s.trace][:200],
                "writes": [list(w) for w in b.writes], "peer_ids": ids, "peer_error": err, "leftover": leftover}
        if control:
            stats["control_runs"] += 1
            if probs:
                stats["control_detected"] += 1
            if diffs:
                n_corr[0] += 1
                n_corr[1] = n_corr[1] if n_corr[1] is not None else stats["schedules"]
                if n_corr[0] <= 1:
                    ctx.violation("correspondence:C11.trace(control)", dict(case, diffs=diffs[:5]), found_input=False)
            return s
        if probs:
            n_viol[0] += 1
            ctx.violation("oracle:stream_corrupted", dict(case, problems=probs, model_diffs=diffs[:5]))
        elif diffs:
            n_corr[0] += 1
            n_corr[1] = n_corr[1] if n_corr[1] is not None else stats["schedules"]
            if n_corr[0] <= 1:
                ctx.violation("correspondence:C11.trace", dict(case, diffs=diffs[:5]), found_input=False)
        if stats["schedules"] % 499 == 1:
            ctx.add_sample({"scenario": scenario, "schedule": case["schedule"][:80], "trace_head": case["trace"][:16],
                            "wire_writers": [w[0] for w in b.writes], "peer_ids": ids})
        return s

    def exhaustive(scenario, cap, control=False):
        prefix, n = [], 0
        while prefix is not None and n < cap and not stop():
            s = one(scenario, prefix_chooser(prefix), control=control, mode="dfs")
            n += 1
            prefix = next_prefix(s.choices, s.options)
        stats["exhaustive_scenarios"].append({"scenario": scenario, "schedules": n, "complete": prefix is None})
        return prefix is None

    scen_random = [[[5, 4], [4, 5]], [[4, 4], [5, 5], [4, 5]], [[5], [4], [5], [4]], [[4, 5, 4], [5, 4, 5]],
                   [[5, 5], [4], [4, 4], [5]],
                   # application threads (top) + keep-alive (iq layer) + a reply generated lower down (coder)
                   [[9, 9], [8, 8]], [[9], [8], [4]], [[9, 8], [8, 9], [5], [4]]]
    try:
        # exhaustive small scenarios
        exhaustive([[5], [4]], 400)
        exhaustive([[4], [4]], 400)
        exhaustive([[9], [8]], 400 if quick else 5000)
        if not quick:
            exhaustive([[5], [4], [4]], 5000)
            exhaustive([[5, 4], [4, 5]], 12000)
            exhaustive([[9], [8], [4]], 8000)
            exhaustive([[5], [4], [5], [4]], 8000)
        # seeded random walks
        nrand = 900 if quick else 40000
        for i in range(nrand):
            if stop():
                break
            sc = scen_random[i % len(scen_random)]
            one(sc, random_chooser(ctx.rng, ctx.rng.choice([0.0, 0.3, 0.6, 0.85])))
        # positive control: unprotected entry at the segments layer
        if n_viol[0] == 0 and n_corr[0] == 0:
            for i in range(40 if quick else 300):
                one([[1], [1]] if i % 2 else [[1, 1], [1]], random_chooser(ctx.rng, 0.3), control=True)
            if stats["control_detected"] == 0:
                ctx.violation("oracle:blind", {"detail": "unprotected entry at the segments layer was never detected "
                                                         "as corruption in %d schedules" % stats["control_runs"]},
                              found_input=False)
    finally:
        if state["bench"] is not None:
            try:
                state["bench"].rig.close()
            except Exception:
                pass
    if model:
        model.close()
        ctx.ties["correspondence"] = "ok" if (n_viol[0] == 0 and n_corr[0] == 0) else "broken"
    if not ctx.proof_ok and not ctx.violations:
        ctx.tie_broken_without_input("theorem:" + ctx.failing_theorem(), ctx.ties.get("proof"))
    if model is None and not ctx.violations:
        ctx.tie_broken_without_input("model-build:C11", ctx.ties.get("model-build:C11"))
    ctx.coverage["evaluations"] = stats["schedules"]
    ctx.coverage["distinct_nontrivial"] = len(stats["distinct"])
    ctx.coverage["traces_validated_against_impl"] = stats["schedules"]
    ctx.coverage["events_replayed_through_model"] = stats["events"]
    ctx.coverage["exhaustive_scenarios"] = stats["exhaustive_scenarios"]
    ctx.coverage["exhaustive"] = False
    ctx.coverage["max_runnable_threads_at_a_step"] = stats["max_runnable"]
    ctx.coverage["positive_control"] = {"runs": stats["control_runs"], "detected_as_corruption": stats["control_detected"]}
    ctx.coverage["benches_built"] = state["nbench"]
    ctx.coverage["trace_mismatches"] = n_corr[0]
    ctx.coverage["oracle_failures"] = n_viol[0]
    return ctx.finish(
        rule="a case = (scenario: per thread the list of entry layers of its sends -- 9 application layer, 8 iq layer (keep-alive), 5 logger, 4 coder -- , schedule = "
             "sequence of thread ids granted at lock/queue/write yield points); exhaustive depth-first enumeration of "
             "all schedules for the listed small scenarios (complete flag per scenario), seeded random walks with "
             "stickiness 0/0.3/0.6/0.85 over 2-4 threads x 1-3 sends; positive control scenarios enter at the "
             "segments layer; non-trivial = distinct (scenario, schedule) with at least one thread switch",
        assumptions_text=ASSUME)


def replay(ctx, data):
    case = data["case"]
    if "scenario" not in case:
        print("nothing to replay:", case)
        return 1
    exe = ctx.build_model("C11")
    model = modelrun.Model(exe) if exe else None
    b = Bench(ctx, 7)
    s, ids, err, leftover = b.run(case["scenario"], prefix_chooser(case["choices"]))
    probs = oracle(case["scenario"], s, ids, err, leftover)
    diffs = model_check(model, case["scenario"], s, b.writes, ids) if model else []
    if model:
        model.close()
    print("scenario:", case["scenario"])
    print("schedule:", [t for t, _, _ in s.trace])
    print("observed: wire writers", [(w[0], "hdr" if w[2] == 3 else "payload") for w in b.writes])
    print("observed: peer decrypted in order", ids, "error", err, "leftover bytes", leftover)
    print("expected: every send decrypts in order, exactly once:", expected_ids(case["scenario"]))
    for p in probs:
        print("problem:", p)
    for d in diffs:
        print("model-diff:", d)
    control = any(e == 1 for o in case["scenario"] for e in o)
    if (probs and not control) or diffs:
        print("VIOLATION property=C11 replay=(replayed)")
        return 1
    return 0
