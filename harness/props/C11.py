"""C11 -- concurrent senders never corrupt the encrypted stream.

Model: coq/C11 (instance of the lock-chain model coq/C12/C12Chain.v).
Implementation: the real logger -> coder -> noise -> segments -> network layers of the default stack built by
harness/c12rig.py (Noise in transport state after a REAL handshake with the rig's dissononce responder; the
fake dispatcher records every sendData call = the byte stream at the network layer boundary).

Deterministic baton scheduler over real threads: the layers' locks (instrumented at creation, see the end of this
text), the noise stream's write queue and the dispatcher's sendData hand control to the scheduler BEFORE every
acquire / release / put / get / write.  Only the
thread that was granted the baton runs; a thread whose next event is an acquire of a taken lock (or a get on
an empty queue) is not runnable; "nobody runnable and not all finished" is a deadlock (an observation).
A schedule is the list of thread ids granted; it is chosen by a seeded random walk or enumerated exhaustively
(depth-first over the runnable sets) for the small scenarios.

Every observed trace (thread, event) is replayed through the extracted Coq model: each event must be the
model's next visible event of that thread, and the final wire (who wrote which header / payload in which
order), the order of encryption, the queue and the finished flags must agree.  Independently the peer
decrypts the recorded bytes strictly in order with the real cipher state (the property's observation point):
every send must come out exactly once, whole, in nonce order.

Positive control: threads entering directly at the segments layer (not protected by the coder's and the
noise layer's locks) with pre-encrypted payloads MUST be flagged by the oracle in some schedule.

Handshake side (model coq/C11/C11HsModel.v, rig harness/c11hs.py): the same trace validation on connections whose
Noise handshake is still RUNNING -- the real handshake worker thread is one of the scheduled threads, application
threads send before / while / after it completes (a send outside the transport state raises MachineError and
must leave nothing on the wire), extra yield points at WANoiseProtocol.send, the machine's `finish` trigger, the
protocol-state callback and reads of the protocol state.  Schedules: depth-first enumeration of all schedules
with a bounded number of preemptions for small scenarios, PCT and random walks otherwise.

Search: after the first trace mismatch the schedule search goes on (bounded) for a schedule on which the
property oracle itself fails; the VIOLATION then carries that schedule as its replay.

Locks are instrumented where they are CREATED (harness/c11hs.install_lock_factory), never assigned by the harness;
first stanzas through freshly built stacks are sent concurrently; optional line-level yields inside YowLayer.toLower.
"""
import json, threading, time
from .. import modelrun
from .. import c11hs

ASSUME = [
    "modelled: YowLayer.toLower as acquire / lower.send / release per layer; YowCoderLayer.send -> toLower(encode); "
    "YowNoiseLayer.send -> WANoiseTransport.send = encrypt with the next nonce then stream.write_segment (enqueue), "
    "_handle_stream_event = dequeue then toLower under noise.lock; YowNoiseSegmentsLayer.send = toLower(header), "
    "toLower(payload); layers above the coder as arbitrary functions data -> list data",
    "the tie model<->code is trace validation: real threads under a deterministic baton scheduler that yields at "
    "lock acquire/release, queue put/get and socket write of the instrumented instance attributes; every observed "
    "event sequence must be a run of the extracted model with the same final wire",
    "not modelled / trusted: interleavings finer than those yield points (CPython bytecode level, e.g. the "
    "unsynchronised ProtocolEntity id counter; the nonce increment inside dissononce's CipherState happens between "
    "the coder-lock acquire and the enqueue and is atomic at this granularity), consonance / dissononce / "
    "cryptography (encrypt = Section variable `enc`), the encoder (`encode`), struct.pack (`hdr`); the "
    "keep-alive thread is an ordinary sender entering at the protocol group's toLower (layer >= 5); the handshake "
    "thread is a thread of the second model (C11HsModel, see the handshake-side entry below)",
    "locks: the harness does not assign layer locks; in every loaded yowsup module `threading` and the names Lock / "
    "RLock / Event / Condition / Semaphore imported from it are rebound to instrumented primitives (blocking operations "
    "are scheduler-controlled, non-blocking ones yield points, a lock creation is a scheduling point of its own; only "
    "layer locks are model steps); a layer lock of a hand-written Python class is left in place and its class "
    "instrumented (acquire-return / release-call = the layer's acquire / release); the harness checks on every trace "
    "that at most one thread is between those two per layer; a "
    "lock created before that rebinding or by other means is invisible to the scheduler (a thread blocking on it is "
    "reported as `unmodelled block`, tie broken without input); line-level yields exist only inside YowLayer.toLower "
    "and only in the runs counted as line_level_runs",
    "symbolic data: the model runs on a free term algebra; the harness maps real bytes to terms by who wrote the "
    "chunk (scheduler) and by decrypting + decoding at the peer",
    "handshake side: modelled WANoiseProtocol.send = `_machine.send()` (raises MachineError unless the state is "
    "transport) then encrypt; BlockingQueueSegmentedStream.write_segment = enqueue + stream callback; the handshake "
    "worker = write_segment of client hello / client finish entering BELOW the coder's lock, then `_machine.finish()` "
    "(state := transport, one atomic step at this granularity), then the protocol-state callback (profile write, "
    "_flush_incoming_buffer: no effect on the send path; replies generated by the flush are ordinary sends of the "
    "thread that runs it).  Not modelled: the server side of the handshake (the responder of harness/c04_noise.py "
    "is the environment; its hello is delivered by an environment thread whose own steps are scheduling points but "
    "no model steps), disconnect/reset during the handshake (C04/C12), which thread runs the protocol-state "
    "callback (consonance calls it from whichever thread triggers the machine first after the flip; with an empty "
    "incoming queue it touches nothing of the send path -- the scheduler opens that window (`flipped` yield)).  "
    "Outside the model and the scenarios: server stanzas queued before the flip AND a send passing "
    "WANoiseProtocol.send inside that window; the flush then runs inside the sender's toLower frames and a reply "
    "generated by the receive path blocks on a lock the thread already holds (observed on the unchanged code with a "
    "hand-made schedule: a wedge, i.e. a C12/C04 matter, not a corruption of the stream; design_notes/C11.md)",
]

# model node of each layer's lock (node 3 = noise.send has no lock of its own)
LOCKNODE = {"segments": 1, "noise": 2, "coder": 4, "logger": 5, "axolotl_control": 6, "axolotl_parallel": 7,
            "protocol_parallel": 8, "top": 9}
# entry nodes: 1 segments.send (unprotected control), 4 coder.send, 5 logger.send (a layer above the coder),
# 8 the iq layer's sendIq = what the keep-alive thread calls (enters at the protocol group's toLower),
# 9 the application layer's send (whole stack)
ENTRY_LAYER = {1: "segments", 4: "coder", 5: "logger", 8: "iq", 9: "top"}
SERVER = "s.whatsapp.net"


# ---------------------------------------------------------------- scheduler
class Deadlock(Exception):
    pass


class Sched(object):
    """Baton scheduler.  Worker threads park on their own semaphore; the scheduler sleeps on `wake`,
    which a worker releases exactly once each time it parks at a yield point or finishes."""

    def __init__(self, chooser):
        self.chooser = chooser
        self.pending = {}
        self.done = set()
        self.wake = threading.Semaphore(0)
        self.sems = {}
        self.trace = []           # (tid, kind, obj)
        self.options = []         # number of runnable threads at each step
        self.choices = []         # index chosen among the sorted runnable threads
        self.owner = {}
        self.qlen = lambda: 0
        self.tids = {}
        self.errors = {}
        self.stuck = None
        self.runnables = []       # runnable thread ids at each step
        self.draining = False
        self.threads = []
        self.lock_uids = {}       # site name -> distinct lock objects acquired under that name
        self.lock_created = 0     # locks created by scheduled threads during the run
        self.unknown_ops = 0      # operations the model does not know (busy try-locks)
        self.inside = {}          # layer -> threads between acquire-return and release-call of its lock
        self.mutex_violations = []

    def tid(self):
        return self.tids.get(threading.get_ident())

    def yield_(self, tid, ev):
        if self.draining:
            return
        self.pending[tid] = ev
        self.wake.release()
        self.sems[tid].acquire()

    def drain(self):
        """after a run that ended stuck: let every parked thread go (unscheduled) so that none stays parked while
        holding a lock the harness does not own; the bench is thrown away afterwards"""
        self.draining = True
        for sem in self.sems.values():
            for _ in range(4):
                sem.release()
        for t in self.threads:
            t.join(0.5)

    def enabled(self, ev):
        if len(ev) > 3 and ev[3] is not None:
            return bool(ev[3]())
        if ev[0] == "acq":
            return not ev[2].real.locked()
        if ev[0] == "get":
            return self.qlen() > 0
        return True

    def run(self, fns):
        n = len(fns)
        threads = self.threads

        def body(i, fn):
            self.tids[threading.get_ident()] = i
            try:
                fn()
            except BaseException as e:          # reported, never swallowed
                self.errors[i] = "%s: %s" % (e.__class__.__name__, e)
            self.done.add(i)
            self.wake.release()
        for i, fn in enumerate(fns):
            self.sems[i] = threading.Semaphore(0)
            t = threading.Thread(target=body, args=(i, fn))
            t.daemon = True
            threads.append(t)
        for t in threads:
            t.start()
        waiting_for = n
        while True:
            for _ in range(waiting_for):
                if not self.wake.acquire(timeout=5.0):
                    self.stuck = "a thread neither reached a yield point nor finished within 5 s (unmodelled block)"
                    return
            if len(self.done) == n:
                return
            runnable = sorted(t for t, ev in self.pending.items() if self.enabled(ev))
            if not runnable:
                self.stuck = "deadlock: pending %r owners %r" % (
                    dict((t, e[:2]) for t, e in self.pending.items()), self.owner)
                return
            k = self.chooser(len(self.choices), runnable, self.trace)
            tid = runnable[k]
            ev = self.pending.pop(tid)
            self.options.append(len(runnable))
            self.choices.append(k)
            self.runnables.append(list(runnable))
            self.trace.append((tid, ev[0], ev[1]))
            step = len(self.trace) - 1
            if ev[0] == "acq!":
                # acquire() of a layer lock whose CLASS is instrumented (a Python class of yowsup's own) has returned
                self.trace[-1] = (tid, "acq", ev[1])
                self.owner[ev[1]] = tid
                self.lock_uids.setdefault(ev[1], set()).add(ev[2].uid)
                c11hs.note_exclusion(self, step, "acq", ev[1], tid)
            elif ev[0] == "xbusy":
                self.trace[-1] = (tid, "try:busy", ev[1])
                self.unknown_ops += 1
            elif ev[0] == "try":
                # try-lock / timed acquire: the outcome is fixed now (only the granted thread runs next)
                got = not ev[2].real.locked()
                self.trace[-1] = (tid, "try:got" if got else "try:busy", ev[1])
                if got:
                    self.owner[ev[1]] = tid
                    self.lock_uids.setdefault(ev[1], set()).add(ev[2].uid)
                    c11hs.note_exclusion(self, step, "acq", ev[1], tid)
                else:
                    self.unknown_ops += 1
            elif ev[0] == "acq":
                self.owner[ev[1]] = tid
                self.lock_uids.setdefault(ev[1], set()).add(ev[2].uid)
                c11hs.note_exclusion(self, step, "acq", ev[1], tid)
            elif ev[0] == "rel":
                self.owner[ev[1]] = None
                c11hs.note_exclusion(self, step, "rel", ev[1], tid)
            elif ev[0] == "mklock":
                self.lock_created += 1
            waiting_for = 1
            self.sems[tid].release()


class TCtl(c11hs.LockCtl):
    """lock events of the transport-side bench (locks are instrumented at CREATION, see harness/c11hs.py)"""

    def emit(self, kind, name, lk, pred=None):
        s = self.sched
        tid = s.tid() if s else None
        if tid is not None:
            s.yield_(tid, (kind, name, lk, pred))


class IQueue(object):
    def __init__(self, real, holder):
        self.real, self.h = real, holder

    def put(self, item, *a, **k):
        s = self.h.sched
        tid = s.tid() if s else None
        if tid is not None:
            s.yield_(tid, ("put", None))
        return self.real.put(item, *a, **k)

    def get(self, *a, **k):
        s = self.h.sched
        tid = s.tid() if s else None
        if tid is not None:
            s.yield_(tid, ("get", None))
        return self.real.get(*a, **k)

    def __getattr__(self, name):
        return getattr(self.real, name)


# ---------------------------------------------------------------- the instrumented real layers
class Bench(object):
    def __init__(self, ctx, seed):
        from .. import c12rig
        c11hs.install_lock_factory()
        self.h = TCtl(LOCKNODE)
        c11hs.CURRENT[0] = self.h
        self.rig = c12rig.Rig(ctx.scratch, seed=seed)
        self.layers = self.rig.by_name
        self.h.adopt_layers(dict((name, self.layers[name]) for name in LOCKNODE))
        st = self.layers["noise"]._stream
        st._writequeue = IQueue(st._writequeue, self.h)
        self.wq = st._writequeue
        disp = self.rig.dispatcher
        orig = disp.sendData
        self.writes = []
        me = self

        def sendData(data):
            s = me.h.sched
            tid = s.tid() if s else None
            if tid is not None:
                s.yield_(tid, ("write", None))
                me.writes.append((tid, me.cur_op.get(tid), len(data)))
            return orig(data)
        disp.sendData = sendData
        self.cur_op = {}
        self.dirty = False

    def node(self, tid, k):
        from yowsup.structs import ProtocolTreeNode
        return ProtocolTreeNode("iq", {"id": "t%d-%d" % (tid, k), "type": "get", "xmlns": "w", "to": SERVER})

    def ping(self, tid, k):
        from yowsup.layers.protocol_iq.protocolentities import PingIqProtocolEntity
        return PingIqProtocolEntity(to=SERVER, _id="t%d-%d" % (tid, k))

    def peer_read(self):
        p = self.rig.peer
        ids, err = [], None
        while True:
            try:
                f = p._next_frame()
            except Exception as e:
                err = "frame:" + e.__class__.__name__
                break
            if f is None:
                break
            try:
                plain = p.recv_cs.decrypt_with_ad(b"", f)
            except Exception as e:
                err = e.__class__.__name__
                break
            try:
                nd = p._dec.getProtocolTreeNode(bytearray(plain))
                ids.append(nd["id"])
            except Exception as e:
                err = "decode:" + e.__class__.__name__
                break
        return ids, err, len(p._buf)

    def probe_further_send(self):
        """one more send through the idle stack (unscheduled), then what the peer can read now: tells a stanza that
        is LOST from one that is only LATE (stranded until a later, unrelated send flushes it)"""
        try:
            self.layers["coder"].send(self.node(90, 0))
        except Exception as e:
            return ["probe raised %s" % e.__class__.__name__]
        ids, err, leftover = self.peer_read()
        return ids + (["error:%s" % err] if err else [])

    def run(self, scenario, chooser, line=False, helpers=False):
        """scenario: list per thread of entry nodes (4 coder, 5 logger, 1 segments = unprotected control).
        line: every source line of YowLayer.toLower is a scheduling point as well (harness/c11hs.LineMode)."""
        self.writes = []
        self.cur_op = {}
        payloads = {}
        if any(e == 1 for ops in scenario for e in ops):
            # control: pre-encrypt in a fixed order with the stack's own send cipher state
            cs = self.layers["noise"]._wa_noiseprotocol._transport._send_cipherstate
            mk = max(len(o) for o in scenario)
            for k in range(mk):
                for tid, ops in enumerate(scenario):
                    if k < len(ops):
                        plain = bytes(bytearray(self.rig.peer._enc.protocolTreeNodeToBytes(self.node(tid, k))))
                        payloads[(tid, k)] = cs.encrypt_with_ad(b"", plain)
        fns = []
        for tid, ops in enumerate(scenario):
            def fn(tid=tid, ops=ops):
                for k, entry in enumerate(ops):
                    self.cur_op[tid] = k
                    if entry == 8:
                        self.rig.iq.sendIq(self.ping(tid, k))         # YowPingThread.run's call
                    elif entry == 9:
                        self.layers["top"].send(self.ping(tid, k))
                    else:
                        layer = self.layers[ENTRY_LAYER[entry]]
                        layer.send(payloads[(tid, k)] if entry == 1 else self.node(tid, k))
            fns.append(fn)
        s = Sched(chooser)
        s.qlen = self.wq.real.qsize
        self.h.sched = s
        try:
            if line:
                with c11hs.LineMode(self.h, helpers):
                    s.run(fns)
            else:
                s.run(fns)
        finally:
            if s.stuck:
                s.drain()
            self.h.sched = None
        ids, err, leftover = self.peer_read()
        return s, ids, err, leftover


def expected_ids(scenario):
    return sorted("t%d-%d" % (t, k) for t, ops in enumerate(scenario) for k in range(len(ops)))


def oracle(scenario, s, ids, err, leftover):
    probs = []
    if s.stuck and s.stuck.startswith("deadlock"):
        probs.append(s.stuck)        # (a block the scheduler cannot see is a limit of the tie: model_check reports it)
    if s.errors:
        probs.append("a sender raised: %r" % s.errors)
    for m in s.mutex_violations[:2]:
        probs.append(m)
    if err:
        probs.append("the in-order peer cannot decrypt: %s after %d good frames" % (err, len(ids)))
    if leftover:
        probs.append("%d bytes on the wire are not a whole frame" % leftover)
    if not probs and sorted(ids) != expected_ids(scenario):
        missing = [i for i in expected_ids(scenario) if i not in ids]
        probs.append("at quiescence (every thread finished, stack idle, no further send) stanzas transmitted %r != "
                     "stanzas sent %r%s" % (sorted(ids), expected_ids(scenario),
                                            "; every send returned normally, not on the wire: %r" % missing
                                            if missing else ""))
    return probs


# ---------------------------------------------------------------- model side
EV = {"acq": 1, "rel": 2, "put": 3, "get": 4, "write": 5, "try:got": 1, "try:busy": 9}


def term_desc(t):
    """model wire term -> (kind, plain id)"""
    kind = "p"
    if t[0] == 3:
        kind, t = "h", t[1]
    while t[0] != 0:
        t = t[-1]
    return [kind, t[1]]


def model_check(model, scenario, s, writes, ids):
    opss = [[[e, tid * 100 + k] for k, e in enumerate(ops)] for tid, ops in enumerate(scenario)]
    vis = [(t, k, o) for (t, k, o) in s.trace if k in EV]      # mklock / line are scheduling points only
    # (a try-lock that got the lock replays as an acquire; a busy one is an operation the model does not have)
    sched = [t for (t, _, _) in vis]
    r = model.call("run_c11", [opss, sched])
    if isinstance(r, tuple):
        return ["model run failed: %r" % (r,)]
    evs, wire, ctr, sent, fin, qlen = r
    diffs = []
    real = [[EV[k], LOCKNODE.get(o, 0)] for (_, k, o) in vis]
    diffs.extend(c11hs.lock_identity_diffs(s.lock_uids))
    if s.stuck and not s.stuck.startswith("deadlock"):
        diffs.append("unmodelled block: " + s.stuck)
    if [list(e) for e in evs] != real:
        for i, (a, b) in enumerate(zip(evs, real)):
            if list(a) != b:
                diffs.append("event %d of thread %d: impl=%s model=%s (1 acq 2 rel 3 put 4 get 5 write 9 busy try-lock = unknown to the model; 0 not enabled)"
                             % (i, sched[i], b, list(a)))
                break
    mw = [term_desc(t) for t in wire]
    rw = [["h" if n == 3 else "p", tid * 100 + (k or 0)] for (tid, k, n) in writes]
    if mw != rw:
        diffs.append("wire impl=%s model=%s" % (rw, mw))
    if not s.stuck and not all(fin):
        diffs.append("model threads not finished: %s" % fin)
    if qlen != 0 and not s.stuck:
        diffs.append("model queue not empty")
    ms = ["t%d-%d" % (term_desc(t)[1] // 100, term_desc(t)[1] % 100) for t in sent]
    if ids is not None and ms != ids and not any(e == 1 for o in scenario for e in o):
        diffs.append("encryption order impl(peer)=%s model=%s" % (ids, ms))
    return diffs


# ---------------------------------------------------------------- choosers
def random_chooser(rng, stick):
    last = [None]

    def ch(step, runnable, trace):
        if last[0] in runnable and rng.random() < stick:
            return runnable.index(last[0])
        k = rng.randrange(len(runnable))
        last[0] = runnable[k]
        return k
    return ch


def prefix_chooser(prefix):
    def ch(step, runnable, trace):
        if step < len(prefix):
            return min(prefix[step], len(runnable) - 1)
        return 0
    return ch


def cont_chooser(prefix):
    """replay `prefix`, then keep running the thread that ran last while it is runnable, else the lowest id"""
    def ch(step, runnable, trace):
        if step < len(prefix):
            return min(prefix[step], len(runnable) - 1)
        if trace and trace[-1][0] in runnable:
            return runnable.index(trace[-1][0])
        return 0
    return ch


def next_prefix_pb(s, bound):
    """depth-first successor among the schedules with at most `bound` preemptions"""
    tids = [t for t, _, _ in s.trace]
    for i in range(len(s.choices) - 1, -1, -1):
        if s.choices[i] + 1 < s.options[i]:
            cand = s.choices[:i] + [s.choices[i] + 1]
            n = 0
            for j in range(i + 1):
                last = tids[j - 1] if j else None
                if last in s.runnables[j] and s.runnables[j][cand[j]] != last:
                    n += 1
            if n <= bound:
                return cand
    return None


def next_prefix(choices, options):
    for i in range(len(choices) - 1, -1, -1):
        if choices[i] + 1 < options[i]:
            return choices[:i] + [choices[i] + 1]
    return None


def hs_case(b, variant, senders, s, peer, mode, srv=0):
    return {"kind": "handshake", "handshake": variant, "senders": senders, "server_stanzas": srv,
            "replies": dict((str(t), o) for t, o in b.replies.items()), "choices": s.choices, "mode": mode,
            "threads": dict((str(t), n) for t, n in s.names.items()),
            "schedule": [r[0] for r in s.trace],
            "trace": ["%d:%s%s%s" % (r[0], r[1], "(%s)" % r[2] if r[2] else "", "=" + r[3] if r[3] else "")
                      for r in s.trace][:260],
            "outcomes": dict((str(t), o) for t, o in b.outcomes.items()),
            "writes": [[t, k, len(d)] for t, k, d in b.writes],
            "peer_ids": peer["ids"], "peer_errors": peer["errors"], "leftover": peer["leftover"],
            "peer_units": peer["units"][:8]}


# ---------------------------------------------------------------- main
def run(ctx):
    ctx.prove()
    exe = ctx.build_model("C11")
    model = modelrun.Model(exe) if exe else None
    quick = ctx.tier == "quick"
    state = {"bench": None, "nbench": 0}

    def bench():
        if state["bench"] is None or state["bench"].dirty:
            if state["bench"] is not None:
                try:
                    state["bench"].rig.close()
                except Exception:
                    pass
            state["bench"] = Bench(ctx, 1000 + state["nbench"])
            state["nbench"] += 1
        return state["bench"]

    stats = {"schedules": 0, "events": 0, "distinct": set(), "control_runs": 0, "control_detected": 0,
             "exhaustive_scenarios": [], "max_runnable": 0, "first_send_runs": 0, "line_mode_runs": 0,
             "locks_created_while_sending": 0, "unknown_ops": 0, "exclusion_violations": 0}
    n_viol = [0]          # oracle violations (failing input found)
    n_corr = [0, None]    # trace mismatches, schedule count at the first one

    def stop():
        # after a trace mismatch keep searching (bounded) for a schedule on which the property itself fails
        return n_viol[0] >= 3 or (n_corr[0] > 0 and stats["schedules"] - n_corr[1] > 400) or \
            (state.get("first_exclusion_at") is not None and stats["schedules"] - state["first_exclusion_at"] > 400) or \
            state.get("unmodelled", 0) >= 3      # each unmodelled block costs a backstop wait: do not search on

    def move_on(n_here):
        # ... but do not spend the whole search budget in the depth-first tail of one scenario
        return n_corr[0] > 0 and n_viol[0] == 0 and n_here >= 60

    def one(scenario, chooser, control=False, mode="random", fresh=False, line=False, helpers=False):
        if fresh and state["bench"] is not None:
            state["bench"].dirty = True          # FIRST stanzas through a freshly built stack: no warm-up send
        b = bench()
        s, ids, err, leftover = b.run(scenario, chooser, line=line, helpers=helpers)
        stats["unknown_ops"] += s.unknown_ops
        if fresh:
            b.dirty = True
            stats["first_send_runs"] += 1
            stats["locks_created_while_sending"] += s.lock_created
        if line:
            stats["line_mode_runs"] += 1
        stats["schedules"] += 1
        stats["events"] += len(s.trace)
        stats["max_runnable"] = max([stats["max_runnable"]] + s.options)
        probs = oracle(scenario, s, ids, err, leftover)
        diffs = model_check(model, scenario, s, b.writes, ids) if model else []
        if probs or s.stuck or diffs:
            b.dirty = True
        if s.stuck and not s.stuck.startswith("deadlock"):
            state["unmodelled"] = state.get("unmodelled", 0) + 1
        key = (json.dumps(scenario), tuple(t for t, _, _ in s.trace))
        if key not in stats["distinct"] and len(set(t for t, _, _ in s.trace)) > 1 and \
                any(s.trace[i][0] != s.trace[i + 1][0] for i in range(len(s.trace) - 1)):
            stats["distinct"].add(key)
        case = {"scenario": scenario, "choices": s.choices, "fresh_stack": bool(fresh), "line_mode": bool(line),
                "line_helpers": bool(helpers), "operations_unknown_to_the_model": s.unknown_ops, "mode": mode,
                "layer_locks_of_a_python_class": dict(b.h.custom),
                "distinct_lock_objects_per_layer": dict((n, len(u)) for n, u in s.lock_uids.items() if len(u) > 1),
                "schedule": [t for t, _, _ in s.trace],
                "trace": ["%d:%s%s" % (t, k, "(%s)" % o if o else "") for t, k, o in s.trace][:200],
                "writes": [list(w) for w in b.writes], "peer_ids": ids, "peer_error": err, "leftover": leftover}
        if control:
            stats["control_runs"] += 1
            if probs:
                stats["control_detected"] += 1
            if diffs:
                n_corr[0] += 1
                n_corr[1] = n_corr[1] if n_corr[1] is not None else stats["schedules"]
                if n_corr[0] <= 1:
                    ctx.violation("correspondence:C11.trace(control)", dict(case, diffs=diffs[:5]), found_input=False)
            return s
        if probs and all(p.startswith("mutual exclusion") for p in probs):
            # two threads inside one layer's lock: a concrete schedule against the mechanism the property rests on,
            # reported once; the search goes on (bounded) for a schedule on which it also shows on the wire
            stats["exclusion_violations"] += 1
            if state.get("first_exclusion_at") is None:
                state["first_exclusion_at"] = stats["schedules"]
                n_viol[0] += 1
                ctx.violation("oracle:two_threads_inside_one_layer_lock", dict(case, problems=probs, model_diffs=diffs[:5]))
                # directed search for a schedule on which it reaches the wire: one, then two preemptions of this
                # scenario and of the small coder-entry scenarios, on fresh stacks
                v0 = n_viol[0]
                for sc in [scenario] + [x for x in ([[4], [4]], [[4], [4], [4]]) if x != scenario]:
                    for bound in (1, 2):
                        prefix, n = [], 0
                        while prefix is not None and n < 120 and n_viol[0] == v0 and state.get("unmodelled", 0) < 3:
                            sx = one(sc, cont_chooser(prefix), mode="wire-search-pb%d" % bound, fresh=True)
                            n += 1
                            prefix = next_prefix_pb(sx, bound)
                state["first_exclusion_at"] = stats["schedules"]      # the bounded general search starts now
        elif probs:
            n_viol[0] += 1
            if any("not on the wire" in p for p in probs) and not s.stuck:
                after = b.probe_further_send()
                missing = [i for i in expected_ids(scenario) if i not in ids]
                late = [i for i in missing if i in after]
                case["after_one_further_send_the_peer_also_read"] = after
                case["classification"] = ("late: %r reached the wire only behind a later unrelated send" % late
                                          if late else "lost: still not on the wire after a further send")
                probs = probs + [case["classification"]]
            ctx.violation("oracle:stream_corrupted", dict(case, problems=probs, model_diffs=diffs[:5]))
        elif diffs:
            n_corr[0] += 1
            n_corr[1] = n_corr[1] if n_corr[1] is not None else stats["schedules"]
            if n_corr[0] <= 1:
                # reported at the end, and only when the search finds no schedule on which the oracle fails
                state["first_mismatch"] = dict(case, diffs=diffs[:5])
        if (s.unknown_ops or b.h.custom) and not control and not state.get("escalating") and len(scenario) == 2 and \
                json.dumps(scenario) not in state.setdefault("escalated", set()) and \
                (s.unknown_ops or len(state["escalated"]) < state.get("escalation_budget", 2)) and not stop():
            state["escalated"].add(json.dumps(scenario))
            state["escalating"] = True
            try:
                escalate(scenario)
            finally:
                state["escalating"] = False
        if stats["schedules"] % 499 == 1:
            ctx.add_sample({"scenario": scenario, "schedule": case["schedule"][:80], "trace_head": case["trace"][:16],
                            "wire_writers": [w[0] for w in b.writes], "peer_ids": ids})
        return s

    def escalate(scenario):
        """a run showed an operation the model does not know (busy try-lock): enumerate this 2-sender scenario again,
        warm and first-send, with line-level preemption in YowLayer.toLower and the YowLayer helpers it calls,
        one then two preemptions, until the oracle fails"""
        v0 = n_viol[0]
        for bound, cap in ((1, 60 if quick else 300), (2, 150 if quick else 3000)):
            for fresh in (False, True):
                prefix, n = [], 0
                while prefix is not None and n < cap and n_viol[0] == v0 and state.get("unmodelled", 0) < 3:
                    sx = one(scenario, cont_chooser(prefix), mode="escalated-pb%d" % bound, fresh=fresh, line=True,
                             helpers=True)
                    n += 1
                    prefix = next_prefix_pb(sx, bound)
                stats["exhaustive_scenarios"].append({
                    "scenario": scenario, "schedules": n, "complete": prefix is None, "preemption_bound": bound,
                    "first_send_on_fresh_stack": fresh, "line_level_yields_in_toLower": True,
                    "escalated_after_unknown_operation": True})
                if n_viol[0] != v0:
                    return

    def exhaustive(scenario, cap, control=False, fresh=False):
        prefix, n = [], 0
        while prefix is not None and n < cap and not stop() and not move_on(n):
            s = one(scenario, prefix_chooser(prefix), control=control, mode="dfs", fresh=fresh)
            n += 1
            prefix = next_prefix(s.choices, s.options)
        stats["exhaustive_scenarios"].append({"scenario": scenario, "schedules": n, "complete": prefix is None,
                                              "first_send_on_fresh_stack": fresh})
        return prefix is None

    def bounded(scenario, bound, cap, fresh=False, line=False):
        prefix, n = [], 0
        while prefix is not None and n < cap and not stop() and not move_on(n):
            s = one(scenario, cont_chooser(prefix), mode="pb%d" % bound, fresh=fresh, line=line)
            n += 1
            prefix = next_prefix_pb(s, bound)
        stats["exhaustive_scenarios"].append({"scenario": scenario, "schedules": n, "complete": prefix is None,
                                              "preemption_bound": bound, "line_level_yields_in_toLower": line, "first_send_on_fresh_stack": fresh,
                                              "line_level_yields_in_toLower": line})

    # ------------------------------------------------------------ handshake side
    hs = {"schedules": 0, "events": 0, "distinct": set(), "all_raise": 0, "all_ok": 0, "mixed": 0, "straddle": 0,
          "systematic": [], "mismatch": 0, "first_mismatch_at": None, "viol": 0, "max_runnable": 0,
          "kinds": set(), "first_viol_at": None, "replies_hs": 0, "replies_env": 0, "line_runs": 0,
          "locks_created": 0, "unknown_ops": 0}
    hs_search = 650 if quick else 3000

    def hs_stop():
        # after the first trace mismatch / oracle failure the search goes on (bounded) for schedules on which the
        # property fails in a DIFFERENT way (one replay per kind of failure: lost, out of nonce order, ...)
        if len(hs["kinds"]) >= 3 or state.get("unmodelled", 0) >= 3:
            return True
        first = min([x for x in (hs["first_mismatch_at"], hs["first_viol_at"]) if x is not None] or [None]) \
            if (hs["first_mismatch_at"] is not None or hs["first_viol_at"] is not None) else None
        return first is not None and hs["schedules"] - first > hs_search

    def hs_one(variant, senders, chooser, mode, srv=0, line=False, helpers=False):
        b = c11hs.HsBench(ctx.scratch, "c11hs%d" % hs["schedules"], variant, server_stanzas=srv)
        s = b.run(senders, chooser, line=line, helpers=helpers)
        hs["unknown_ops"] += s.unknown_ops
        hs["line_runs"] += 1 if line else 0
        hs["locks_created"] += s.lock_created
        hs["schedules"] += 1
        hs["events"] += len(s.trace)
        hs["max_runnable"] = max([hs["max_runnable"]] + s.options)
        probs, peer = c11hs.hs_oracle(b, senders, s)
        diffs = c11hs.hs_model_check(model, b, senders, s, peer) if model else []
        if s.stuck and not s.stuck.startswith("deadlock"):
            state["unmodelled"] = state.get("unmodelled", 0) + 1
        outs = [o for v in b.outcomes.values() for o in v]
        if outs and all(o == "ok" for o in outs):
            hs["all_ok"] += 1
        elif outs and all(o != "ok" for o in outs):
            hs["all_raise"] += 1
        else:
            hs["mixed"] += 1
        hs["straddle"] += c11hs.straddles(b, s)
        hs["replies_hs"] += len(b.replies.get(b.hs_tid, []))
        hs["replies_env"] += len(b.replies.get(0, []))
        sched = tuple(r[0] for r in s.trace)
        key = (variant, srv, json.dumps(senders), sched)
        if key not in hs["distinct"] and any(sched[i] != sched[i + 1] for i in range(len(sched) - 1)):
            hs["distinct"].add(key)
        case = hs_case(b, variant, senders, s, peer, mode, srv)
        case["line_mode"] = bool(line)
        case["line_helpers"] = bool(helpers)
        case["operations_unknown_to_the_model"] = s.unknown_ops
        if any(p.startswith("lost") for p in probs) and not s.stuck:
            after = c11hs.hs_probe_further_send(b)
            late = [i for i in after if i is not None and any((" %s " % i) in p for p in probs if p.startswith("lost"))]
            case["after_one_further_send_the_peer_read"] = after
            probs = probs + [("late: %r reached the wire only behind a later unrelated send" % late) if late
                             else "still not on the wire after a further send"]
        case["distinct_lock_objects_per_layer"] = dict((n, len(u)) for n, u in s.lock_uids.items() if len(u) > 1)
        if probs:
            hs["viol"] += 1
            if hs["first_viol_at"] is None:
                hs["first_viol_at"] = hs["schedules"]
            kind = probs[0].split(":")[0]
            if kind not in hs["kinds"]:
                hs["kinds"].add(kind)
                ctx.violation("oracle:handshake_stream_corrupted(%s)" % kind,
                              dict(case, problems=probs, model_diffs=diffs[:5]))
        elif diffs:
            hs["mismatch"] += 1
            if hs["first_mismatch_at"] is None:
                hs["first_mismatch_at"] = hs["schedules"]
                state["hs_first_mismatch"] = dict(case, diffs=diffs[:5])
        key2 = json.dumps([variant, senders, srv])
        if (s.unknown_ops or b.h.custom) and len(senders) == 2 and not state.get("hs_escalating") and \
                key2 not in state.setdefault("hs_escalated", set()) and \
                (s.unknown_ops or len(state["hs_escalated"]) < 2) and not hs_stop():
            state["hs_escalated"].add(key2)
            state["hs_escalating"] = True
            try:
                v0 = hs["viol"]
                for bound, cap in ((1, 150), (2, 400 if quick else 2500)):
                    prefix, n = [], 0
                    while prefix is not None and n < cap and hs["viol"] == v0 and state.get("unmodelled", 0) < 3:
                        sx = hs_one(variant, senders, c11hs.prefix_chooser(prefix), "escalated-pb%d" % bound, srv,
                                    line=True, helpers=True)
                        n += 1
                        prefix = c11hs.next_prefix_pb(sx.choices, sx.options, sx.preemptible, bound)
                    hs["systematic"].append({"handshake": variant, "senders": senders, "server_stanzas": srv,
                                             "preemption_bound": bound, "line_level_yields_in_toLower": True,
                                             "escalated_after_unknown_operation": True, "schedules": n,
                                             "complete": prefix is None})
                    if hs["viol"] != v0:
                        break
            finally:
                state["hs_escalating"] = False
        if hs["schedules"] % 331 == 7:
            ctx.add_sample({"handshake": variant, "senders": senders, "schedule": list(sched)[:90],
                            "trace_head": case["trace"][:24], "outcomes": case["outcomes"], "peer_ids": peer["ids"]})
        return s

    def hs_systematic(variant, senders, bound, cap, srv=0, line=False):
        prefix, n = [], 0
        while prefix is not None and n < cap and not hs_stop():
            s = hs_one(variant, senders, c11hs.prefix_chooser(prefix), "pb%d" % bound, srv, line)
            n += 1
            prefix = c11hs.next_prefix_pb(s.choices, s.options, s.preemptible, bound)
        hs["systematic"].append({"handshake": variant, "senders": senders, "server_stanzas": srv,
                                 "preemption_bound": bound,
                                 "schedules": n, "complete": prefix is None})

    # (handshake pattern, sends per application thread, server stanzas queued with the hello -- each is answered
    #  from inside receive() by whichever thread flushes the incoming buffer: the handshake worker or the network thread)
    hs_scen = [("XX", [[6], [5, 5]], 0), ("IK", [[5, 5, 5], [6, 6]], 0), ("XX", [[6, 5, 6, 5]], 0),
               ("IK", [[5], [5], [6]], 0), ("XX", [[6, 6], [5, 5], [5]], 0), ("IK", [[6, 5], [5, 6]], 0),
               ("IK", [[5, 6], [6]], 1), ("IK", [[5, 5, 5]], 2),
               # bursts: three back to back against one, two against two, entering at different layers
               ("IK", [[5, 5, 5], [6]], 0), ("XX", [[6, 6], [5, 5]], 0)]

    def hs_part():
        hs_systematic("IK", [[5]], 1 if quick else 2, 150 if quick else 1500)
        hs_systematic("IK", [[5], [5]], 1, 200 if quick else 1500)
        hs_systematic("XX", [[6]], 1, 150 if quick else 500)
        hs_systematic("IK", [[5]], 1, 120 if quick else 1500, srv=1)
        hs_systematic("IK", [[5], [5]], 1, 60 if quick else 600, line=True)
        if not quick:
            hs_systematic("XX", [[6, 5], [5]], 1, 600)
        n = 320 if quick else 2500
        for i in range(n):
            if hs_stop():
                break
            variant, senders, srv = hs_scen[i % len(hs_scen)]
            if i % 3 == 2:
                ch = c11hs.walk_chooser(ctx.rng, ctx.rng.choice([0.5, 0.8, 0.92]))
            else:
                ch = c11hs.pct_chooser(ctx.rng, ctx.rng.choice([1, 2, 3]), 90)
            hs_one(variant, senders, ch, "pct/walk", srv, line=(i % 16 == 15))

    bursts = [[[4, 4, 4], [4]], [[5, 5], [4, 4]], [[9, 9, 9], [8]], [[4, 4, 4], [5]], [[8, 8], [9, 9]]]

    def burst_phase():
        if state.get("bursts_done"):
            return
        state["bursts_done"] = True
        bounded(bursts[0], 1, 60 if quick else 300)
        bounded(bursts[1], 1, 60 if quick else 300, fresh=True)
        for i in range(120 if quick else 1000):
            if stop():
                break
            one(bursts[i % len(bursts)], random_chooser(ctx.rng, ctx.rng.choice([0.3, 0.6, 0.85, 0.92])),
                mode="burst", fresh=(i % 3 == 2))

    scen_random = [[[5, 4], [4, 5]], [[4, 4], [5, 5], [4, 5]], [[5], [4], [5], [4]], [[4, 5, 4], [5, 4, 5]],
                   [[5, 5], [4], [4, 4], [5]],
                   # application threads (top) + keep-alive (iq layer) + a reply generated lower down (coder)
                   [[9, 9], [8, 8]], [[9], [8], [4]], [[9, 8], [8, 9], [5], [4]]]
    try:
        if bench().h.custom:
            # a layer lock of a hand-written class: what such a lock gets wrong shows under contention with a sender
            # that comes straight back, so the burst scenarios go first (the escalated line-level enumeration is
            # then limited to the first two 2-sender scenarios)
            state["escalation_budget"] = 2
            burst_phase()
        # exhaustive small scenarios
        exhaustive([[5], [4]], 400)
        exhaustive([[4], [4]], 400)
        exhaustive([[9], [8]], 400 if quick else 5000)
        if not quick:
            exhaustive([[5], [4], [4]], 5000)
            exhaustive([[5, 4], [4, 5]], 12000)
            exhaustive([[9], [8], [4]], 8000)
            exhaustive([[5], [4], [5], [4]], 8000)
        # FIRST stanzas through a freshly built stack, sent concurrently (no warm-up send): a lock that is only
        # created by the first toLower is created here, inside the race
        exhaustive([[4], [4]], 50, fresh=True)
        exhaustive([[5], [4]], 60 if quick else 400, fresh=True)
        bounded([[4], [4], [4]], 1, 40 if quick else 400, fresh=True)
        bounded([[4], [4]], 1, 40 if quick else 300, fresh=True, line=True)
        first_scen = [[[9], [8]], [[5], [4], [4]], [[9], [8], [4]], [[4], [5], [5]]]
        for i in range(40 if quick else 600):
            if stop():
                break
            one(first_scen[i % len(first_scen)], random_chooser(ctx.rng, ctx.rng.choice([0.0, 0.3, 0.6, 0.85])),
                fresh=True, line=(i % 5 == 4))
        # bursts: one thread sends several stanzas back to back while another is parked on a layer lock (a hand-off
        # that lets the releasing thread back in before the woken waiter has the lock shows up only then)
        burst_phase()
        # seeded random walks
        nrand = 900 if quick else 40000
        for i in range(nrand):
            if stop():
                break
            sc = scen_random[i % len(scen_random)]
            one(sc, random_chooser(ctx.rng, ctx.rng.choice([0.0, 0.3, 0.6, 0.85])))
        # targeted search: the tie is broken but no schedule failed the oracle yet -> enumerate the schedules with
        # one, then two preemptions of the scenario that first disagreed (and of the two-thread coder scenario)
        if n_corr[0] > 0 and n_viol[0] == 0 and state.get("first_mismatch") is not None:
            n_corr[1] = stats["schedules"]          # fresh budget of 400
            sc0 = state["first_mismatch"]["scenario"]
            for sc in ([sc0] if sc0 == [[4], [4]] else [sc0, [[4], [4]]]):
                for bound in (1, 2):
                    if n_viol[0] == 0 and not stop():
                        prefix, n = [], 0
                        while prefix is not None and n < 150 and n_viol[0] == 0 and not stop():
                            sx = one(sc, cont_chooser(prefix), mode="search-pb%d" % bound, fresh=True)
                            n += 1
                            prefix = next_prefix_pb(sx, bound)
        # handshake side: senders before / while / after the handshake completes
        if n_viol[0] == 0:
            hs_part()
        # positive control: unprotected entry at the segments layer
        if n_viol[0] == 0 and n_corr[0] == 0 and hs["viol"] == 0 and hs["mismatch"] == 0:
            for i in range(40 if quick else 300):
                one([[1], [1]] if i % 2 else [[1, 1], [1]], random_chooser(ctx.rng, 0.3), control=True)
            if stats["control_detected"] == 0:
                ctx.violation("oracle:blind", {"detail": "unprotected entry at the segments layer was never detected "
                                                         "as corruption in %d schedules" % stats["control_runs"]},
                              found_input=False)
    finally:
        if state["bench"] is not None:
            try:
                state["bench"].rig.close()
            except Exception:
                pass
    # a trace mismatch for which the search found no failing schedule is reported as such, after the concrete ones
    if n_corr[0] > 0 and n_viol[0] == 0 and state.get("first_mismatch") is not None:
        ctx.violation("correspondence:C11.trace", state["first_mismatch"], found_input=False)
    if hs["mismatch"] > 0 and hs["viol"] == 0 and state.get("hs_first_mismatch") is not None:
        ctx.violation("correspondence:C11.handshake_trace", state["hs_first_mismatch"], found_input=False)
    if model:
        model.close()
        ctx.ties["correspondence"] = "ok" if (n_viol[0] == 0 and n_corr[0] == 0) else "broken"
        ctx.ties["correspondence:handshake"] = "ok" if (hs["viol"] == 0 and hs["mismatch"] == 0) else "broken"
    if not ctx.proof_ok and not ctx.violations:
        ctx.tie_broken_without_input("theorem:" + ctx.failing_theorem(), ctx.ties.get("proof"))
    if model is None and not ctx.violations:
        ctx.tie_broken_without_input("model-build:C11", ctx.ties.get("model-build:C11"))
    ctx.coverage["evaluations"] = stats["schedules"] + hs["schedules"]
    ctx.coverage["distinct_nontrivial"] = len(stats["distinct"]) + len(hs["distinct"])
    ctx.coverage["traces_validated_against_impl"] = stats["schedules"] + hs["schedules"]
    ctx.coverage["events_replayed_through_model"] = stats["events"] + hs["events"]
    ctx.coverage["handshake_side"] = {
        "schedules": hs["schedules"], "events": hs["events"], "distinct_with_a_thread_switch": len(hs["distinct"]),
        "systematic_preemption_bounded": hs["systematic"],
        "runs_where_every_send_raised": hs["all_raise"], "runs_where_every_send_returned": hs["all_ok"],
        "runs_with_raised_and_returned_sends": hs["mixed"],
        "sends_in_progress_across_the_flip": hs["straddle"],
        "replies_sent_by_the_handshake_worker_while_flushing": hs["replies_hs"],
        "replies_sent_by_the_network_thread_while_flushing": hs["replies_env"],
        "max_runnable_threads_at_a_step": hs["max_runnable"],
        "trace_mismatches": hs["mismatch"], "oracle_failures": hs["viol"],
        "kinds_of_oracle_failure": sorted(hs["kinds"])}
    ctx.coverage["exhaustive_scenarios"] = stats["exhaustive_scenarios"]
    ctx.coverage["exhaustive"] = False
    ctx.coverage["max_runnable_threads_at_a_step"] = stats["max_runnable"]
    ctx.coverage["positive_control"] = {"runs": stats["control_runs"], "detected_as_corruption": stats["control_detected"]}
    ctx.coverage["benches_built"] = state["nbench"]
    ctx.coverage["first_send_on_fresh_stack_runs"] = stats["first_send_runs"] + hs["schedules"]
    ctx.coverage["line_level_runs"] = stats["line_mode_runs"] + hs["line_runs"]
    ctx.coverage["locks_created_by_sender_threads"] = stats["locks_created_while_sending"] + hs["locks_created"]
    cust = {}
    if state["bench"] is not None:
        cust.update(state["bench"].h.custom)
    ctx.coverage["layer_locks_of_a_python_class"] = cust
    ctx.coverage["runs_with_two_threads_inside_one_layer_lock"] = stats["exclusion_violations"]
    ctx.coverage["operations_unknown_to_the_model"] = stats["unknown_ops"] + hs["unknown_ops"]
    ctx.coverage["lock_factory_bindings"] = ["%s.%s" % b for b in c11hs.install_lock_factory()]
    fb = sorted(set((state["bench"].h.fallback if state["bench"] is not None else [])))
    if fb:
        ctx.coverage["locks_not_created_through_the_factory"] = fb
    ctx.coverage["trace_mismatches"] = n_corr[0]
    ctx.coverage["oracle_failures"] = n_viol[0]
    return ctx.finish(
        rule="a case = (scenario: per thread the list of entry layers of its sends -- 9 application layer, 8 iq layer (keep-alive), 5 logger, 4 coder -- , schedule = "
             "sequence of thread ids granted at lock/queue/write yield points); exhaustive depth-first enumeration of "
             "all schedules for the listed small scenarios (complete flag per scenario), seeded random walks with "
             "stickiness 0/0.3/0.6/0.85 over 2-4 threads x 1-3 sends; positive control scenarios enter at the "
             "segments layer; handshake side: a case = (XX|IK handshake in progress, per application thread the entry "
             "layers of its sends -- 6 top, 5 coder --, schedule over environment thread, handshake worker and senders at "
             "lock/queue/write/nsend/flip/callback/state-read yield points), depth-first enumeration of the schedules "
             "with <= 1 preemption (thorough: 2 for the smallest) for the listed scenarios, PCT (depth 1-3) and sticky random walks for "
             "the others; non-trivial = distinct (scenario, schedule) with at least one thread switch",
        assumptions_text=ASSUME)


def replay_hs(ctx, case):
    exe = ctx.build_model("C11")
    model = modelrun.Model(exe) if exe else None
    b = c11hs.HsBench(ctx.scratch, "c11hsreplay", case["handshake"], server_stanzas=case.get("server_stanzas", 0))
    s = b.run(case["senders"], c11hs.prefix_chooser(case["choices"]), line=case.get("line_mode", False),
              helpers=case.get("line_helpers", False))
    probs, peer = c11hs.hs_oracle(b, case["senders"], s)
    diffs = c11hs.hs_model_check(model, b, case["senders"], s, peer) if model else []
    if model:
        model.close()
    print("handshake:", case["handshake"], " senders (entry layer per send; 6 top, 5 coder):", case["senders"])
    print("threads:", dict(s.names))
    print("trace:", " ".join("%d:%s%s%s" % (r[0], r[1], "(%s)" % r[2] if r[2] else "", "=" + r[3] if r[3] else "")
                             for r in s.trace))
    print("observed: send outcomes", b.outcomes, "replies sent from receive()", b.replies)
    print("observed: distinct lock objects acquired per layer", dict((n, len(u)) for n, u in s.lock_uids.items()),
          "locks created while sending", s.lock_created)
    print("observed: wire writers", [(t, k, n) for t, k, n in [(w[0], w[1], len(w[2])) for w in b.writes]])
    print("observed: peer units", peer["units"], "decrypted in order", peer["ids"], "errors", peer["errors"],
          "leftover bytes", peer["leftover"])
    print("expected: handshake units first, then every send that returned normally exactly once, in nonce order; "
          "nothing for a send that raised")
    for p in probs:
        print("problem:", p)
    for d in diffs:
        print("model-diff:", d)
    if probs or diffs:
        print("VIOLATION property=C11 replay=(replayed)")
        return 1
    return 0


def replay(ctx, data):
    case = data["case"]
    if case.get("kind") == "handshake":
        return replay_hs(ctx, case)
    if "scenario" not in case:
        print("nothing to replay:", case)
        return 1
    exe = ctx.build_model("C11")
    model = modelrun.Model(exe) if exe else None
    b = Bench(ctx, 7)
    s, ids, err, leftover = b.run(case["scenario"], prefix_chooser(case["choices"]), line=case.get("line_mode", False),
                                  helpers=case.get("line_helpers", False))
    probs = oracle(case["scenario"], s, ids, err, leftover)
    diffs = model_check(model, case["scenario"], s, b.writes, ids) if model else []
    if model:
        model.close()
    print("scenario:", case["scenario"])
    print("schedule:", [t for t, _, _ in s.trace])
    print("observed: distinct lock objects acquired per layer", dict((n, len(u)) for n, u in s.lock_uids.items()),
          "locks created while sending", s.lock_created)
    print("observed: wire writers", [(w[0], "hdr" if w[2] == 3 else "payload") for w in b.writes])
    print("observed: peer decrypted in order", ids, "error", err, "leftover bytes", leftover)
    print("expected: every send decrypts in order, exactly once:", expected_ids(case["scenario"]))
    for p in probs:
        print("problem:", p)
    if any("not on the wire" in p for p in probs) and not s.stuck:
        print("after one further send the peer also read:", b.probe_further_send())
    for d in diffs:
        print("model-diff:", d)
    control = any(e == 1 for o in case["scenario"] for e in o)
    if (probs and not control) or diffs:
        print("VIOLATION property=C11 replay=(replayed)")
        return 1
    return 0
